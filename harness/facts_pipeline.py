"""Facts of the entry points (pipeline.py, fingerprint/generate.py, conformer/util.py) -> Gen/PipelineFacts.v

Read by reflection (signature defaults, module constants, the compiled regex pattern) and by `ast` (the literal
defaults of the two `fprint_params.get(...)` calls and the exception tuple of the collection loop).  Fail-closed:
anything that cannot be read raises and the check reports the broken tie."""
import ast
import inspect


def _z(n):
    return '(%d)' % int(n)


def _s(s):
    return '"%s"%%string' % s.replace('"', '""')


def _get_defaults(src, varname):
    """{key: literal default} of every `<varname>.get("key", <literal>)` call in `src`."""
    out = {}
    for node in ast.walk(ast.parse(src)):
        if isinstance(node, ast.Call) and isinstance(node.func, ast.Attribute) and node.func.attr == 'get' \
                and isinstance(node.func.value, ast.Name) and node.func.value.id == varname and len(node.args) == 2 \
                and isinstance(node.args[0], ast.Constant):
            out[node.args[0].value] = ast.literal_eval(node.args[1])
    return out


def generate():
    from e3fp import pipeline
    from e3fp.fingerprint import generate as G
    from e3fp.fingerprint import fprinter
    from e3fp.conformer import util as CU
    from e3fp.conformer import generate as CG
    sig = inspect.signature(G.fprints_dict_from_mol).parameters
    d = {k: v.default for k, v in sig.items() if v.default is not inspect._empty}
    psrc = inspect.getsource(pipeline)
    gets = _get_defaults(psrc, 'fprint_params')
    expected_regex = r"(?P<mol_name>.+?)(?:-(?P<proto_state_num>\d+))?(?:_(?P<conf_num>\d+))?$"
    smiles_defaults = pipeline.fprints_from_smiles.__defaults__
    run_sig = inspect.signature(G.run).parameters
    # the exceptions swallowed by the collection loop of run()
    exc_names = []
    for node in ast.walk(ast.parse(inspect.getsource(G.run))):
        if isinstance(node, ast.ExceptHandler) and node.type is not None:
            t = node.type
            exc_names = sorted(e.id for e in (t.elts if isinstance(t, ast.Tuple) else [t]))
    cg = {k: v.default for k, v in inspect.signature(CG.generate_conformers).parameters.items() if v.default is not inspect._empty}
    lines = ['From Coq Require Import ZArith String Bool.', 'Open Scope Z_scope.', '',
             '(* signature defaults of fingerprint.generate.fprints_dict_from_mol *)',
             'Definition fd_bits_def : Z := %s.' % _z(d['bits']),
             'Definition fd_level_def : Z := %s.' % _z(d['level']),
             'Definition fd_first_def : Z := %s.' % _z(d['first']),
             'Definition fd_out_dir_base_def_is_none : bool := %s.' % ('true' if d['out_dir_base'] is None else 'false'),
             'Definition fd_out_ext_def : string := %s.' % _s(d['out_ext']),
             'Definition fd_flags_def_all_false : bool := %s.' % ('true' if (d['save'], d['all_iters'], d['overwrite']) == (False, False, False) else 'false'),
             'Definition fprinter_bits_const : Z := %s.' % _z(fprinter.BITS),
             '(* pipeline.py *)',
             'Definition pl_get_level_def : Z := %s.' % _z(gets['level']),
             'Definition pl_get_first_def : Z := %s.' % _z(gets['first']),
             'Definition pl_select_level_def : Z := %s.' % _z(inspect.signature(pipeline.fprints_from_fprints_dict).parameters['level'].default),
             'Definition pl_smiles_default_dicts_empty : bool := %s.' % ('true' if smiles_defaults[0] == {} and smiles_defaults[1] == {} and smiles_defaults[2] is False else 'false'),
             '(* conformer/util.py *)',
             'Definition proto_name_delim : string := %s.' % _s(CU.PROTO_NAME_DELIM),
             'Definition conf_name_delim : string := %s.' % _s(CU.CONF_NAME_DELIM),
             'Definition mol_item_regex_is_modelled : bool := %s.' % ('true' if CU.MOL_ITEM_REGEX.pattern == expected_regex and CU.MOL_ITEM_REGEX.flags & ~32 == 0 else 'false'),
             '(* fingerprint.generate.run *)',
             'Definition run_swallows_attribute_and_value_error : bool := %s.' % ('true' if exc_names == ['AttributeError', 'ValueError'] else 'false'),
             'Definition run_flags_def_all_false : bool := %s.' % ('true' if (run_sig['overwrite'].default, run_sig['all_iters'].default) == (False, False) else 'false'),
             '(* conformer.generate.generate_conformers *)',
             'Definition cg_flags_def_all_false : bool := %s.' % ('true' if (cg['save'], cg['overwrite']) == (False, False) else 'false'),
             'Definition cg_first_def : Z := %s.' % _z(cg['first']),
             '']
    return {'PipelineFacts.v': '\n'.join(lines)}
