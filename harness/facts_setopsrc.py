"""Source-derived definitions for the bit-fingerprint set operators (C11) -> Gen/SetOpSource.v (fail-closed `ast` translator).

Re-derived from the SOURCE TEXT of Fingerprint.__add__/__sub__/__and__/__or__/__xor__ (fprint.py) on every run; Properties/C11Src.v
proves Model/Fprint.v's fp_bit_add / fp_bit_sub / fp_and / fp_or / fp_xor equal to them.  TRANSLATED per operator: the
`if <test>: raise <Error>` guards in source order over two atoms (`isinstance(other, Fingerprint)`, `self.bits != other.bits` /
`self.bits == other.bits`) with their exception classes; the NumPy set function of the returned `Fingerprint(<fn>(x, y, ...), bits=...)`
(np.union1d -> zunion, np.intersect1d -> zinter, np.setdiff1d -> zdiff, np.setxor1d -> zxor: the reading of these four names is the
trusted table, tied by the correspondence) and the ORDER of its two operands (self/other), and which operand's length the result takes.
REQUIRED (else the translator raises): the result class is the base class `Fingerprint`, no level/name is passed on, the reflected and
in-place variants of __add__ delegate to it."""
import ast
import inspect
import textwrap

from facts_m1src import Untranslatable

SETFN = {'np.union1d': 'zunion', 'np.intersect1d': 'zinter', 'np.setdiff1d': 'zdiff', 'np.setxor1d': 'zxor'}
OPERAND = {'self.indices': 'x', 'other.indices': 'y'}
ATOMS = {'isinstance(other,Fingerprint)': 'is_fp', 'self.bits!=other.bits': '(negb bits_eq)', 'self.bits==other.bits': 'bits_eq',
         'other.bits!=self.bits': '(negb bits_eq)', 'other.bits==self.bits': 'bits_eq'}
ERRS = {'E3FPInvalidFingerprintError': 'EInvalidFp', 'E3FPBitsValueError': 'EBits'}


def _func(obj):
    return ast.parse(textwrap.dedent(inspect.getsource(obj))).body[0]


def tr_bool(e):
    src = ast.unparse(e).replace(' ', '')
    if src in ATOMS:
        return ATOMS[src]
    if isinstance(e, ast.BoolOp):
        op = ' && ' if isinstance(e.op, ast.And) else ' || '
        return '(' + op.join(tr_bool(v) for v in e.values) + ')'
    if isinstance(e, ast.UnaryOp) and isinstance(e.op, ast.Not):
        return '(negb %s)' % tr_bool(e.operand)
    raise Untranslatable('atom outside the table: ' + ast.unparse(e))


def operator(fn):
    body = [s for s in fn.body if not (isinstance(s, ast.Expr) and isinstance(s.value, ast.Constant))]
    guards = []
    for st in body[:-1]:
        if not (isinstance(st, ast.If) and not st.orelse and len(st.body) == 1 and isinstance(st.body[0], ast.Raise)
                and isinstance(st.body[0].exc, ast.Call) and ast.unparse(st.body[0].exc.func) in ERRS):
            raise Untranslatable('%s: statement is not `if <test>: raise <Error>(...)`: %s' % (fn.name, ast.unparse(st)[:80]))
        guards.append((tr_bool(st.test), ERRS[ast.unparse(st.body[0].exc.func)]))
    ret = body[-1]
    if not (isinstance(ret, ast.Return) and isinstance(ret.value, ast.Call) and ast.unparse(ret.value.func) == 'Fingerprint' and len(ret.value.args) == 1):
        raise Untranslatable('%s: does not return Fingerprint(<set function>(...), bits=...)' % fn.name)
    kws = {k.arg: ast.unparse(k.value) for k in ret.value.keywords}
    if set(kws) != {'bits'} or kws['bits'] not in ('self.bits', 'other.bits'):
        raise Untranslatable('%s: keywords of the result: %r' % (fn.name, kws))
    call = ret.value.args[0]
    if not (isinstance(call, ast.Call) and ast.unparse(call.func) in SETFN and len(call.args) == 2 and all(ast.unparse(a) in OPERAND for a in call.args)):
        raise Untranslatable('%s: set expression %s' % (fn.name, ast.unparse(call)[:80]))
    for k in call.keywords:
        if not (k.arg == 'assume_unique' and isinstance(k.value, ast.Constant)):
            raise Untranslatable('%s: keyword %s of the set function' % (fn.name, k.arg))
    term = 'None'
    for t, e in reversed(guards):
        term = '(if %s then Some %s else %s)' % (t, e, term)
    setexpr = '%s %s %s' % (SETFN[ast.unparse(call.func)], OPERAND[ast.unparse(call.args[0])], OPERAND[ast.unparse(call.args[1])])
    return term, setexpr, ('bits_self' if kws['bits'] == 'self.bits' else 'bits_other')


def generate():
    from e3fp.fingerprint import fprint
    F = fprint.Fingerprint
    lines = ['From Coq Require Import ZArith List Bool.', 'From E3FP Require Import Base.Prelude Base.ZSet.', 'Open Scope Z_scope.', '']
    for name, tag in (('__add__', 'add'), ('__sub__', 'sub'), ('__and__', 'and'), ('__or__', 'or'), ('__xor__', 'xor')):
        g, setexpr, bits = operator(_func(F.__dict__[name]))
        lines.append('Definition bit_%s_guards_src (is_fp bits_eq : bool) : option err := %s.' % (tag, g))
        lines.append('Definition bit_%s_indices_src (x y : list Z) : list Z := %s.' % (tag, setexpr))
        lines.append('Definition bit_%s_bits_src (bits_self bits_other : Z) : Z := %s.' % (tag, bits))
    for name, target in (('__radd__', 'self.__add__(other)'), ('__iadd__', 'self.__add__(other)')):
        if name in F.__dict__:
            body = [s for s in _func(F.__dict__[name]).body if not (isinstance(s, ast.Expr) and isinstance(s.value, ast.Constant))]
            if not (len(body) == 1 and isinstance(body[0], ast.Return) and ast.unparse(body[0].value).replace(' ', '') in (target, 'self+other')):
                raise Untranslatable('%s does not delegate to __add__' % name)
    lines.append('')
    return {'SetOpSource.v': '\n'.join(lines)}
