"""Fingerprint values on both sides: generators, observation of implementation objects, Gallina literals (model M2)."""
from fractions import Fraction
import numpy as np
from core import zlit, zlist, optlit, strlit, qlit, listlit

KINDS = ('KBit', 'KCount', 'KFloat')


def classes():
    from e3fp.fingerprint.fprint import Fingerprint, CountFingerprint, FloatFingerprint
    return {'KBit': Fingerprint, 'KCount': CountFingerprint, 'KFloat': FloatFingerprint}


def kind_of(obj):
    from e3fp.fingerprint.fprint import Fingerprint, CountFingerprint, FloatFingerprint
    c = obj.__class__
    return 'KFloat' if c is FloatFingerprint else 'KCount' if c is CountFingerprint else 'KBit' if c is Fingerprint else 'K?'


def err_of(exc):
    from e3fp.fingerprint import util as U
    if isinstance(exc, RecursionError):
        return 'ERecursion'
    for cls, tag in ((U.E3FPBitsValueError, 'EBits'), (U.E3FPInvalidFingerprintError, 'EInvalidFp'),
                     (U.E3FPCountsError, 'ECounts'), (U.E3FPOptionError, 'EOption'), (KeyError, 'EKey'),
                     (IndexError, 'EIndex'), (TypeError, 'EType'), (ValueError, 'EValue')):
        if isinstance(exc, cls):
            return tag
    if isinstance(exc, (ZeroDivisionError, OverflowError, FloatingPointError)) or type(exc) is Exception:
        return 'EOther'            # the classes the models map to EOther
    return 'EUnexpected_' + type(exc).__name__      # not an `err` constructor: the comparison fails loudly


def fr(x):
    if isinstance(x, Fraction):
        return x
    if isinstance(x, (bool, np.bool_)):
        return Fraction(int(x))
    if isinstance(x, (int, np.integer)):
        return Fraction(int(x))
    return Fraction(float(x))


def obs(fp):
    """Canonical observation of an implementation fingerprint."""
    lv = fp.level
    cnt = fp.counts
    return {'kind': kind_of(fp), 'bits': int(fp.bits), 'level': None if lv is None else int(lv),
            'idx': [int(i) for i in fp.indices],
            'cnt': sorted((int(k), fr(v)) for k, v in cnt.items()),
            'name': fp.name}


def obs_json(o):
    d = dict(o)
    d['cnt'] = [[k, str(v)] for k, v in o['cnt']]
    return d


def lit(o):
    """mkfp literal from an observation (bit fingerprints carry an empty fcnt: counts are derived)."""
    cnt = [] if o['kind'] == 'KBit' else o['cnt']
    return '(mkfp %s %s %s %s %s %s)' % (o['kind'], zlit(o['bits']), optlit(o['level']), zlist(o['idx']),
                                         listlit(['(%s, %s)' % (zlit(k), qlit(v)) for k, v in cnt]),
                                         optlit(o['name'], strlit))


def build(spec):
    """spec: dict(kind,bits,level,name, idx=[...] | cnt={i: value}) -> implementation object."""
    C = classes()[spec['kind']]
    kw = {'bits': spec['bits'], 'level': spec.get('level', -1)}
    if spec.get('name'):
        kw['name'] = spec['name']
    if spec['kind'] == 'KBit' or 'cnt' not in spec:
        return C.from_indices(np.array(spec['idx'], dtype=np.int64), **kw)
    return C.from_counts({int(k): (float(v) if spec['kind'] == 'KFloat' else int(v)) for k, v in spec['cnt'].items()}, **kw)


def attempt(f):
    """Run an implementation action; returns ('ok', value) or ('err', tag)."""
    try:
        return ('ok', f())
    except RecursionError as e:
        return ('err', 'ERecursion')
    except Exception as e:  # noqa
        return ('err', err_of(e))


def result_lit(r, ok_lit=lit):
    return '(Ok %s)' % ok_lit(r[1]) if r[0] == 'ok' else '(Raises %s)' % r[1]


def rand_indices(rng, bits, maxn=8):
    n = rng.choice([0, 1, 1, 2, 3, 4, 5, maxn])
    if bits <= 64:
        pool = list(range(bits))
        rng.shuffle(pool)
        return sorted(pool[:min(n, bits)])
    out = set()
    while len(out) < n:
        r = rng.random()
        if r < 0.3:
            out.add(rng.randrange(0, min(bits, 40)))
        elif r < 0.5:
            out.add(bits - 1 - rng.randrange(0, min(bits, 40)))
        else:
            out.add(rng.randrange(0, bits))
    return sorted(out)


def rand_spec(rng, kind=None, bits=None, level=None, named=None, like=None):
    kind = kind or rng.choice(KINDS)
    bits = bits or rng.choice([1, 2, 4, 8, 16, 16, 32, 64, 1024, 4096, 2 ** 20, 2 ** 32])
    if like is not None and rng.random() < 0.5:
        # related to another spec: subset / superset / equal / shifted
        base = list(like.get('idx') or sorted(like.get('cnt', {}).keys()))
        base = [i for i in base if i < bits]
        mode = rng.choice(['equal', 'subset', 'superset', 'overlap'])
        if mode == 'subset' and base:
            base = [i for i in base if rng.random() < 0.6]
        elif mode == 'superset':
            base = sorted(set(base) | set(rand_indices(rng, bits, 3)))
        elif mode == 'overlap':
            base = sorted(set(i for i in base if rng.random() < 0.5) | set(rand_indices(rng, bits, 3)))
        idx = base
    else:
        idx = rand_indices(rng, bits)
    spec = {'kind': kind, 'bits': bits, 'level': rng.choice([-1, -1, 0, 1, 5, None]) if level is None else level}
    if named if named is not None else rng.random() < 0.4:
        spec['name'] = rng.choice(['a', 'mol_0', 'CHEMBL25_1', 'x y'])
    if kind == 'KBit':
        spec['idx'] = idx
    elif kind == 'KCount':
        if rng.random() < 0.3:
            spec['idx'] = sorted(idx + [i for i in idx if rng.random() < 0.4])   # multiplicities
        else:
            spec['cnt'] = {i: rng.choice([1, 1, 2, 3, 7, 200]) for i in idx}
    else:
        spec['cnt'] = {i: Fraction(rng.choice([1, 2, 3, 5, 9, 250]), rng.choice([1, 1, 2, 4, 8])) for i in idx}
    return spec


# --------------------------------------------------------------------------- replay support (specs as JSON)
def spec_to_json(spec):
    d = {k: v for k, v in spec.items() if k not in ('cnt',)}
    if 'cnt' in spec:
        d['cnt'] = [[int(k), str(Fraction(v))] for k, v in sorted(spec['cnt'].items())]
    return d


def spec_from_json(d):
    spec = {k: v for k, v in d.items() if k != 'cnt'}
    if 'cnt' in d:
        spec['cnt'] = {int(k): (Fraction(v) if spec['kind'] == 'KFloat' else int(Fraction(v))) for k, v in d['cnt']}
    return spec


def finish_replay(ctx, path, what):
    """Common end of a replay: prints the outcome; exit status 1 with a VIOLATION line if the recorded case still fails."""
    import shutil
    seen = set()
    for f, w in ctx.known_hits:
        if f['id'] not in seen:
            seen.add(f['id'])
            print('KNOWN-FINDING: property=%s %s [%s]' % (ctx.pid, f.get('what', w), f['id']))
    shutil.rmtree(ctx.workdir, ignore_errors=True)
    if ctx.violations:
        print('VIOLATION property=%s replay=%s' % (ctx.pid, path))
        for v in ctx.violations[:5]:
            print('  ' + v['what'][:300].replace('\n', ' '))
            if 'model_output' in v.get('payload', {}):
                print('  model: ' + str(v['payload']['model_output'])[-600:].replace('\n', ' '))
        return 1
    print('replay %s: %s - the recorded case no longer fails (%d evaluation(s), %d known finding(s) reproduced)'
          % (path, what, ctx.coverage['evaluations'], len(seen)))
    return 0
