"""Helpers shared by the C09 / C10 / C17 (fingerprint part) checks: richer generators than fpgen's, observation of the
other representations of a fingerprint (dense / CSR vector, bit string, RDKit vector, props) and their Gallina
literals for Model/FprintIO.v."""
import os
from fractions import Fraction
import numpy as np
import core
import fpgen
from core import zlit, zlist, optlit, strlit, qlit, listlit, blit
from fpgen import fr, obs, lit, kind_of, classes, attempt, err_of

IMPORTS = ['From Coq Require Import QArith Ascii.',
           'From E3FP Require Import Base.Prelude Base.ZSet Model.Fprint Model.FprintIO.']

BITS_SMALL = [1, 2, 3, 4, 5, 7, 8, 16, 32, 33, 64, 100, 1024, 4096]
BITS_MID = [2 ** 16]
BITS_LARGE = [99999, 100000, 2 ** 20, 2 ** 31 - 2, 2 ** 31 - 1, 2 ** 31, 2 ** 31 + 1, 2 ** 32 - 1, 2 ** 32]
LEVELS = [-1, -1, 0, 1, 2, 5, 17, None]
NAMES = [None, None, 'a', 'mol_0', 'CHEMBL25_1', 'x y', 'Name', '0']
PROP_VALUES = [1, -7, 2.5, 'txt', None, True, (1, 2), [3, 'q'], {'k': [1, 2]}, b'by', 1e300, frozenset([4])]


def entries_lit(es):
    return listlit(['(%s, %s)' % (zlit(k), qlit(v)) for k, v in es])


def rand_bits(rng, maxbits=2 ** 32):
    pool = [b for b in BITS_SMALL + BITS_SMALL + BITS_MID + BITS_LARGE if b <= maxbits]
    return rng.choice(pool)


def rand_index_set(rng, bits):
    r = rng.random()
    if bits <= 64 and r < 0.12:
        return list(range(bits))                      # full
    if r < 0.22:
        return []                                     # empty
    if bits <= 64:
        return sorted(i for i in range(bits) if rng.random() < rng.choice([0.2, 0.5, 0.9]))
    n = rng.choice([1, 2, 3, 5, 8, 13])
    out = set()
    while len(out) < n:
        q = rng.random()
        if q < 0.25:
            out.add(rng.randrange(0, min(bits, 40)))
        elif q < 0.5:
            out.add(bits - 1 - rng.randrange(0, min(bits, 40)))
        elif q < 0.6 and bits > 2 ** 31:
            out.add((2 ** 31 - 1) + rng.randrange(-2, 40))          # around the RDKit modulus
        else:
            out.add(rng.randrange(0, bits))
    return sorted(i for i in out if 0 <= i < bits)


def rand_count(rng, big=False):
    if big and rng.random() < 0.5:
        return rng.choice([65534, 65535, 65536, 65537, 70000, 2 ** 31, 2 ** 40])
    return rng.choice([1, 1, 1, 2, 3, 7, 200, 65535])


def rand_float(rng):
    return Fraction(rng.choice([1, 2, 3, 5, 9, 250, 65536, 10 ** 9 + 7]), rng.choice([1, 1, 2, 4, 8, 1024]))


def rand_spec(rng, kind=None, bits=None, maxbits=2 ** 32, big=False, unit=False, idx=None):
    """A well-formed fingerprint description (indices in range, positive counts)."""
    kind = kind or rng.choice(fpgen.KINDS)
    bits = bits or rand_bits(rng, maxbits)
    idx = rand_index_set(rng, bits) if idx is None else idx
    spec = {'kind': kind, 'bits': bits, 'level': rng.choice(LEVELS)}
    nm = rng.choice(NAMES)
    if nm:
        spec['name'] = nm
    if kind == 'KBit':
        spec['idx'] = idx
    elif kind == 'KCount':
        spec['cnt'] = {i: (1 if unit else rand_count(rng, big)) for i in idx}
    else:
        spec['cnt'] = {i: (Fraction(1) if unit else rand_float(rng)) for i in idx}
    if rng.random() < 0.4:
        spec['props'] = {k: rng.choice(PROP_VALUES) for k in rng.sample(['p', 'q', 'index', 'Zed', 'a b'], rng.choice([1, 2, 3]))}
    return spec


def build(spec):
    fp = fpgen.build(spec)
    for k, v in spec.get('props', {}).items():
        fp.set_prop(k, v)
    return fp


def related(rng, spec):
    """A spec related to `spec`: equal, equal but for one field, subset, superset, overlapping, other counts."""
    import copy
    s = copy.deepcopy(spec)
    keys = list(s['idx']) if 'idx' in s else sorted(s['cnt'])
    mode = rng.choice(['equal', 'equal', 'level', 'bits', 'subset', 'superset', 'overlap', 'counts', 'name', 'kind', 'empty'])
    if s['kind'] == 'KFloat' and rng.random() < 0.25:
        mode = 'counts_tiny'        # same support, one value off by a relative 2^-17 .. 2^-50: equality is exact, not approximate
    newkeys = keys
    if mode == 'level':
        s['level'] = rng.choice([l for l in LEVELS if l != s['level']])
    elif mode == 'bits':
        cands = [b for b in BITS_SMALL + BITS_LARGE if b != s['bits'] and all(k < b for k in keys)]
        if cands:
            s['bits'] = rng.choice(cands)
    elif mode == 'subset' and keys:
        drop = rng.randrange(len(keys))
        newkeys = [k for j, k in enumerate(keys) if j != drop and (rng.random() < 0.8)]
    elif mode == 'superset':
        newkeys = sorted(set(keys) | set(rand_index_set(rng, s['bits'])[:3]) | {rng.randrange(0, s['bits'])})
    elif mode == 'overlap':
        newkeys = sorted(set(k for k in keys if rng.random() < 0.5) | set(rand_index_set(rng, s['bits'])[:3]))
    elif mode == 'empty':
        newkeys = []
    elif mode == 'name':
        s['name'] = 'other'
    elif mode == 'kind':
        s['kind'] = rng.choice([k for k in fpgen.KINDS if k != s['kind']])
    if 'idx' in s and s['kind'] == 'KBit':
        s['idx'] = newkeys
    else:
        old = s.get('cnt') or {k: 1 for k in keys}
        s.pop('idx', None)
        if s['kind'] == 'KBit':
            s['idx'] = newkeys
            s.pop('cnt', None)
        else:
            conv = (lambda v: Fraction(v)) if s['kind'] == 'KFloat' else (lambda v: max(1, int(v)))
            s['cnt'] = {k: conv(old.get(k, 1)) for k in newkeys}
            if mode == 'counts' and newkeys:
                k = rng.choice(newkeys)
                s['cnt'][k] = s['cnt'][k] + 1
            if mode == 'counts_tiny' and newkeys:
                k = rng.choice(newkeys)
                base = Fraction(rng.choice([1, 3, 1000, 12345])) if rng.random() < 0.5 else s['cnt'][k]
                s['cnt'][k] = base * (1 + Fraction(1, 2 ** rng.choice([17, 20, 24, 30, 40, 50])))
                if rng.random() < 0.5 and k in (spec.get('cnt') or {}):
                    spec['cnt'][k] = base            # the partner holds the unperturbed value at the same position
    return s


# --------------------------------------------------------------------------- observations
def props_obs(fp):
    from e3fp.fingerprint.fprint import NAME_PROP_KEY
    return sorted((str(k), canon_value(v)) for k, v in fp.props.items() if k != NAME_PROP_KEY)


def canon_value(v):
    if isinstance(v, np.ndarray):
        return 'ndarray%r' % (v.tolist(),)
    if isinstance(v, dict):
        return '{%s}' % ', '.join('%s: %s' % (canon_value(k), canon_value(x)) for k, x in sorted(v.items(), key=lambda kv: repr(kv[0])))
    if isinstance(v, (set, frozenset)):
        return '%s{%s}' % (type(v).__name__, ', '.join(sorted(canon_value(x) for x in v)))
    if isinstance(v, (list, tuple)):
        return '%s[%s]' % (type(v).__name__, ', '.join(canon_value(x) for x in v))
    return '%s:%r' % (type(v).__name__, v)


def props_lit(ps):
    return listlit(['(%s, %s)' % (strlit(k), strlit(v)) for k, v in ps])


def xobs(fp):
    o = obs(fp)
    o['props'] = props_obs(fp)
    return o


def xlit(o):
    return '(mkfpx %s %s)' % (lit(o), props_lit(o.get('props', [])))


def xobs_json(o):
    d = fpgen.obs_json(o)
    d['props'] = [list(p) for p in o.get('props', [])]
    return d


def cache_obs(fp, depth=0):
    """fold cache: sorted keys with the observation of each cached fingerprint (recursively)."""
    out = []
    for k in sorted(fp.folded_fingerprint, key=lambda kk: (int(kk[0]), int(kk[1]))):
        v = fp.folded_fingerprint[k]
        o = fpgen.obs_json(obs(v))
        out.append([[int(k[0]), int(k[1])], o, cache_obs(v, depth + 1) if depth < 4 else '...'])
    return out


def dense_obs(vec):
    vec = np.asarray(vec)
    nz = np.flatnonzero(vec)
    return (int(vec.shape[0]), [(int(i), fr(vec[i])) for i in nz])


def dense_lit(o):
    return '(%s, %s)' % (zlit(o[0]), entries_lit(o[1]))


def csr_obs(m):
    return (int(m.shape[1]), [(int(i), fr(v)) for i, v in zip(m.indices, m.data)])


def csr_lit(o):
    return '(mkcsr %s %s)' % (zlit(o[0]), entries_lit(o[1]))


def rdk_obs(r):
    from rdkit.DataStructs.cDataStructs import SparseBitVect
    return (isinstance(r, SparseBitVect), int(r.GetNumBits()), [int(i) for i in r.GetOnBits()])


def rdk_lit(o):
    return '(mkrdk %s %s %s)' % (blit(o[0]), zlit(o[1]), zlist(o[2]))


DTYPES = {None: 'None', 'bool': '(Some DBool)', 'uint16': '(Some DUint16)', 'float64': '(Some DFloat64)'}
NP_DTYPES = {None: None, 'bool': np.bool_, 'uint16': np.uint16, 'float64': np.float64}


def expected_dtype(kind, dt):
    return np.dtype(NP_DTYPES[dt] if dt else {'KBit': np.bool_, 'KCount': np.uint16, 'KFloat': np.float64}[kind])


def lvl_kw(passed, level):
    """(python kwargs, Gallina `option (option Z)`) for an optional level keyword."""
    if not passed:
        return {}, 'None'
    return {'level': level}, '(Some %s)' % optlit(level)


def name_kw(name):
    return ({}, 'None') if name is None else ({'name': name}, '(Some %s)' % strlit(name))


def same_content(oa, ob, name=True, level=True, props=False):
    keys = ['kind', 'bits', 'idx', 'cnt'] + (['name'] if name else []) + (['level'] if level else []) + (['props'] if props else [])
    return all(oa.get(k) == ob.get(k) for k in keys)


# --------------------------------------------------------------------------- behaviour outside a property's domain
def outside_domain(ctx, key, what, payload):
    """A behaviour that contradicts the property's wording only for inputs outside its stated domain (e.g. count
    fingerprints holding zero / negative counts).  It is reproduced and counted; it becomes a KNOWN-FINDING line when
    known_findings.json lists `key` for this property, otherwise a note in the evidence."""
    for f in ctx.findings:
        if f.get('status') == 'known' and f.get('key') == key:
            ctx.fail(what, payload, finding_key=key)
            return
    seen = getattr(ctx, '_outside', None)
    if seen is None:
        seen = ctx._outside = {}
    if key not in seen:
        seen[key] = 0
        ctx.notes.append({'outside_domain': key, 'what': what, 'example': payload})
    seen[key] += 1
    for n in ctx.notes:
        if isinstance(n, dict) and n.get('outside_domain') == key:
            n['times_reproduced'] = seen[key]


def signed_spec(rng, kind=None, bits=None):
    """A count/float fingerprint holding zero and/or negative counts, the way subtraction produces them."""
    kind = kind or rng.choice(['KCount', 'KFloat'])
    sa = rand_spec(rng, kind=kind, bits=bits or rng.choice([4, 8, 16, 1024, 2 ** 32]))
    keys = sorted(sa['cnt'])
    if not keys:
        keys = [0]
        sa['cnt'] = {0: sa['cnt'].get(0, 1) if sa['cnt'] else (1 if kind == 'KCount' else Fraction(3, 2))}
    sb = {'kind': kind, 'bits': sa['bits'], 'level': sa['level'], 'cnt': {}}
    for k in keys:
        r = rng.random()
        if r < 0.4:
            sb['cnt'][k] = sa['cnt'][k]                     # -> 0
        elif r < 0.7:
            sb['cnt'][k] = sa['cnt'][k] + rng.choice([1, 2])   # -> negative
    if not sb['cnt']:
        sb['cnt'][keys[0]] = sa['cnt'][keys[0]]
    return sa, sb


def build_signed(rng, kind=None, bits=None):
    sa, sb = signed_spec(rng, kind, bits)
    return build(sa) - build(sb)


# --------------------------------------------------------------------------- replay
def _norm(x):
    import json
    return json.loads(json.dumps(x, sort_keys=True, default=str))


def replay_regenerate(pid, path, build_state, imports, what, extra_parts=()):
    """Re-run a recorded failing case on both sides.  The case is regenerated deterministically from the seed and tier stored
    in the replay file (the generators only draw from ctx.rng), the implementation in VERIF_REPO is driven again, and the
    model is evaluated again by coqc.  Prints a VIOLATION line and returns 1 if the case still fails, returns 0 if it passes
    now, 2 if the recorded case cannot be regenerated (generators changed)."""
    import json, re, shutil
    d = json.load(open(path))
    ctx = core.Ctx(pid, d.get('tier', 'quick'), d.get('seed', 0))
    try:
        print('replay %s: property %s, seed %s, tier %s, kind %s' % (path, pid, d.get('seed'), d.get('tier'), d.get('kind')))
        print('recorded: ' + d.get('what', '')[:400])
        if d.get('kind') == 'proof-obligation':
            ok, res = core.proof_step(ctx)
            if ok:
                print('replay: all %d obligations of Properties/%s.v are discharged now' % (res['obligations'], pid))
                return 0
            print('VIOLATION property=%s replay=%s no-failing-input-found' % (pid, path))
            print('  proof obligation still does not check: %s' % ', '.join(res.get('broken', ['?'])))
            return 1
        core.coq_make(['theories/Properties/%s.vo' % pid])
        st = build_state(ctx)
        rec = _norm(d.get('case', {}))
        m = re.search(r'(?:on|for) case (\S+)\s*$', d.get('what', '').strip())
        if d.get('kind') == 'correspondence' and m and m.group(1) in dict(st.cases):
            key = m.group(1)
            now = _norm(st.payloads[key])
            strip = lambda pl: {k: v for k, v in pl.items() if k not in ('model_output', 'coq_log_tail', 'impl', 'impl_ok')}
            if strip(now) != strip(rec):
                print('replay: the generators no longer produce the recorded input for case %s; recorded input: %s' % (key, json.dumps(strip(rec))[:600]))
                return 2
            if now.get('impl') != rec.get('impl'):
                print('replay: the implementation now answers differently on the recorded input:\n  recorded %s\n  now      %s' % (json.dumps(rec.get('impl'))[:400], json.dumps(now.get('impl'))[:400]))
            expr = dict(st.cases)[key]
            res, logs = core.coq_eval_bools([(key, expr)], imports, os.path.join(ctx.workdir, 'replay'))
            print('implementation (VERIF_REPO=%s): %s' % (core.REPO, json.dumps(now.get('impl'))[:600]))
            if res.get(key) is True:
                print('replay: model and implementation agree on case %s now' % key)
                return 0
            if st.mexpr.get(key):
                print('model: ' + core.coq_eval_raw(st.mexpr[key], imports, os.path.join(ctx.workdir, 'raw'))[-800:])
            print('VIOLATION property=%s replay=%s' % (pid, path))
            print('  %s: model and implementation still disagree on case %s' % (what, key))
            return 1
        # a failure of the property itself on the implementation (or of another part): look for it among the regenerated failures
        for part in extra_parts:
            part(ctx)
        same = [v for v in ctx.violations + [{'what': w, 'payload': {}} for _, w in ctx.known_hits]
                if v['what'] == d.get('what') and (_norm(v['payload']) == rec or not v['payload'])]
        if not same:
            same = [v for v in ctx.violations if v['what'] == d.get('what') and _norm(v['payload']).get('a') == rec.get('a') and rec.get('a') is not None]
        if same:
            print('VIOLATION property=%s replay=%s' % (pid, path))
            print('  still fails: ' + same[0]['what'][:300])
            print('  ' + json.dumps(_norm(same[0]['payload']))[:1200])
            return 1
        if any(_norm(v['payload']).get('a') == rec.get('a') for v in ctx.violations if rec.get('a') is not None):
            v = [v for v in ctx.violations if _norm(v['payload']).get('a') == rec.get('a')][0]
            print('VIOLATION property=%s replay=%s' % (pid, path))
            print('  the recorded input still fails, differently: ' + v['what'][:300])
            return 1
        print('replay: the recorded failure does not occur any more (%d cases regenerated, %d failures of other cases)' % (len(st.cases), len(ctx.violations)))
        return 0
    finally:
        shutil.rmtree(ctx.workdir, ignore_errors=True)
