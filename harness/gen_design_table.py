"""Prints the S2 table of DESIGN.md from evidence/*.json (run after a full pass on the unchanged tree)."""
import json, os
V = os.path.dirname(os.path.dirname(os.path.abspath(__file__)))
print('| id | discharged / obligations (of which source-derived) | correspondence evaluations | distinct non-trivial | known findings printed | wall | axioms reported by `Print Assumptions` |')
print('|---|---|---|---|---|---|---|')
for i in range(1, 21):
    pid = 'C%02d' % i
    d = json.load(open(os.path.join(V, 'evidence', pid + '.json')))
    c = d['coverage']
    tie = c.get('source_derived_obligations')
    src = ' (%d)' % tie['obligations'] if tie and tie.get('status') == 'checked' else ''
    ax = c.get('axioms_reported_by_Print_Assumptions') or []
    ax = [a.split('.')[-1] for a in ax]
    prim = [a for a in ax if a in ('sig_forall_dec', 'sig_not_dec', 'classic', 'functional_extensionality_dep')]
    other = len(ax) - len(prim)
    axs = ', '.join('`%s`' % a for a in prim) + (' + %d Uint63/PrimInt63 primitives (Interval)' % other if other else '') if ax else 'none'
    print('| %s | %d/%d%s | %d | %d | %s | %d s | %s |' % (pid, c['discharged'], c['obligations'], src, c['evaluations'], c['distinct_nontrivial'],
          ', '.join(d['known_findings_reproduced']) or '-', round(d['wall_s']), axs))
