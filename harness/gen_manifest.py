"""Writes /verif/MANIFEST.json from the table below (run after adding a property check)."""
import json, os, sys
VERIF = os.path.dirname(os.path.dirname(os.path.abspath(__file__)))
PROPS = [json.loads(l)['id'] for l in open(os.path.join(VERIF, 'properties.jsonl'))]

# id -> (level text, level note, technique, design_ref)
CLAIMED = {}
def claim(pid, text, note, technique, ref):
    CLAIMED[pid] = (text, note, technique, ref)

exec(open(os.path.join(VERIF, 'harness', 'manifest_table.py')).read())

checks = []
for pid in PROPS:
    if pid not in CLAIMED:
        continue
    text, note, technique, ref = CLAIMED[pid]
    checks.append({
        'property_id': pid,
        'quick_cmd': 'bin/check %s --tier quick' % pid,
        'thorough_cmd': 'bin/check %s --tier thorough' % pid,
        'evidence_file': 'evidence/%s.json' % pid,
        'replay_cmd_template': 'bin/check %s --replay {path}' % pid,
        'engine': 'coq-model-correspondence',
        'level_claimed': {'category': 'proof', 'text': text, 'design_ref': ref},
        'level_note': note,
        'technique': technique,
    })
na = [{'property_id': p, 'reason': NOT_APPLICABLE.get(p, 'check not built yet in this round (no technique limitation; see DESIGN.md section 5)')}
      for p in PROPS if p not in CLAIMED]
m = {
    'version': 1,
    'setup_cmd': 'bin/setup',
    'hooks': {'guard': 'KEISERLAB_E3FP_VERIF', 'enable': 'no source hooks are needed: the checks import /repo/src directly (PYTHONPATH=/repo/src) and set KEISERLAB_E3FP_VERIF=1 only for uniformity',
              'baseline_off_cmd': 'cd /repo && /venv/bin/python -m pytest -ra -q -p no:cacheprovider --timeout=900 --continue-on-collection-errors',
              'source_commits': [], 'add_only': True},
    'engines': [{'name': 'coq-model-correspondence', 'path': 'bin/check', 'serves_properties': sorted(CLAIMED),
                 'kind_free_text': 'Coq 8.16.1 theorems over hand-written executable Gallina models (coq/theories), tied to /repo on every run by (a) facts regenerated from the source into coq/theories/Gen and (b) a differential correspondence: the implementation runs in Python, the model is evaluated by vm_compute inside coqc on the same inputs and compared there'}],
    'checks': checks,
    'not_applicable': na,
    'notes': NOTES,
}
json.dump(m, open(os.path.join(VERIF, 'MANIFEST.json'), 'w'), indent=1)
print('MANIFEST.json: %d checks, %d not claimed' % (len(checks), len(na)))
