"""Exact-arithmetic (Fraction) transcription of the M1 model, used harness-side only:
 * to tag inputs that sit within round-off of a decision threshold (`Unstable`) - those are outside the
   quantifier of C01-C03 and are excluded from *equality* comparison with the floating-point implementation;
 * as the fast oracle of the counter-example searches.
It is NOT part of the trusted base of any theorem: the Coq model (coq/theories/Model/{Stereo,E3FP}.v) is what the
theorems are about and what the correspondence compares with the implementation."""
from fractions import Fraction as Fr
from collections import Counter
from decimal import Decimal, getcontext

M32 = 1 << 32


def rotl(x, r):
    return ((x << r) | (x >> (32 - r))) & 0xFFFFFFFF


def mmh3_words(ws, seed=0):
    h = seed
    for k in ws:
        k = (k * 0xcc9e2d51) & 0xFFFFFFFF
        k = rotl(k, 15)
        k = (k * 0x1b873593) & 0xFFFFFFFF
        h ^= k
        h = rotl(h, 13)
        h = (h * 5 + 0xe6546b64) & 0xFFFFFFFF
    h ^= 4 * len(ws)
    h ^= h >> 16
    h = (h * 0x85ebca6b) & 0xFFFFFFFF
    h ^= h >> 13
    h = (h * 0xc2b2ae35) & 0xFFFFFFFF
    h ^= h >> 16
    return h


def hash_i64(xs):
    ws = []
    for x in xs:
        u = x % (1 << 64)
        ws += [u % M32, u // M32]
    h = mmh3_words(ws)
    return h if h < (1 << 31) else h - M32


def dot(u, v):
    return u[0] * v[0] + u[1] * v[1] + u[2] * v[2]


def sub(u, v):
    return (u[0] - v[0], u[1] - v[1], u[2] - v[2])


def add(u, v):
    return (u[0] + v[0], u[1] + v[1], u[2] + v[2])


def scl(a, u):
    return (a * u[0], a * u[1], a * u[2])


def det(u, v, w):
    return (u[0] * (v[1] * w[2] - v[2] * w[1]) - u[1] * (v[0] * w[2] - v[2] * w[0]) + u[2] * (v[0] * w[1] - v[1] * w[0]))


getcontext().prec = 70


def dsin(x):
    x = Decimal(x.numerator) / Decimal(x.denominator) if isinstance(x, Fr) else Decimal(x)
    term = x
    s = x
    n = 1
    while abs(term) > Decimal(10) ** -65:
        term = -term * x * x / ((2 * n) * (2 * n + 1))
        s += term
        n += 1
    return s


PI = Decimal("3.14159265358979323846264338327950288419716939937510582097494459230781640628")


def angle_constants(z_prec, cone, y_prec, den_bits=110):
    """(sin2 table, cos2cone, yprec2) as exact rationals with denominator 2^den_bits, from the source constants."""
    den = 1 << den_bits
    zp = Fr(z_prec)
    kmax = int((PI / 2) / (Decimal(zp.numerator) / Decimal(zp.denominator)))
    tab = []
    for k in range(1, kmax + 1):
        s = dsin(zp * k) ** 2
        tab.append(Fr(int((s * den).to_integral_value()), den))
    cn = Fr(cone)
    c = dsin(PI / 2 - Decimal(cn.numerator) / Decimal(cn.denominator)) ** 2
    cos2 = Fr(int((c * den).to_integral_value()), den)
    yp = Fr(y_prec)
    return tab, cos2, yp * yp


TOL = Fr(1, 1 << 30)


class Unstable(Exception):
    pass


def gt(a, b):
    if a != b and abs(a - b) <= TOL * (abs(a) + abs(b)):
        raise Unstable()
    return a > b


def ge0(a, scale):
    """sign test a >= 0 with a margin relative to `scale`."""
    if a != 0 and abs(a) <= TOL * scale:
        raise Unstable()
    return a >= 0


def first_unique(keys):
    c = Counter(keys)
    for i, k in enumerate(keys):
        if c[k] == 1:
            return i
    return None


class Consts(object):
    def __init__(self, sin2, cos2cone, yprec2):
        self.sin2, self.cos2cone, self.yprec2 = sin2, cos2cone, yprec2


def stereo_codes(K, tuples, vecs, branch=None):
    n = len(tuples)
    if n == 0:
        return []
    zero = [v == (0, 0, 0) for v in vecs]
    if any(zero):
        raise Unstable()          # an atom exactly on the centre: outside general position
    yi = first_unique(tuples)
    y = None
    y_ind = None
    if yi is not None:
        y = vecs[yi]
        y_ind = yi
        kind = 'unique'
    elif n == 2:
        y = vecs[0]
        y_ind = 0
        kind = 'two'
    else:
        s = (0, 0, 0)
        for v in vecs:
            s = add(s, v)
        lhs, rhs = dot(s, s), K.yprec2 * n * n
        if lhs != rhs and abs(lhs - rhs) <= TOL * 64 * (lhs + rhs):
            raise Unstable()
        if lhs >= rhs:
            y = s
            kind = 'mean'
        else:
            kind = 'none'
    if branch is not None:
        branch['y_' + kind] = branch.get('y_' + kind, 0) + 1
    codes = [0] * n
    if y is None:
        return codes
    mask = [True] * n
    if y_ind is not None:
        mask[y_ind] = False
    yy = dot(y, y)
    uy = [dot(v, y) for v in vecs]
    uu = [dot(v, v) for v in vecs]
    for i in range(n):
        if uy[i] != 0 and uy[i] * uy[i] <= TOL * uu[i] * yy:
            raise Unstable()
    sign = [1 if u >= 0 else -1 for u in uy]

    def bin_of(i):
        s2 = Fr(uy[i] * uy[i])
        den = uu[i] * yy
        k = 0
        for t in K.sin2:
            if gt(t * den, s2):
                break
            k += 1
        return k
    cand = sorted((bin_of(i), tuples[i][0], tuples[i][1], i) for i in range(n) if mask[i])
    zi = first_unique([c[:2] for c in cand])
    pole = [gt(Fr(uy[i] * uy[i]), K.cos2cone * uu[i] * yy) for i in range(n)]
    if branch is not None:
        branch['z_' + ('unique' if zi is not None else 'none')] = branch.get('z_' + ('unique' if zi is not None else 'none'), 0) + 1
    if zi is not None:
        m = cand[zi][3]
        Z = sub(scl(yy, vecs[m]), scl(uy[m], y))
        for i in range(n):
            v = vecs[i]
            if i == y_ind:
                q = 2
            else:
                a = dot(v, Z)
                b = det(y, Z, v)
                lhs = a * a * yy
                rhs = b * b
                if lhs == 0 and rhs == 0:
                    q = 2
                elif gt(lhs, rhs):
                    if not pole[i]:
                        ge0(a, 1)
                    q = 2 if a > 0 else 4
                else:
                    q = 5 if b > 0 else 3
            codes[i] = q * sign[i]
    for i in range(n):
        if pole[i]:
            codes[i] = sign[i]
    return codes


def run_spec(K, atoms, ident0, conn, pos, level, mult, stereo=True, remove_dup=True, include_disconnected=True,
             bonded=None, branch=None):
    """Returns ({level: sorted [(identifier, centre, substruct tuple)]}, current_level).  May raise Unstable."""
    n = len(atoms)
    ident = {0: dict(ident0)}
    sub_ = {0: {a: frozenset([a]) for a in atoms}}
    mem = {0: {a: frozenset() for a in atoms}}
    canon = {0: {a: 0 for a in atoms}}
    past = set(sub_[0].values())
    level_shells = {0: {(a, 0): (ident[0][a], a, sub_[0][a]) for a in atoms}}
    d2 = {(a, b): dot(sub(pos[a], pos[b]), sub(pos[a], pos[b])) for a in atoms for b in atoms}
    for (a, b), v in d2.items():
        if a != b and v == 0:
            raise Unstable()
    k = 0
    while True:
        if level != -1 and k >= level:
            break
        if remove_dup and all(len(sub_[k][a]) == n for a in atoms):
            break
        k += 1
        rad2 = (k * mult) ** 2
        ident[k] = {}
        sub_[k] = {}
        mem[k] = {}
        canon[k] = {}
        for a in atoms:
            nb = [b for b in atoms if b != a and k * mult >= 0 and not gt(d2[(a, b)], rad2)]
            if not include_disconnected:
                nb = [b for b in nb if b in bonded.get(a, ())]
            tl = sorted([(conn[(a, b)], ident[k - 1][b], b) for b in nb], key=lambda t: t[:2])
            if stereo:
                codes = stereo_codes(K, [t[:2] for t in tl], [sub(pos[t[2]], pos[a]) for t in tl], branch)
                tup = sorted((t[0], t[1], c) for t, c in zip(tl, codes))
            else:
                tup = sorted(t[:2] for t in tl)
            ident[k][a] = hash_i64([k, ident[k - 1][a]] + [x for t in tup for x in t])
            s = set([a])
            for b in nb:
                s |= sub_[k - 1][b]
            sub_[k][a] = frozenset(s)
            ms = frozenset((b, canon[k - 1][b]) for b in nb)
            mem[k][a] = ms
            canon[k][a] = next(j for j in range(k + 1) if mem[j][a] == ms)
        order = sorted(atoms, key=lambda a: (ident[k][a], a))
        acc = []
        for a in order:
            if remove_dup:
                if sub_[k][a] in past:
                    continue
                past.add(sub_[k][a])
            acc.append(a)
        new = dict(level_shells[k - 1])
        for a in acc:
            key = (a, canon[k][a])
            if key not in new:
                new[key] = (ident[k][a], a, sub_[k][a])
        if len(new) == len(level_shells[k - 1]):
            # back(): the level is dropped
            for d in (ident, sub_, mem, canon):
                del d[k]
            k -= 1
            break
        level_shells[k] = new
    return {l: sorted((i, c, tuple(sorted(s))) for (i, c, s) in v.values()) for l, v in level_shells.items()}, k
