"""Shared pieces of the M1 property checks (C01 C02 C03 C04 C12 C17 C18): case construction for the Coq
correspondence, implementation-level observations and metamorphic helpers."""
import math
import os
import numpy as np
import core
import fpgen
import molfacts
import molgen
import m1_spec

IMPORTS = ['From Coq Require Import QArith.',
           'From E3FP Require Import Base.Prelude Base.ZSet Model.Geometry Model.Stereo Model.Fprint Model.E3FP Gen.Constants Gen.AngleTable Exec.RunM1.']


def opts_json(o):
    return {k: o[k] for k in molgen.OPT_KEYS}


def query_impl(f, level, bits, mask):
    """get_fingerprint_at_level on a fingerprinter that has run; returns ('ok', obs) / ('err', tag)."""
    r = fpgen.attempt(lambda: f.get_fingerprint_at_level(level=level, bits=bits, atom_mask=set(mask)))
    if r[0] == 'ok':
        return ('ok', fpgen.obs(r[1]))
    return r


def query_lit(counts, bits, level, mask, r):
    return '(%s, %s, %s, %s, %s)' % (core.blit(counts), core.zlit(bits), core.optlit(level), core.zlist(sorted(mask)), fpgen.result_lit(r))


class Case(object):
    """One (molecule, conformer, options) input run on the implementation, with its model check expression."""

    def __init__(self, name, mol, cid, o, bits=2 ** 32, counts=False, reuse=None):
        self.name, self.mol, self.cid, self.o, self.bits, self.counts = name, mol, cid, o, bits, counts
        self.facts = molfacts.mol_facts(mol, cid)
        self.err = None
        self.f = None
        try:
            if reuse is not None:       # an existing Fingerprinter object that has processed other conformers before
                reuse.run(cid, mol)
                self.f, self.obs, self.k = reuse, molfacts.observe(reuse), int(reuse.current_level)
            else:
                self.f, self.obs, self.k = molfacts.impl_run(mol, cid, o, bits=bits, counts=counts)
        except Exception as e:  # noqa
            self.err = fpgen.err_of(e)
            self.exc = '%s: %s' % (type(e).__name__, str(e)[:120])
        self.unstable = False
        self.branch = {}
        try:
            self.spec = molfacts.run_spec(self.facts, o, branch=self.branch)
        except m1_spec.Unstable:
            self.unstable = True
            self.spec = None
        self.queries = []

    def add_query(self, level, bits, mask):
        r = query_impl(self.f, level, bits, mask)
        self.queries.append((level, bits, sorted(mask), r))
        return r

    def heavy_retained(self):
        """Indices of the atoms the fingerprinter must retain (independent of the bond table)."""
        heavy = [a for a in self.facts['atoms'] if a['num'] > 1]
        if self.o['exfloat'] and len(heavy) > 1:
            heavy = [a for a in heavy if a['deg'] > 0]
        return [a['idx'] for a in heavy]

    def has_offtable_bond(self):
        ret = set(self.heavy_retained())
        return any(t == 'BtOther' and a in ret and b in ret for a, b, t in self.facts['bonds'])

    def expr(self):
        ol, ml = molfacts.opts_lit(self.o), molfacts.mol_lit(self.facts)
        if self.err is not None:
            return 'check_raises %s %s %s' % (ol, ml, self.err)
        qs = core.listlit([query_lit(self.counts, b, l, m, r) for (l, b, m, r) in self.queries])
        return 'check_all %s %s %s %s %s' % (ol, ml, core.zlit(self.k), molfacts.levels_lit(self.obs, self.k), qs)

    def model_expr(self):
        return 'show_run %s %s' % (molfacts.opts_lit(self.o), molfacts.mol_lit(self.facts))

    def payload(self):
        from rdkit import Chem
        conf = self.mol.GetConformer(self.cid)
        d = {'name': self.name, 'conf': self.cid, 'opts': opts_json(self.o), 'bits': self.bits, 'counts': self.counts,
             'molblock': Chem.MolToMolBlock(self.mol, confId=self.cid),
             'exact_coords_hex': [[float(c).hex() for c in conf.GetAtomPosition(i)] for i in range(self.mol.GetNumAtoms())]}
        if self.err is not None:
            d['impl'] = 'raises %s (%s)' % (self.err, self.exc)
        else:
            d['impl_current_level'] = self.k
            d['impl_levels'] = {str(l): [[i, c, list(s)] for i, c, s in v] for l, v in self.obs.items()}
            d['queries'] = [{'level': l, 'bits': b, 'mask': m, 'impl': (fpgen.obs_json(r[1]) if r[0] == 'ok' else r[1])} for l, b, m, r in self.queries]
        return d

    def nontrivial(self):
        return self.err is None and self.k >= 1 and (not self.o['stereo'] or sum(v for k, v in self.branch.items() if k.startswith('y_') and k != 'y_none') > 0)

    def key(self):
        return (self.name, self.cid, tuple(sorted((k, str(v)) for k, v in self.o.items())), self.bits, self.counts)


def gen_cases(ctx, n, with_queries=True, opt_filter=None, pool=None):
    """n gridded cases from the molecule pool with random options; unstable ones are counted and dropped."""
    rng = ctx.rng
    out = []
    stats = ctx.coverage.setdefault('input_distribution', {})
    for k in ('cases', 'unstable_skipped', 'impl_errors', 'heavy_atoms_hist', 'branches', 'levels_reached_hist'):
        stats.setdefault(k, {} if k.endswith('hist') or k == 'branches' else 0)
    tries = 0
    skipped0 = stats['unstable_skipped']
    src = pool or molgen.pool(rng, n * 2)
    for (name, m0, cid) in src:
        if len(out) >= n:
            break
        o = molgen.rand_opts(rng)
        if opt_filter:
            o = opt_filter(o)
        m = molfacts.gridded(m0, conf_ids={m0.GetConformer(cid).GetId()})
        bits = rng.choice([2 ** 32, 2 ** 32, 4096, 1024, 32])
        c = Case(name, m, cid, o, bits=bits, counts=rng.random() < 0.4)
        if c.unstable:
            stats['unstable_skipped'] += 1
            continue
        if c.err is not None:
            stats['impl_errors'] += 1
        elif with_queries:
            ret = c.heavy_retained()
            for _ in range(2):
                lv = rng.choice([None, -1, 0, 1, 2, c.k, c.k + 2])
                mask = [] if rng.random() < 0.5 or not ret else rng.sample(ret, min(len(ret), rng.choice([1, 1, 2, 3])))
                qb = rng.choice([None, None, 1024, 64, 2 ** 32])
                r = query_impl(c.f, lv, qb, mask)
                c.queries.append((lv, c.bits if qb is None else qb, sorted(mask), r))
        stats['cases'] += 1
        nh = str(len(c.heavy_retained()))
        stats['heavy_atoms_hist'][nh] = stats['heavy_atoms_hist'].get(nh, 0) + 1
        if c.err is None:
            stats['levels_reached_hist'][str(c.k)] = stats['levels_reached_hist'].get(str(c.k), 0) + 1
        for b, v in c.branch.items():
            stats['branches'][b] = stats['branches'].get(b, 0) + v
        out.append(c)
    # a floor on what must remain after the near-threshold inputs are dropped: a stream that skips most of what it was asked to
    # compare decides nothing (the skip is decided from the INPUT by m1_spec, but its volume is bounded here)
    tried = len(out) + (stats['unstable_skipped'] - skipped0)
    if tried >= 8 and len(out) < 0.4 * min(n, tried):
        ctx.fail('M1 case stream: only %d of %d candidate inputs remained after %d were tagged near-threshold (requested %d)' % (len(out), tried, tried - len(out), n),
                 {'requested': n, 'candidates_tried': tried, 'kept': len(out)}, no_input=True, kind='harness-error')
    return out


def reused_cases(ctx, n_mols=7, n_confs=4):
    """Cases observed on ONE Fingerprinter object reused over the conformers of ONE molecule object (what
    fprints_dict_from_mol does), each queried at every explicit level, reached by that conformer or not."""
    from e3fp.fingerprint.fprinter import Fingerprinter
    out = []
    for name, m0 in molgen.shipped()[:n_mols]:
        o = dict(molgen.DEFAULT_OPTS, level=ctx.rng.choice([4, 5]), mult=ctx.rng.choice([1.5, 1.718]))
        f = Fingerprinter(level=o['level'], radius_multiplier=o['mult'])
        ids = [conf.GetId() for conf in list(m0.GetConformers())[:n_confs]]
        m = molfacts.gridded(m0, conf_ids=set(ids))
        for cid in ids:
            c = Case(name + ' (reused fingerprinter)', m, cid, o, reuse=f)
            if c.unstable:
                continue
            if c.err is None:
                for lv in range(0, o['level'] + 2):
                    c.add_query(lv, 2 ** 32 if lv % 2 else 1024, [])
            out.append(c)
    ctx.coverage.setdefault('input_distribution', {})['reused_fingerprinter_cases'] = len(out)
    return out


def run_cases(ctx, cases, what, finding_key_of=None, shard=None):
    core.coq_make(['theories/Exec/RunM1.vo'])
    exprs, payloads, mexpr = [], {}, {}
    for i, c in enumerate(cases):
        key = 'case%d' % i
        exprs.append((key, c.expr()))
        payloads[key] = c.payload()
        mexpr[key] = c.model_expr()
        ctx.count(c.key(), c.nontrivial())
    for i in (0, len(cases) // 2, len(cases) - 1):
        if 0 <= i < len(cases):
            p = dict(payloads['case%d' % i])
            p.pop('molblock', None)
            p.pop('impl_levels', None)
            ctx.sample(p)
    shard = shard or max(1, min(25, len(exprs) // core.NCPU + 1))
    return core.compare_cases(ctx, exprs, IMPORTS, what, payloads, finding_key_of=finding_key_of, shard=shard, model_expr=mexpr)


# ---- implementation-level helpers (metamorphic tests) -------------------------------------------------
def fp_multiset(f, level=None, bits=None, mask=()):
    fp_ = f.get_fingerprint_at_level(level=level, bits=bits, atom_mask=set(mask))
    o = fpgen.obs(fp_)
    return (o['kind'], o['bits'], o['level'], tuple(o['idx']), tuple((k, str(v)) for k, v in o['cnt']))


def all_level_ids(f):
    """{level: sorted multiset of identifiers} of a fingerprinter that has run."""
    return {int(l): sorted(int(s.identifier) for s in shells) for l, shells in f.level_shells.items()}


def random_rotation(rng, proper=True):
    """Random orthogonal matrix (QR of a Gaussian matrix); determinant +1 if proper else -1."""
    a = np.array([[rng.gauss(0, 1) for _ in range(3)] for _ in range(3)])
    q, r = np.linalg.qr(a)
    q = q * np.sign(np.diag(r))
    if (np.linalg.det(q) < 0) == proper:
        q[:, 0] = -q[:, 0]
    return q


def transformed(mol, cid, M, t):
    """Copy of mol whose conformer `cid` has coordinates M x + t."""
    from rdkit import Chem
    from rdkit.Geometry import Point3D
    m = Chem.Mol(mol)
    conf = m.GetConformer(cid)
    for i in range(m.GetNumAtoms()):
        p = conf.GetAtomPosition(i)
        q = M.dot(np.array([p.x, p.y, p.z])) + t
        conf.SetAtomPosition(i, Point3D(float(q[0]), float(q[1]), float(q[2])))
    return m


def base_run(ctx, name, mol, cid, o):
    """Implementation run for the metamorphic searches.  An exception is a failure unless the input is one the property
    excludes (no heavy atom retained) or the listed bond-table finding; skipped inputs are counted in the evidence."""
    try:
        return molfacts.impl_run(mol, cid, o)
    except Exception as e:  # noqa
        facts = molfacts.mol_facts(mol, cid)
        heavy = [a for a in facts['atoms'] if a['num'] > 1]
        if o['exfloat'] and len(heavy) > 1:
            heavy = [a for a in heavy if a['deg'] > 0]
        ret = set(a['idx'] for a in heavy)
        offtable = any(t == 'BtOther' and a in ret and b in ret for a, b, t in facts['bonds'])
        st = ctx.coverage.setdefault('input_distribution', {}).setdefault('search_inputs_skipped', {})
        if not heavy:
            st['no_heavy_atom_retained'] = st.get('no_heavy_atom_retained', 0) + 1
        elif offtable and isinstance(e, KeyError):
            st['bond_type_outside_table'] = st.get('bond_type_outside_table', 0) + 1
        else:
            ctx.fail('fingerprinting raised %s: %s on %s' % (type(e).__name__, str(e)[:100], name),
                     {'name': name, 'conf': cid, 'opts': opts_json(o)}, finding_key=None)
        return None


def is_unstable(mol, cid, o):
    try:
        molfacts.run_spec(molfacts.mol_facts(mol, cid), o)
        return False
    except m1_spec.Unstable:
        return True


def replay_case(ctx, path):
    """bin/check <ID> --replay <file>: re-run the recorded (molecule, conformer, options) on the implementation and on the
    model and report whether they (still) disagree."""
    import json
    from rdkit import Chem
    d = json.load(open(path))
    c = d.get('case', {})
    print('replay of %s: %s' % (path, d.get('what', '')[:200]))
    if 'molblock' not in c or 'opts' not in c:
        print(json.dumps({k: v for k, v in c.items() if k != 'molblock'}, indent=1)[:6000])
        print('(this replay file carries no single model input; the recorded observation is shown above)')
        return 0
    m = Chem.MolFromMolBlock(c['molblock'], removeHs=False)
    if 'exact_coords_hex' in c:           # the mol block keeps 4 decimals only: restore the exact doubles
        from rdkit.Geometry import Point3D
        conf = m.GetConformer()
        for i, xyz in enumerate(c['exact_coords_hex']):
            conf.SetAtomPosition(i, Point3D(*[float.fromhex(v) for v in xyz]))
    o = c['opts']
    case = Case(c.get('name', 'replay'), m, 0, o, bits=c.get('bits', 2 ** 32), counts=c.get('counts', False))
    for q in c.get('queries', []):
        case.add_query(q['level'], q['bits'], q['mask'])
    core.coq_make(['theories/Exec/RunM1.vo'])
    res, logs = core.coq_eval_bools([('replay', case.expr())], IMPORTS, os.path.join(ctx.workdir, 'replay'))
    print('implementation: ' + ('raises %s' % case.exc if case.err else 'current_level=%d, %s' % (case.k, {l: len(v) for l, v in case.obs.items()})))
    print('model output  : ' + core.coq_eval_raw(case.model_expr(), IMPORTS, os.path.join(ctx.workdir, 'replay'))[-2500:])
    print('unstable (near a decision threshold): %s' % case.unstable)
    if res.get('replay') is True:
        print('model and implementation AGREE on this input now')
        return 0
    print('VIOLATION property=%s replay=%s' % (ctx.pid, path))
    return 1
