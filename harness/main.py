"""Entry point: bin/check <ID> [--tier quick|thorough] [--replay FILE]  |  bin/setup"""
import argparse
import importlib
import os
import sys
import traceback

sys.path.insert(0, os.path.dirname(os.path.abspath(__file__)))
import core


def main():
    ap = argparse.ArgumentParser()
    ap.add_argument('pid', nargs='?')
    ap.add_argument('--tier', default=os.environ.get('VERIF_TIER', 'quick'), choices=['quick', 'thorough'])
    ap.add_argument('--replay', default=None)
    ap.add_argument('--setup', action='store_true')
    a = ap.parse_args()
    core.setup_env()
    if a.setup:
        try:
            core.coq_make(None, timeout=7000)
        except core.CoqBuildError as e:
            print(e.log)
            return 2
        print('setup: Coq development built')
        return 0
    seed = int(os.environ.get('VERIF_SEED', '0') or 0)
    pid = a.pid.upper()
    ctx = core.Ctx(pid, a.tier, seed)
    try:
        mod = importlib.import_module('props.%s' % pid.lower())
        if a.replay:
            return mod.replay(ctx, a.replay)
        mod.run(ctx)
    except Exception:
        tb = traceback.format_exc()
        ctx.fail('the check itself could not complete: ' + tb[-1500:], {'traceback': tb}, no_input=True, kind='harness-error')
    return ctx.finish()


if __name__ == '__main__':
    sys.exit(main())
