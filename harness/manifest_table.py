NOTES = ('All checks: bin/check <ID> --tier quick|thorough; VERIF_SEED selects the PRNG seed. '
         'Genuine defects repaired in /repo by "fix:" commits are listed in known_findings.json (status fixed); see DESIGN.md section 6.')
NOT_APPLICABLE = {}
TB = ('Trusted: Coq kernel + vm_compute; the hand-written model (tied by differential correspondence, not by translation); the Python harness '
      '(canonicalisation, literal printing); NumPy/SciPy/RDKit primitives are modelled, not verified. Axioms: as printed by Print Assumptions into the evidence file.')
claim('C11', 'Unbounded theorems (all index sets, counts, lengths, batches) about the Gallina model of the fingerprint operators: membership characterisation of | & - ^ +, '
      'pointwise characterisation of count + and -, scalar * / //, batch sum and weighted mean, result length, rejection of unequal lengths; the model is run against the '
      'implementation on every pair of subsets for small lengths and on sampled inputs up to 2^32 in every operator form.',
      TB, 'Coq proof over executable model + differential correspondence (vm_compute)', 'DESIGN.md section 5 C11')
