NOTES = ('All checks: bin/check <ID> --tier quick|thorough; VERIF_SEED selects the PRNG seed. '
         'Genuine defects repaired in /repo by "fix:" commits are listed in known_findings.json (status fixed); see DESIGN.md section 6.')
NOT_APPLICABLE = {}
TB = ('Trusted: Coq kernel + vm_compute; the hand-written model (tied by differential correspondence, not by translation); the Python harness '
      '(canonicalisation, literal printing); NumPy/SciPy/RDKit primitives are modelled, not verified. Axioms: as printed by Print Assumptions into the evidence file.')
claim('C11', 'Unbounded theorems (all index sets, counts, lengths, batches) about the Gallina model of the fingerprint operators: membership characterisation of | & - ^ +, '
      'pointwise characterisation of count + and -, scalar * / //, batch sum and weighted mean, result length, rejection of unequal lengths; the model is run against the '
      'implementation on every pair of subsets for small lengths and on sampled inputs up to 2^32 in every operator form.',
      TB, 'Coq proof over executable model + differential correspondence (vm_compute)', 'DESIGN.md section 5 C11')
M1TB = TB + (' M1 specifics: RDKit getters and coordinates are model inputs read by the harness; near-threshold inputs (within 2^-30 relative) are tagged by the '
             'exact-arithmetic transcription harness/m1_spec.py and skipped in the tie; the mmh3 C library is compared with the Coq MurmurHash3 every run.')
claim('C01', 'fp_rigid_invariant / fp_isometry_invariant_nostereo: for EVERY ring dictionary satisfying the ring laws (instances: Z, executed; R, the reals), every molecule, options, '
      'fuel, orthogonal M (det 1; any orthogonal M when stereo is off) and translation, the model run - every level, every accepted shell, hence every fingerprint, folded or not, bit '
      'or count, any mask - is Leibniz-equal; stereo codes proved equivariant branch by branch (dot/det identities). Tie: model vs Fingerprinter on gridded inputs, also with '
      'the model input moved exactly; search: implementation under random SE(3)/O(3) motions.',
      M1TB + ' The R instance depends on the standard real-number axioms (sig_forall_dec, functional_extensionality_dep); generic and Z statements are closed.',
      'Coq proof (ring-generic equivariance) + differential correspondence + metamorphic search', 'DESIGN.md 5 C01, 5a')
claim('C02', 'The Coq model (own MurmurHash3 with explicit 32-bit wrap, root-free geometry, shell/dedup/stop logic) is the executable specification; compared with the implementation on every '
      "level's (identifier, centre, substructure) set, current_level and fingerprint queries (masks, bits, counts). Theorems: signed->unsigned spec, hash range/wrap/words, published "
      'constants re-read from the source each run (seed, bond codes, precisions, 2^32), angle-bin tree = floor search over a table certified against real sin/cos by Interval, '
      'dedup keeps the minimum identifier, mask exactness, termination (see evidence for the list actually discharged).',
      M1TB + ' AngleTableCert uses the real-number axioms and Uint63 primitives (Interval); a DATIVE-bond molecule is a listed known finding.',
      'Coq executable specification + theorems + differential correspondence', 'DESIGN.md 5 C02')
claim('C04', 'history_independent_partial: for every ring dictionary, options and history of run() calls on one Fingerprinter in which no molecule object is edited in place, the last result '
      'equals that of a fresh object (induction over the history with an identity-keyed cache invariant); the unrestricted statement is refuted with a witness that is the listed known '
      'finding. Hash seeds, threads and processes are exercised (subprocesses under several PYTHONHASHSEED, thread pools with 1e-6 s switch interval, fork pool), not proved: partial.',
      M1TB + ' Schedules are tested, not proved.', 'Coq proof (state machine invariant) + correspondence on histories + schedule exploration', 'DESIGN.md 5 C04')
claim('C17', 'count_support_eq_bits / count_is_multiplicity / count_total for every model state, query and accepted fold length (fingerprinter part, closed proofs); conversions between kinds '
      'for fingerprints and databases are proved/checked in the parts listed in the evidence. Tie: paired bit/count fingerprinters on the same input; implementation-level multiplicity check.',
      M1TB, 'Coq proof + differential correspondence', 'DESIGN.md 5 C17')
claim('C18', 'hydrogen_irrelevant, floating_excluded_eq_deleted, floating_coords_irrelevant, floating_included_contributes for every ring dictionary: the scene the iteration consults is equal, '
      'hence every run and query. Tie on salts/hydrates/explicit-H molecules; search: displacing hydrogens and unbonded atoms, deleting unbonded atoms.',
      M1TB, 'Coq proof (scene equality) + differential correspondence + metamorphic search', 'DESIGN.md 5 C18')
