NOTES = ('All checks: bin/check <ID> --tier quick|thorough; VERIF_SEED selects the PRNG seed. '
         'Genuine defects repaired in /repo by "fix:" commits are listed in known_findings.json (status fixed); see DESIGN.md section 6.')
NOT_APPLICABLE = {}
TB = ('Trusted: Coq kernel + vm_compute; the hand-written model (tied by differential correspondence, not by translation); the Python harness '
      '(canonicalisation, literal printing); NumPy/SciPy/RDKit primitives are modelled, not verified. Axioms: as printed by Print Assumptions into the evidence file.')
claim('C11', 'Unbounded theorems (all index sets, counts, lengths, batches) about the Gallina model of the fingerprint operators: membership characterisation of | & - ^ +, '
      'pointwise characterisation of count + and -, scalar * / //, batch sum and weighted mean, result length, rejection of unequal lengths; the model is run against the '
      'implementation on every pair of subsets for small lengths and on sampled inputs up to 2^32 in every operator form.',
      TB, 'Coq proof over executable model + differential correspondence (vm_compute)', 'DESIGN.md section 5 C11')
M1TB = TB + (' M1 specifics: RDKit getters and coordinates are model inputs read by the harness; near-threshold inputs (within 2^-30 relative) are tagged by the '
             'exact-arithmetic transcription harness/m1_spec.py and skipped in the tie; the mmh3 C library is compared with the Coq MurmurHash3 every run.')
claim('C01', 'fp_rigid_invariant / fp_isometry_invariant_nostereo: for EVERY ring dictionary satisfying the ring laws (instances: Z, executed; R, the reals), every molecule, options, '
      'fuel, orthogonal M (det 1; any orthogonal M when stereo is off) and translation, the model run - every level, every accepted shell, hence every fingerprint, folded or not, bit '
      'or count, any mask - is Leibniz-equal; stereo codes proved equivariant branch by branch (dot/det identities). Tie: model vs Fingerprinter on gridded inputs, also with '
      'the model input moved exactly; search: implementation under random SE(3)/O(3) motions.',
      M1TB + ' The R instance depends on the standard real-number axioms (sig_forall_dec, functional_extensionality_dep); generic and Z statements are closed.',
      'Coq proof (ring-generic equivariance) + differential correspondence + metamorphic search', 'DESIGN.md 5 C01, 5a')
claim('C02', 'The Coq model (own MurmurHash3 with explicit 32-bit wrap, root-free geometry, shell/dedup/stop logic) is the executable specification; compared with the implementation on every '
      "level's (identifier, centre, substructure) set, current_level and fingerprint queries (masks, bits, counts). Theorems: signed->unsigned spec, hash range/wrap/words, published "
      'constants re-read from the source each run (seed, bond codes, precisions, 2^32), angle-bin tree = floor search over a table certified against real sin/cos by Interval, '
      'dedup keeps the minimum identifier, mask exactness, termination (see evidence for the list actually discharged).',
      M1TB + ' AngleTableCert uses the real-number axioms and Uint63 primitives (Interval); a DATIVE-bond molecule is a listed known finding.',
      'Coq executable specification + theorems + differential correspondence', 'DESIGN.md 5 C02')
claim('C04', 'history_independent_partial: for every ring dictionary, options and history of run() calls on one Fingerprinter in which no molecule object is edited in place, the last result '
      'equals that of a fresh object (induction over the history with an identity-keyed cache invariant); the unrestricted statement is refuted with a witness that is the listed known '
      'finding. Hash seeds, threads and processes are exercised (subprocesses under several PYTHONHASHSEED, thread pools with 1e-6 s switch interval, fork pool), not proved: partial.',
      M1TB + ' Schedules are tested, not proved.', 'Coq proof (state machine invariant) + correspondence on histories + schedule exploration', 'DESIGN.md 5 C04')
claim('C17', 'count_support_eq_bits / count_is_multiplicity / count_total for every model state, query and accepted fold length (fingerprinter part, closed proofs); conversions between kinds '
      'for fingerprints and databases are proved/checked in the parts listed in the evidence. Tie: paired bit/count fingerprinters on the same input; implementation-level multiplicity check.',
      M1TB, 'Coq proof + differential correspondence', 'DESIGN.md 5 C17')
claim('C18', 'hydrogen_irrelevant, floating_excluded_eq_deleted, floating_coords_irrelevant, floating_included_contributes for every ring dictionary: the scene the iteration consults is equal, '
      'hence every run and query. Tie on salts/hydrates/explicit-H molecules; search: displacing hydrogens and unbonded atoms, deleting unbonded atoms.',
      M1TB, 'Coq proof (scene equality) + differential correspondence + metamorphic search', 'DESIGN.md 5 C18')
claim('C03', 'fp_relabel_invariant: for every ordered-ring dictionary (instance Z executed), options, molecule with distinct atom indices and injective renumbering p (also stated over permutation tables: '
      'all n! permutations), the runs on m and relabel p m raise the same error or reach the same level with, at every level, the same multiset of (identifier, p-image of substructure), and equal '
      'fingerprints (bit and count, any bits/level, mask mapped by p); stereo included (pick_y / pick_z / two-identical rule proved order-independent), under the general-position hypothesis '
      'that no two retained atoms coincide (shown necessary by a refuting witness replayed on the implementation). Conformer order: a molecule value carries one conformer (definitional) + C04. '
      'Tie on renumbered molecules; search under random permutations and conformer orders.',
      M1TB + ' Closed proofs (no axioms). `relabel` is the model of Chem.RenumberAtoms.', 'Coq proof (induction on levels, permutation/sorting lemmas) + differential correspondence + metamorphic search', 'DESIGN.md 5 C03, 5a')
claim('C12', 'levels_nest, run_prefix, truncation, beyond_convergence, minus_one_is_limit, minus_one_terminates (fuel > n^2-n on Z; 2^n for any dictionary), label_is_requested: proved for every scene, options and '
      'level cap, closed. Tie over all caps with queries below/at/beyond the level reached; search: one run to L queried at every k against runs limited to k, nesting, -1 against runs past convergence.',
      M1TB, 'Coq proof (iteration prefix / fusion lemmas, termination measure) + differential correspondence + metamorphic search', 'DESIGN.md 5 C12')
claim('C07', 'Axiom-free theorems over M2: fold accepted iff 0 < nb <= bits, bits = nb*2^k, method in {0,1} (each rejection = the exception raised); folded positions = remainders (method 0) / quotients (method 1); '
      'bit collisions OR-ed, count/float collisions summed over the fibre (total conserved); unfolding map = fibres (partition); folding through any intermediate power-of-two length = direct folding for both '
      'methods and all kinds; counts_method reducers; database fold rows = row-wise fingerprint fold and leaves the source rows unchanged (see evidence for the parts present). Tie: exhaustive index subsets for small '
      'lengths, sampled to 2^32, both index maps, options, source re-observed, history independence; fingerprinter route through the M1 checks.',
      TB + ' Faithful for lengths <= 2^53 (the code tests the ratio in double precision). Known finding: fold cache + counts_method.', 'Coq proof + differential correspondence', 'DESIGN.md 5 C07')
claim('C08', 'Axiom-free (coqchk-clean) over Model/DbIO.v: load(savez db) = db in every field for every well-formed database value; prefixed property keys are disjoint from the eight fixed keys for ANY property name; the name index '
      'built by any batch history equals the one rebuilt on load/__setstate__; n+1 cycles = 1 cycle in both formats; for strictly increasing columns < bits (unbounded) the text row has exactly bits characters with 1 exactly at '
      'the columns, one line per row in row order, name appended when requested. NumPy archive and pickle are universally quantified functions with a stated round-trip hypothesis. Constants regenerated from db.py each run.',
      TB + ' npz/pickle/smart_open round-trips are hypotheses. Known finding: trailing NUL in a name.', 'Coq proof + regenerated facts + differential correspondence', 'DESIGN.md 5 C08')
claim('C09', 'Axiom-free over M2: eq_spec (== true exactly for equal type, length, level, indices and counts), eq_total / eq_raises_only_mixed, reflexive, symmetric, transitive, != is the negation also through Python operator dispatch, '
      'copy_eq and convert_back_eq_* with witnesses for non-representable cases, db_eq_spec. Independence of copies decided on the implementation (identity, shared memory, mutate-one-side/re-observe).',
      TB + ' Not covered: mutable values stored inside props; copy.copy (shallow by definition); fingerprints holding zero/negative counts (noted).', 'Coq proof + differential correspondence', 'DESIGN.md 5 C09')
claim('C10', 'Axiom-free, for every well-formed fingerprint of any length (induction on the index list / bits): index array, dense vector, CSR vector, bit string, RDKit vector (bits <= 2^31-1), pickle state, save/load and savez/loadz '
      'reproduce type, length, indices and counts; level/name exactly when the format carries them; count dense/CSR forms exist iff every count <= 65535 (regenerated from COUNT_FP_DTYPE); refuting witnesses above 2^31.',
      TB + ' NumPy/SciPy/RDKit/pickle/gzip/bz2/smart_open behave as modelled.', 'Coq proof + differential correspondence', 'DESIGN.md 5 C10')
claim('C13', 'PARTIAL. Proved (closed) on model M5 of filter_conformers and the generator option state, for all energies, all RMSD oracles, every permutation an argsort may return, all options and histories: energy order, pairwise separation '
      '(symmetric oracle), window, count <= first and <= max_conformers, lowest first, maximality, reported energies and RMSD matrix are those of the returned conformers in order, generator reuse. Tested, not proved: seed reproducibility, '
      'input unmodified, heavy-atom graph and stereo preserved, wrapper consistency (RDKit embedding / force fields / GetBestRMS are oracles).',
      TB + ' RDKit embedding, force fields, GetBestRMS (symmetry assumed), np.argsort returning a sorting permutation.', 'Coq proof over an oracle-parameterised model + injected-oracle correspondence', 'DESIGN.md 5 C13, 8')
claim('C14', 'Closed theorems over Model/Pipeline.v: dict_spec / first_cases (one fingerprint per conformer of the first N, in order, per level of the range), names_spec / names_injective (unbounded, character-level model of the name regex; '
      'exclusion shown necessary), unnamed/empty-named, level selection, all_iters = truncated runs (C12 as hypothesis), saved files reload (pickle round-trip hypothesis), fprints_from_smiles leaks no state over any history. '
      'Tie against direct Fingerprinter use over the four entry points; facts regenerated from the source.',
      TB + ' The per-conformer fingerprint function (M1), conformer generation, SD reader and pickle are parameters.', 'Coq proof + regenerated facts + differential correspondence', 'DESIGN.md 5 C14')
claim('C15', 'PARTIAL. Closed theorems over Model/Batch.v: database = same multiset of named rows for every completion/input order, failures remove exactly their rows; for distinct names the output directory is schedule independent; '
      'no-overwrite re-run preserves complete molecules, completes the rest, overwrite regenerates; crash after ANY prefix of whole-file writes then resume = uninterrupted run; worker proved to be M6\'s entry point; conformer generation is a '
      'second instance. Pool completion order and file-write atomicity are the runtime\'s: exercised by real serial/threads/processes runs with pre-created/stale files (SHA-256 + mtime), not proved.',
      TB + ' Known finding: resumed run with db_file + out_dir_base writes an incomplete database.', 'Coq proof (permutation invariance, file-state machine) + fault/schedule exploration', 'DESIGN.md 5 C15, 8')
claim('C19', 'PARTIAL. Closed theorems over Model/Files.v: SMILES table write/read identity (distinct whitespace-free names), 4-decimal energy codec idempotent / identity on 4-decimal values / nearest, and for ANY SD codec (Section variables): '
      'conformer count and order under both limits, per-conformer energies, in-memory property map restored by mol_to_sdf (exact general effect otherwise). Tested, not proved: molecule identity, coordinates <= 5e-5, names through RDKit and smart_open.',
      TB + ' SD writer/reader, compression are RDKit\'s / smart_open\'s.', 'Coq proof over an oracle-parameterised model + differential correspondence', 'DESIGN.md 5 C19, 8')
claim('C05', 'Closed theorems on model M3 (a pool of database objects over an explicit NumPy buffer store, so sharing between derived databases is representable): over ANY operation list the name index lists exactly the rows carrying '
      'each name, increasing, no empty entries; every property column and the names list have one entry per row; add/concat/get_subset/as_type/copy/db[i]/db[name] return or append exactly the specified rows and names in order, cast to the '
      'database type; no operation writes a buffer or object reachable from another database (store_only_grows), hence reads (also of absent names), ==, density, similarity, fold, subset, as_type, copy, pickle, concat leave every database and '
      'every pairwise == unchanged (snapshots_independent over any history). Tie: random histories over a pool of live databases, every database fully re-observed after every step on both sides.',
      TB + ' SciPy/NumPy containers and the measured sharing table are modelled; row well-formedness as a history invariant: see evidence for whether it is among the discharged obligations.', 'Coq proof (refinement + ownership invariant by induction over histories) + differential correspondence', 'DESIGN.md 5 C05, 3.3')
claim('C06', 'Axiom-free, all vector lengths and values, exact rationals (cosine/Pearson carried as (num, den^2), compared through the monotone signed square): each of the 15 code paths (fingerprint pair, dense array, CSR; five measures) equals its '
      'definition with the zero-denominator-scores-0 convention; from the definitions: symmetry, self-similarity 1, range [0,1], |cosine|,|Pearson| <= 1 (Cauchy-Schwarz), Soergel = Tanimoto on binary data, zero vector scores 0, rejection of unequal '
      'lengths, the four calling forms agree (dispatch_consistent). Sparse Soergel proved for rows in any order with explicit zeros and repeated columns. Tie: implementation floats vs model and vs definition at 1e-9 over all forms, both numba and pure-Python kernels.',
      TB + ' Raw-array Tanimoto/Dice assume 0/1 data (their documented contract); values non-negative; database forms limited in bits by SciPy memory. Known finding: stored zero counts in fingerprint-pair Tanimoto/Dice.', 'Coq proof + differential correspondence', 'DESIGN.md 5 C06')
claim('C16', 'Closed theorems on M3: a fingerprint of wrong length or level or lacking a required property at ANY batch position, a wrong-length property column at any position, an incompatible concat operand at any position are refused; refusal_atomic: '
      'for every operation a refusal returns exactly the state it was given (buffers, rows, names, index, properties), at every state reachable by any history. Tie: fault enumeration (every fault kind x every position in batches of 1-5) with full state '
      'comparison before/after on both sides.', TB, 'Coq proof (case analysis over operations + reachable-state invariant) + fault enumeration', 'DESIGN.md 5 C16')
claim('C20', 'Axiom-free over the model of e3fp.config.params on top of configparser / ast.literal_eval: for all integers str() can print, all float repr tokens, booleans, None and all line-safe non-literal strings an option written and read back yields the same key '
      'and typed value (unrestricted statement refuted with witnesses = the listed known findings); user value wins, absent option = default iff fill_defaults; FINITE over tables regenerated from the working tree each run: every option of defaults.cfg equals, '
      'type-exactly, the default of the same-named parameter of all eight entry points incl. both argparse parsers (bits excepted). Tie: ~4400 cases per quick run at every stage, classifier validated against the real literal_eval, end-to-end fingerprints via '
      'parameter file vs direct options.', TB + ' configparser, literal_eval, str/repr as modelled; reflection (inspect.signature, intercepted parse_args).', 'Coq proof + regenerated facts + differential correspondence', 'DESIGN.md 5 C20')


# ---- wording revised after the independent audit (DESIGN.md S7/S8): hypotheses named, by-construction theorems labelled ----
def reclaim(pid, extra_text=None, extra_note=None):
    t, n, tech, ref = CLAIMED[pid]
    CLAIMED[pid] = (t + (' ' + extra_text if extra_text else ''), n + (' ' + extra_note if extra_note else ''), tech, ref)

reclaim('C01', 'Also instantiated at the canonical rationals Qc (axiom-free, executable): a non-axis-aligned rational rotation is executed by vm_compute (rational_rotation_executes).',
        'Hypotheses: ringlaws D, orth M (M^T M = I), mdet M = 1 (not needed when stereo is off). Over Z an orthogonal matrix is a signed permutation; general SE(3) is covered by the Qc and R instances of the same theorem.')
reclaim('C03', None, 'Hypotheses: ordlaws D (instance Z), cone_ok C (proved for the regenerated constants), injective p, distinct atom indices, gp_mol when stereo is on.')
reclaim('C04', 'The object model carries the conformer-level state explicitly (level_shells dictionary with representable stale keys, past_substructs, current_level; reset_mol/reset_conf as separate functions): '
        'frun_levels_exact (after any run the dictionary holds exactly levels 0..k of that run), fquery_eq_fingerprint_query (dictionary-based resolution = the range-based one of the core model), '
        'stale_levels_without_reset (a variant that skips the reset returns the previous conformer\'s shells: the reset is necessary).',
        'Hypothesis: consistent h (same identity => same atoms/bonds, distinct atom indices). The tie feeds the reused object\'s dictionary keys and its answers at every explicit level to the model.')
reclaim('C05', 'No hypothesis on the operation list (the ops_dom restriction of the first version was removed after two hidden defects were repaired); reload through .fpz/.fps is an operation of the histories (reload_id, pickle_id); rows_wf over any history of well-formed inputs.',
        'pure_reads_change_nothing and the no-op of similarity calls hold by construction of the model (read operations return the state); what carries weight there is the correspondence, which re-observes every live database after every step. Model domain: no duplicate column in from_array input, counts < 2^16, names None or non-empty, one dtype kind per column.')
reclaim('C07', 'Count databases: a folded count is the exact sum while it is <= 65535 and the sum modulo 2^16 beyond (uint16 storage): db_fold_count_no_overflow / db_fold_count_wraps; database fold = fingerprint fold on the premise that every folded sum fits.',
        None)
reclaim('C10', None, 'The *_rt_content theorems return level and name only when the caller re-supplies them (set_meta); formats that carry them: pickle_rt, file_rt, file_carries_meta under explicit codec hypotheses (pkl_loads (pkl_dumps s) = s; file_read e (file_write e l) = l).')
reclaim('C11', 'batch_bits_mismatch_rejected (add/mean reject mixed lengths); div/floordiv by zero specified.', 'Known finding: reflected scalar division (2 / a returns a / 2).')
reclaim('C13', None, 'generator_reusable and energies_reported hold by construction of the model (the generator state is a function of the configured options and the current molecule; the oracles are pure functions): the correspondence on reuse sequences and on pools rebuilt independently with RDKit is what ties them to the code. GetBestRMS symmetry is measured on every real pool (deviation > 1e-4 fails the run).')
reclaim('C14', 'all_iters_spec_M1: the truncation premise is discharged for the M1 model from C12 (premise: fuel > L).', 'Remaining premises: unpickle_pickle, per-call success premises, plain_name s.')
reclaim('C15', 'After the repair of the half-written all_iters case resume_preserves holds for EVERY existing file with no premise.',
        'db_schedule_independent / input_order_independent reduce to "flat_map respects Permutation" and failure_isolated to "a failing input contributes nothing": true by the shape of the collection loop as modelled, tied to the code by the real serial/threads/processes runs (labelled by the mode actually used; completion-order differences counted). Premises: disjoint/wf_job (derived for run() from level_ok and distinct molecule names), complete.')
reclaim('C17', 'Database histories as_type -> add -> as_type and metric -> add -> metric are compared with freshly converted databases.', 'db_cast_row_support / db_add_row_support / db_cast_values are one-line facts about the model\'s cast; known finding: a float value in (0,1) converted to a count is listed with count 0.')
reclaim('C18', 'Floating = heavy atom without a heavy neighbour (after the repair, explicit-H waters are excluded too); run_monotone_renaming / deleted_renumbered_same_fingerprints cover RDKit\'s renumbering after deletion.',
        'Search inputs include lattice molecules whose heavy-atom distances equal a shell radius exactly (exact ties are decided identically in exact and floating-point arithmetic).')
reclaim('C19', None, 'Premises: good_entry (no ASCII or Unicode white space), distinct names, sd_safe (no line breaks in title/property values) with the codec identity hypothesis; G, C, rt4 unconstrained.')
reclaim('C20', None, 'typed_rt_float proves that the repr token passes through and classifies as a float; float(repr(x)) == x is trusted. ~3% of fuzzed literal strings (quoted strings, containers) are CUnmodelled: excluded from the model comparison and counted per class in the evidence; known-finding keys require the specific observed outcome.')
reclaim('C02', 'Termination in positive form: run_succeeds (scene built + enough fuel => Ok), fuel_exec_suffices (the executable fuel 20000 covers 141 retained atoms), near monotone from level 1 for Z and R.', None)
reclaim('C06', None, 'Known-finding key requires the exact known outcome; Pearson entries with a constant non-zero operand (0/0) are masked and counted; non-dyadic float stream compared at 1e-9.')
SRC_NOTE = ('Source-derived obligations (Properties/%sSrc.v): the formulas/constants of the hand-written model are re-derived from the SOURCE TEXT on every run by a fail-closed ast translator (%s -> Gen/%s) '
            'and proved equal to the model; a changed formula breaks a proof obligation. If the translator cannot read a rewritten function these obligations are reported as not attempted '
            '(WARNING + note in the evidence) and the correspondence of that run is deepened; trusted: the translator\'s table of opaque parameters.')
reclaim('C02', 'Source tie (3 theorems, real translations): invariants_match_source (order and composition of the Daylight and RDKit atom invariants), unsigned_matches_source (the returned integer expression, on the int32 range), level_cap_matches_source (the boolean stop test); hash-input layout, sort keys, atom-tuple layout and radius are string GUARDS of the translator only (no theorem).',
        SRC_NOTE % ('C02', 'harness/facts_m1src.py', 'M1Source.v'))
reclaim('C06', 'Source tie (14 theorems, axiom-free): fp_tanimoto/dice/cosine/pearson/soergel/mean/std_match(es)_source, arr_ and sp_tanimoto_dice_match_source, sp_cosine_matches_source, and the step/merge/tail/finish '
        'equations of the dense and sparse Soergel kernels; stated with == and proved by ring/field so that algebraically equivalent rewrites of the Python expression still pass.',
        SRC_NOTE % ('C06', 'harness/facts_metricsrc.py', 'MetricsSource.v') + ' Python arithmetic is modelled in Base/PyExpr.v (option Q: None = ZeroDivisionError; nan_to_num; (num, den^2) for square roots).')
reclaim('C08', None, SRC_NOTE % ('C08', 'harness/facts_dbio.py', 'DbIOFacts.v') + ' (theorem source_constants).')
reclaim('C07', 'Source tie (8 theorems, axiom-free; Properties/C07Src.v): fp_fold_guards_match_source / db_fold_guards_match_source (the `if <test>: raise <Error>` guards of Fingerprint.fold and FingerprintDatabase.fold: same tests, '
        'same exception classes, same ORDER as the source text), fp_fold_index_matches_source + fp_fold_index_src_in_range (the position map of both folding methods), db_fold_col_matches_source (the column expression handed to csr_matrix), '
        'db_and_fp_guards_agree, shell_fold_identifier_matches_source (the folded identifier naming a substructure file), fold_zero_length.',
        SRC_NOTE % ('C07', 'harness/facts_foldsrc.py', 'FoldSource.v') + ' np.log2(self.bits / bits).is_integer() is an opaque boolean parameter (read as pow2_ratio, characterised by pow2_ratio_spec); the copies of data/indptr, sum_duplicates, '
        'the counts_method default and the fprint.fold(bits) tail of get_fingerprint_at_level are string guards of the translator only.')
reclaim('C09', 'Source tie (3 theorems, axiom-free; Properties/C09Src.v): bit_eq_matches_source, count_eq_matches_source (the boolean structure of the expression returned by Fingerprint.__eq__ / CountFingerprint.__eq__ over five named atomic comparisons, '
        'the class tested by the isinstance guard and the exception raised), ne_matches_source; proved by case analysis on the atoms, so reordering conjuncts passes while a dropped, added or negated conjunct fails.',
        SRC_NOTE % ('C09', 'harness/facts_eqsrc.py', 'EqSource.v') + ' The five atoms are matched as exact text and read as option_eqb / Z.eqb / kind_eqb / list_eqb / cmap_eqb.')
reclaim('C16', 'Source tie (3 theorems, axiom-free; Properties/C16Src.v): check_valid_matches_source (the per-member guards of _check_fingerprints_are_valid - tests, exception classes, order - translated from the source text), '
        'check_valid_every_member (a batch passes iff EVERY member passes them, at any position of a batch of any length), check_valid_first_offender.',
        SRC_NOTE % ('C16', 'harness/facts_dbchecksrc.py', 'DbCheckSource.v') + ' The translator requires structurally that the loop runs over the whole batch, holds nothing but `if <test>: raise` guards, and that the validation call is the first statement of add_fingerprints.')
reclaim('C11', 'Source tie (5 theorems, axiom-free; Properties/C11Src.v): bit_add/sub/and/or/xor_matches_source - per operator of the base class the guards in source order with their exception classes, the NumPy set function applied '
        'and the ORDER of its operands (setdiff1d(self, other) vs (other, self)), and the operand whose length the result takes, translated from the source text and proved equal to fp_bit_add / fp_bit_sub / fp_and / fp_or / fp_xor.',
        SRC_NOTE % ('C11', 'harness/facts_setopsrc.py', 'SetOpSource.v') + ' Trusted table: np.union1d / intersect1d / setdiff1d / setxor1d read as zunion / zinter / zdiff / zxor of Base/ZSet.v.')
reclaim('C14', 'Source tie (5 theorems, axiom-free; Properties/C14Src.v): single_level_matches_source (every `if` test of fprints_dict_from_mol that mentions all_iters - file names, generated levels, what is saved - is the model\'s single_level: one rule used consistently), '
        'fs_keep_matches_source (per-file rule of the saving loop), skip_all_matches_source, conf_loop_stop/continue_matches_source (the conformer cut-off `j == first`).',
        SRC_NOTE % ('C14', 'harness/facts_gensrc.py', 'GenerateSource.v') + ' Atoms all_iters, overwrite, all_files_exist, os.path.isfile(filenames[i]) are matched as exact text.')
reclaim('C15', 'Histories with a pre-existing database file: outputs of one molecule lost while the database of an earlier run is still in place (re-run twice), and the same batch run four times into the same db_file in database-only mode (three input orders, with and without overwrite): the named fingerprints must not depend on what an earlier run left in db_file.', None)
reclaim('C16', 'Batches of 1100 / 4200 / 9000 (thorough: up to 70000) fingerprints with one faulty member at the last and at a late position (length, level, missing property, sequence-valued property), on a deep copy of the target: slice-wise validation or commit is refused too late.', None)
reclaim('C01', 'Search streams added after seeded rounds 3-4: all 24 (48 with stereo off) signed axis permutations - exact in floating point - of flat and gridded molecules run on the implementation; molecules scaled so that one '
        'pair distance is a relative 1e-3..1e-7 away from a shell radius (far outside round-off, sensitive to any lab-frame snapping of coordinates).', None)
reclaim('C04', 'Histories switch between twins of one compound (copy, renumbered, reversed atom order); the same jobs incl. molecules with bond types outside the table are submitted in different orders to fresh interpreters.', None)
COV_NOTE = ('Correspondence generators audited clause by clause against the property text and the anchored code (coverage_audit/coverage_%s.md): '
            'call forms, argument types (NumPy scalars), aliasing and reuse sequences, unusual-but-legal inputs; inputs outside the model\'s documented domain are checked directly on the implementation.')
for _pid in ['C%02d' % i for i in range(1, 21)]:
    reclaim(_pid, None, COV_NOTE % _pid)
reclaim('C16', 'No hypothesis on the history; fault enumeration covers update_props(append=True) with mixed fresh/extended columns, from_array with a wrong number of names, columns declared on an empty database.', None)
