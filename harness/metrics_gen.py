"""Inputs, observations and Gallina literals for the similarity measures (model M4, Model/Metrics.v).

Everything is described by JSON-able *specs* so that the same input can be rebuilt for every call (some SciPy
operations canonicalise their CSR operands in place) and inside the NUMBA_DISABLE_JIT=1 worker process:

  fingerprint spec : fpgen spec  {'kind','bits','level','idx'|'cnt'}          (cnt values: Fraction / int)
  database spec    : {'kind','level','bits','rows':[fp spec...], 'via': 'add'|'array', 'perm': [...], 'zeros': [...]}
  array spec       : {'t':'dense','dtype':'bool|int|float','w':n,'rows':[[Fraction...]]}
                     {'t':'csr','dtype':...,'w':n,'rows':[[(col, Fraction)...]]}     (rows exactly as stored)
"""
import json
import math
import random
import os
import sys
from fractions import Fraction

import numpy as np

if __name__ == '__main__':
    sys.path.insert(0, os.path.dirname(os.path.abspath(__file__)))
import core
import fpgen
from core import zlit, qlit, listlit, optlit

MEASURES = ('tanimoto', 'dice', 'cosine', 'pearson', 'soergel')
MCON = {'tanimoto': 'MTanimoto', 'dice': 'MDice', 'cosine': 'MCosine', 'pearson': 'MPearson', 'soergel': 'MSoergel'}
NP_DTYPE = {'bool': np.bool_, 'int': np.int64, 'float': np.float64, 'uint16': np.uint16}
KIND_DTYPE = {'KBit': 'bool', 'KCount': 'uint16', 'KFloat': 'float'}


# --------------------------------------------------------------------------- fingerprints
def fp_vec(o, n):
    """dense vector (exact) of a fingerprint observation: to_vector semantics"""
    d = dict(o['cnt'])
    return [Fraction(d.get(i, 0)) for i in range(n)]


def fp_has_explicit_zero(o):
    return o['kind'] != 'KBit' and any(v == 0 for _, v in o['cnt'])


def const_spec(rng, kind, bits, level):
    if kind == 'KBit':
        return {'kind': kind, 'bits': bits, 'level': level, 'idx': list(range(bits))}
    v = rng.choice([1, 2, 3, 7]) if kind == 'KCount' else Fraction(rng.choice([1, 3, 5, 9]), rng.choice([1, 2, 4]))
    return {'kind': kind, 'bits': bits, 'level': level, 'cnt': {i: v for i in range(bits)}}


NONDYADIC_VALUES = [0.1, 1.0 / 3, 2.7, 0.3, 1.7, 1e-3, 12.75, 0.7, 1e3 + 0.1]


def NONDYADIC(rng):
    return Fraction(rng.choice(NONDYADIC_VALUES))


def rand_fp_pair(rng, allow):
    """A pair of fingerprint specs of equal length and a class label."""
    cls = rng.choice(['random', 'random', 'random', 'related', 'related', 'equal', 'subset', 'empty_one', 'empty_both',
                      'constant', 'mixed_kind', 'explicit_zero', 'allzero_count', 'nondyadic_float', 'nondyadic_float'])
    if cls == 'nondyadic_float':
        # float fingerprints whose values are not exactly representable sums: rounding in dot products, norms, means
        bits = rng.choice([8, 16, 16, 32, 64, 1024, 2 ** 32])
        la, lb = rng.choice([-1, 0, None]), rng.choice([-1, 5, None])
        a = fpgen.rand_spec(rng, kind='KFloat', bits=bits, level=la, named=False)
        b = fpgen.rand_spec(rng, kind=rng.choice(['KFloat', 'KFloat', 'KCount', 'KBit']), bits=bits, level=lb, named=False,
                            like=a if rng.random() < 0.6 else None)
        for sp in (a, b):
            if sp['kind'] == 'KFloat':
                sp['cnt'] = {i: NONDYADIC(rng) for i in sp['cnt']}
        return cls, a, b
    bits = rng.choice([4, 4, 8, 8, 16, 16, 32, 64, 64, 1024, 2 ** 20, 2 ** 32, 2 ** 32])
    kind = rng.choice(fpgen.KINDS)
    la, lb = rng.choice([-1, -1, 0, 1, 5, None]), rng.choice([-1, -1, 0, 1, 5, None])
    kb = kind
    if cls == 'mixed_kind':
        kb = rng.choice([k for k in fpgen.KINDS if k != kind])
    a = fpgen.rand_spec(rng, kind=kind, bits=bits, level=la, named=False)
    if cls == 'random':
        b = fpgen.rand_spec(rng, kind=kb, bits=bits, level=lb, named=False)
    elif cls in ('related', 'mixed_kind'):
        b = None
        while b is None:
            b = fpgen.rand_spec(rng, kind=kb, bits=bits, level=lb, named=False, like=a)
    elif cls == 'equal':
        b = dict(a)
        b['level'] = lb
    elif cls == 'subset':
        b = dict(a)
        b['level'] = lb
        if 'idx' in a:
            keep = set(i for i in set(a['idx']) if rng.random() < 0.6)
            b['idx'] = [i for i in a['idx'] if i in keep]
        else:
            b['cnt'] = {i: v for i, v in a['cnt'].items() if rng.random() < 0.6}
    elif cls == 'empty_one':
        b = {'kind': kb, 'bits': bits, 'level': lb, 'idx': []} if kb == 'KBit' else {'kind': kb, 'bits': bits, 'level': lb, 'cnt': {}}
        if rng.random() < 0.5:
            a, b = b, a
    elif cls == 'empty_both':
        a = {'kind': kind, 'bits': bits, 'level': la, 'idx': []} if kind == 'KBit' else {'kind': kind, 'bits': bits, 'level': la, 'cnt': {}}
        b = dict(a)
        b['level'] = lb
    elif cls == 'constant':
        bits = rng.choice([4, 8, 16])
        a = const_spec(rng, kind, bits, la)
        b = fpgen.rand_spec(rng, kind=kind, bits=bits, level=lb, named=False) if rng.random() < 0.7 else const_spec(rng, kind, bits, lb)
        if rng.random() < 0.5:
            a, b = b, a
    elif cls == 'explicit_zero':
        kind = rng.choice(['KCount', 'KFloat'])
        a = fpgen.rand_spec(rng, kind=kind, bits=bits, level=la, named=False)
        b = fpgen.rand_spec(rng, kind=kind, bits=bits, level=lb, named=False, like=a)
        for s in (a, b):
            if 'idx' in s:
                s['cnt'] = {i: s['idx'].count(i) for i in set(s['idx'])}
                del s['idx']
            ks = sorted(s['cnt'])
            for k in ks:
                if rng.random() < 0.4:
                    s['cnt'][k] = 0
            if not ks or rng.random() < 0.5:
                s['cnt'][rng.randrange(0, min(bits, 64))] = 0
    else:   # allzero_count: a count fingerprint whose stored counts are all zero (what a - a returns)
        kind = rng.choice(['KCount', 'KFloat'])
        b = fpgen.rand_spec(rng, kind=kind, bits=bits, level=lb, named=False)
        ks = sorted(b.get('cnt', {}).keys()) or sorted(set(b.get('idx', []))) or [0]
        a = {'kind': kind, 'bits': bits, 'level': la, 'cnt': {k: 0 for k in ks}}
        if rng.random() < 0.5:
            a, b = b, a
    return cls, a, b


# --------------------------------------------------------------------------- databases
def build_db(spec):
    from e3fp.fingerprint.db import FingerprintDatabase
    from scipy.sparse import csr_matrix
    C = fpgen.classes()[spec['kind']]
    db = FingerprintDatabase(fp_type=C, level=spec['level'])
    db.add_fingerprints([fpgen.build(s) for s in spec['rows']])
    if spec.get('via') == 'array':
        # same content, non-canonical storage: per-row permutation of the entries and extra explicit zeros
        A = db.array
        data, indices, indptr = [], [], [0]
        for r in range(A.shape[0]):
            ent = [(int(A.indices[j]), A.data[j]) for j in range(A.indptr[r], A.indptr[r + 1])]
            ent += [(int(c), A.dtype.type(0)) for c in spec['zeros'][r] if c not in [e[0] for e in ent]]
            order = list(range(len(ent)))
            random.Random(spec['perm'][r]).shuffle(order)
            for t in order:
                indices.append(ent[t][0])
                data.append(ent[t][1])
            indptr.append(len(indices))
        B = csr_matrix((np.array(data, dtype=A.dtype), np.array(indices, dtype=np.int64), np.array(indptr, dtype=np.int64)), shape=A.shape)
        db = FingerprintDatabase.from_array(B, fp_names=[None] * A.shape[0], fp_type=C, level=spec['level'])
    return db


def db_obs(db):
    A = db.array
    rows = []
    for r in range(A.shape[0]):
        rows.append([(int(A.indices[j]), fpgen.fr(A.data[j])) for j in range(A.indptr[r], A.indptr[r + 1])])
    lv = db.level
    return {'kind': _kind_of_class(db.fp_type), 'level': None if lv is None else int(lv), 'width': int(A.shape[1]), 'rows': rows}


def _kind_of_class(c):
    from e3fp.fingerprint.fprint import Fingerprint, CountFingerprint, FloatFingerprint
    return 'KFloat' if c is FloatFingerprint else 'KCount' if c is CountFingerprint else 'KBit'


def fp_from_json(d):
    """fpgen.obs_json dict -> (observation, implementation object)"""
    o = dict(d)
    o['cnt'] = [(int(k), Fraction(v)) for k, v in d['cnt']]
    spec = {'kind': o['kind'], 'bits': o['bits'], 'level': o['level']}
    if o.get('name'):
        spec['name'] = o['name']
    if o['kind'] == 'KBit':
        spec['idx'] = list(o['idx'])
    else:
        spec['cnt'] = dict(o['cnt'])
    return spec


def db_from_json(d):
    """db_json dict -> a builder of an implementation database with exactly that CSR storage"""
    o = dict(d)
    o['rows'] = [[(int(i), Fraction(v)) for i, v in r] for r in d['rows']]

    def build():
        from e3fp.fingerprint.db import FingerprintDatabase
        from scipy.sparse import csr_matrix
        C = fpgen.classes()[o['kind']]
        data, indices, indptr = [], [], [0]
        for r in o['rows']:
            for i, v in r:
                indices.append(i)
                data.append(float(v))
            indptr.append(len(indices))
        B = csr_matrix((np.array(data, dtype=float).astype(C.vector_dtype), np.array(indices, dtype=np.int64),
                        np.array(indptr, dtype=np.int64)), shape=(len(o['rows']), o['width']))
        return FingerprintDatabase.from_array(B, fp_names=[None] * len(o['rows']), fp_type=C, level=o['level'])
    return o, build


def rows_lit(rows):
    return listlit([listlit(['(%s, %s)' % (zlit(i), qlit(v)) for i, v in r]) for r in rows])


def db_lit(o):
    return '(mkdb %s %s %s %s)' % (o['kind'], optlit(o['level']), zlit(o['width']), rows_lit(o['rows']))


def db_json(o):
    d = dict(o)
    d['rows'] = [[[i, str(v)] for i, v in r] for r in o['rows']]
    return d


def db_vecs(o):
    out = []
    for r in o['rows']:
        v = [Fraction(0)] * o['width']
        for i, x in r:
            v[i] += x
        out.append(v)
    return out


def rand_db_spec(rng, kind, bits, include=None):
    """1-6 fingerprints of one kind and level; `include` (a spec of the same kind) becomes one of the rows."""
    n = rng.choice([1, 1, 2, 3, 4, 6])
    level = rng.choice([-1, -1, 0, 5, None])
    rows = []
    for i in range(n):
        if include is not None and include['kind'] == kind and i == 0:
            s = dict(include)
        elif rng.random() < 0.12:
            s = {'kind': kind, 'bits': bits, 'idx': []} if kind == 'KBit' else {'kind': kind, 'bits': bits, 'cnt': {}}
        else:
            like = rows[0] if rows and rng.random() < 0.5 else include if include is not None and rng.random() < 0.5 else None
            s = None
            while s is None:
                s = fpgen.rand_spec(rng, kind=kind, bits=bits, level=level, named=False, like=like)
        s['level'] = level
        rows.append(s)
    rng.shuffle(rows)
    spec = {'kind': kind, 'level': level, 'bits': bits, 'rows': rows, 'via': 'add'}
    if rng.random() < 0.45:
        spec['via'] = 'array'
        spec['perm'] = [rng.randrange(10 ** 6) for _ in rows]
        spec['zeros'] = [[rng.randrange(0, min(bits, 64)) for _ in range(rng.choice([0, 0, 1, 2]))] for _ in rows]
    return spec


# --------------------------------------------------------------------------- arrays
def build_arr(spec):
    from scipy.sparse import csr_matrix
    dt = NP_DTYPE[spec['dtype']]
    if spec['t'] == 'dense':
        return np.array([[float(v) for v in r] for r in spec['rows']], dtype=float).reshape(len(spec['rows']), spec['w']).astype(dt)
    data, indices, indptr = [], [], [0]
    for r in spec['rows']:
        for c, v in r:
            indices.append(c)
            data.append(float(v))
        indptr.append(len(indices))
    return csr_matrix((np.array(data, dtype=float).astype(dt), np.array(indices, dtype=np.int64), np.array(indptr, dtype=np.int64)),
                      shape=(len(spec['rows']), spec['w']))


def arr_lit(spec):
    if spec['t'] == 'dense':
        return '(Dense %s %s)' % (zlit(spec['w']), listlit([listlit([qlit(v) for v in r]) for r in spec['rows']]))
    return '(Sparse %s %s)' % (zlit(spec['w']), rows_lit(spec['rows']))


def arr_vecs(spec):
    if spec['t'] == 'dense':
        return [list(r) for r in spec['rows']]
    out = []
    for r in spec['rows']:
        v = [Fraction(0)] * spec['w']
        for c, x in r:
            v[c] += x
        out.append(v)
    return out


def arr_json(spec):
    d = dict(spec)
    if spec['t'] == 'dense':
        d['rows'] = [[str(v) for v in r] for r in spec['rows']]
    else:
        d['rows'] = [[[c, str(v)] for c, v in r] for r in spec['rows']]
    return d


def arr_from_json(d):
    s = dict(d)
    if d['t'] == 'dense':
        s['rows'] = [[Fraction(v) for v in r] for r in d['rows']]
    else:
        s['rows'] = [[(int(c), Fraction(v)) for c, v in r] for r in d['rows']]
    return s


def arr_flags(spec):
    vecs = arr_vecs(spec)
    nonbinary = any(v not in (0, 1) for r in vecs for v in r)
    dups = spec['t'] == 'csr' and any(len(set(c for c, _ in r)) != len(r) for r in spec['rows'])
    unsorted_ = spec['t'] == 'csr' and any([c for c, _ in r] != sorted(c for c, _ in r) for r in spec['rows'])
    zeros = spec['t'] == 'csr' and any(v == 0 for r in spec['rows'] for _, v in r)
    return {'nonbinary': nonbinary, 'dups': dups, 'unsorted': unsorted_, 'explicit_zeros': zeros}


VALUES = {
    'bool': lambda rng: Fraction(1),
    'int': lambda rng: Fraction(rng.choice([1, 1, 1, 2, 3, 7])),
    'float': lambda rng: Fraction(rng.choice([1, 2, 3, 5, 9, 250]), rng.choice([1, 1, 2, 4, 8])),
    'floatx': lambda rng: Fraction(rng.choice([0.1, 0.3, 1.7, 2.7, 1.0 / 3, 12.75, 1e-3, 0.7, 1e3 + 0.1])),
    'binfloat': lambda rng: Fraction(1),
}


def rand_vec(rng, w, vkind, density):
    return [VALUES[vkind](rng) if rng.random() < density else Fraction(0) for _ in range(w)]


def rand_dense_rows(rng, w, n, vkind):
    rows = []
    for i in range(n):
        r = rng.random()
        if r < 0.12:
            v = [Fraction(0)] * w                                   # all-zero row
        elif r < 0.2:
            c = VALUES[vkind](rng) if vkind != 'floatx' else Fraction(3, 2)
            v = [c] * w                                            # constant row (exactly representable)
        elif r < 0.35 and rows:
            v = list(rng.choice(rows))                             # equal row
        elif r < 0.5 and rows:
            v = [x if rng.random() < 0.6 else Fraction(0) for x in rng.choice(rows)]   # subset
        else:
            v = rand_vec(rng, w, vkind, rng.choice([0.2, 0.5, 0.8, 1.0]))
        rows.append(v)
    return rows


def to_csr_spec(rng, w, dtype, vecs, noncanonical=True, dups=False):
    rows = []
    for v in vecs:
        ent = [(c, x) for c, x in enumerate(v) if x != 0]
        if noncanonical:
            zs = [c for c in range(w) if v[c] == 0]
            rng.shuffle(zs)
            ent += [(c, Fraction(0)) for c in zs[:rng.choice([0, 0, 1, 2])]]          # explicit zeros
            if dups and ent:
                c, x = ent[rng.randrange(len(ent))]
                if x > 1:
                    ent = [e for e in ent if e[0] != c] + [(c, Fraction(1)), (c, x - 1)]   # duplicate column index
                else:
                    ent = [e for e in ent if e[0] != c] + [(c, Fraction(0)), (c, x)]       # ... adding up to 0/1
            if rng.random() < 0.7:
                rng.shuffle(ent)
            else:
                ent.sort()
        rows.append(ent)
    return {'t': 'csr', 'dtype': dtype, 'w': w, 'rows': rows}


def rand_arr_pair(rng, allow):
    """(class label, X spec, Y spec or None)"""
    w = rng.choice([1, 2, 3, 4, 4, 5, 6, 8, 8, 12, 16, 64])
    vkind = rng.choice(['bool', 'bool', 'binfloat', 'int', 'int', 'float', 'float', 'floatx', 'floatx'])
    if vkind in ('int', 'float', 'floatx') and not allow.get('nonbinary_array', True) and rng.random() < 0.0:
        vkind = 'bool'
    dtype = {'bool': 'bool', 'binfloat': 'float', 'int': 'int', 'float': 'float', 'floatx': 'float'}[vkind]
    nx, ny = rng.choice([1, 1, 2, 3, 4, 6]), rng.choice([1, 1, 2, 3, 4, 6])
    xv = rand_dense_rows(rng, w, nx, vkind)
    self_cmp = rng.random() < 0.2
    yv = None if self_cmp else rand_dense_rows(rng, w, ny, vkind)
    if yv is not None and rng.random() < 0.4:
        yv[0] = list(rng.choice(xv))
    form = rng.choice(['dense', 'dense', 'csr', 'csr', 'csr', 'mixed'])
    dups = rng.random() < 0.2

    def mk(vecs, sparse):
        if sparse:
            return to_csr_spec(rng, w, dtype, vecs, noncanonical=rng.random() < 0.8, dups=dups)
        return {'t': 'dense', 'dtype': dtype, 'w': w, 'rows': vecs}
    if form == 'dense':
        X, Y = mk(xv, False), (None if yv is None else mk(yv, False))
    elif form == 'csr':
        X, Y = mk(xv, True), (None if yv is None else mk(yv, True))
    else:
        s = rng.random() < 0.5
        X, Y = mk(xv, s), (None if yv is None else mk(yv, not s))
    return vkind + '/' + form + ('/self' if yv is None else ''), X, Y


# --------------------------------------------------------------------------- results
def observe(f):
    """Run an implementation call.  ('ok', float|matrix of Fractions) | ('err', tag) | ('nan', repr) | ('complex', repr)"""
    r = fpgen.attempt(f)
    if r[0] == 'err':
        return r
    v = r[1]
    if isinstance(v, (complex, np.complexfloating)):
        return ('complex', repr(v))
    if isinstance(v, np.ndarray) or hasattr(v, 'shape') and getattr(v, 'ndim', 0) == 2:
        a = np.asarray(v)
        if np.iscomplexobj(a):
            return ('complex', repr(a))
        if a.ndim != 2:
            return ('shape', repr(a.shape))
        if not np.all(np.isfinite(a)):
            return ('nan', repr(a.tolist()))
        return ('ok', [[Fraction(float(x)) for x in row] for row in a])
    try:
        x = float(v)
    except Exception:
        return ('type', repr(type(v)))
    if math.isnan(x) or math.isinf(x):
        return ('nan', repr(x))
    return ('ok', Fraction(x))


def is_const_nonzero(v):
    return len(v) > 0 and v[0] != 0 and all(x == v[0] for x in v)


def obs_lit(r, mask=None):
    """mask: set of (i, j) matrix entries that are not compared"""
    if r[0] == 'err':
        return '(Raises %s)' % r[1]
    if isinstance(r[1], list) and mask:
        return '(Ok (OMasked %s))' % listlit([listlit(['None' if (i, j) in mask else '(Some %s)' % qlit(x) for j, x in enumerate(row)])
                                                for i, row in enumerate(r[1])])
    if isinstance(r[1], list):
        return '(Ok (OMatrix %s))' % listlit([listlit([qlit(x) for x in row]) for row in r[1]])
    return '(Ok (OScalar %s))' % qlit(r[1])


def obs_json(r):
    if r[0] != 'ok':
        return [r[0], r[1]]
    if isinstance(r[1], list):
        return ['ok', [[float(x) for x in row] for row in r[1]]]
    return ['ok', float(r[1])]


def vecs_lit(vs):
    return listlit([listlit([qlit(v) for v in r]) for r in vs])


# --------------------------------------------------------------------------- worker for NUMBA_DISABLE_JIT=1
def _worker(inp, outp):
    core.setup_env()
    from e3fp.fingerprint.metrics import array_metrics as AM
    jobs = json.load(open(inp))
    out = []
    import numba
    jit_disabled = bool(numba.config.DISABLE_JIT)
    for j in jobs:
        X = arr_from_json(j['X'])
        Y = None if j['Y'] is None else arr_from_json(j['Y'])
        r = observe(lambda: getattr(AM, j['m'])(build_arr(X), None if Y is None else build_arr(Y)))
        if r[0] == 'ok':
            r = ('ok', [[x.numerator.__str__() + '/' + str(x.denominator) for x in row] for row in r[1]])
        out.append(list(r))
    json.dump({'jit_disabled': jit_disabled, 'is_python_function': not hasattr(AM._sparse_soergel, 'py_func') or jit_disabled,
               'results': out}, open(outp, 'w'))


if __name__ == '__main__':
    _worker(sys.argv[1], sys.argv[2])
