"""RDKit molecule + conformer -> exact facts: Gallina literal for Model/E3FP.v and inputs of m1_spec.run_spec.
The getters are called here independently of e3fp (the model contains the invariant formulas)."""
from fractions import Fraction as Fr
from core import zlit, zlist, blit
import m1_spec

TAGS = {'SINGLE': 'BtSingle', 'DOUBLE': 'BtDouble', 'TRIPLE': 'BtTriple', 'AROMATIC': 'BtAromatic'}
_CONSTS = None


def consts():
    """Angle constants from the *source* (same values facts_angles.py writes into Gen/AngleTable.v)."""
    global _CONSTS
    if _CONSTS is None:
        from e3fp.fingerprint import fprinter
        import facts_angles
        tab, c2, y2 = m1_spec.angle_constants(fprinter.Z_AXIS_PRECISION, fprinter.POLAR_CONE_RAD, fprinter.Y_AXIS_PRECISION, den_bits=facts_angles.BITS)
        _CONSTS = m1_spec.Consts(tab, c2, y2)
    return _CONSTS


def mol_facts(mol, conf_id=None, coords=None):
    """coords: optional dict idx -> (x, y, z) floats overriding the conformer."""
    from rdkit import Chem
    pt = Chem.GetPeriodicTable()
    conf = None if coords is not None else (mol.GetConformer(conf_id) if conf_id is not None else mol.GetConformer())
    atoms = []
    for a in mol.GetAtoms():
        i = a.GetIdx()
        if coords is not None:
            p = coords[i]
        else:
            q = conf.GetAtomPosition(i)
            p = (q.x, q.y, q.z)
        # 'deg' = number of heavy-atom neighbours: what the floating-atom filter tests
        atoms.append({'idx': i, 'num': a.GetAtomicNum(), 'deg': sum(1 for nb in a.GetNeighbors() if nb.GetAtomicNum() > 1), 'tdeg': a.GetTotalDegree(),
                      'tval': a.GetTotalValence(), 'nh': a.GetTotalNumHs(includeNeighbors=True), 'mass': int(a.GetMass()),
                      'charge': a.GetFormalCharge(), 'ring': int(a.IsInRing()),
                      'dmass': int(a.GetMass() - pt.GetAtomicWeight(a.GetAtomicNum())),
                      'pos': tuple(Fr(float(c)) for c in p)})
    bonds = []
    for b in mol.GetBonds():
        bonds.append((b.GetBeginAtomIdx(), b.GetEndAtomIdx(), TAGS.get(str(b.GetBondType()), 'BtOther')))
    return {'atoms': atoms, 'bonds': bonds}


def scale_bits(facts):
    s = 0
    for a in facts['atoms']:
        for c in a['pos']:
            d = c.denominator
            s = max(s, d.bit_length() - 1)
    return s


def mol_lit(facts, only_heavy_coords=True):
    """mkmol literal over ZD: coordinates scaled by 2^s to integers (hydrogen coordinates too: the model must ignore them)."""
    s = scale_bits(facts)
    sc = 1 << s
    al = []
    for a in facts['atoms']:
        x, y, z = (int(c * sc) for c in a['pos'])
        al.append('(mkatom ZD %s %s %s %s %s %s %s %s %s %s (mkvec (D:=ZD) %s %s %s))' % (
            zlit(a['idx']), zlit(a['num']), zlit(a['deg']), zlit(a['tdeg']), zlit(a['tval']), zlit(a['nh']), zlit(a['mass']),
            zlit(a['charge']), zlit(a['ring']), zlit(a['dmass']), zlit(x), zlit(y), zlit(z)))
    bl = ['(%s, %s, %s)' % (zlit(a), zlit(b), t) for a, b, t in facts['bonds']]
    return '(mkmol ZD [%s] [%s] %s)' % ('; '.join(al), '; '.join(bl), zlit(sc * sc))


def opts_lit(o):
    m = Fr(float(o['mult']))
    lv = o['level']
    return '(mkopts %s %s %s %s %s %s %s %s)' % (zlit(-1 if lv is None else lv), zlit(m.numerator), zlit(m.denominator),
                                                blit(o['stereo']), blit(o['remdup']), blit(o['incl']), blit(o['rdkit']), blit(o['exfloat']))


BOND_CODE = {'BtSingle': 1, 'BtDouble': 2, 'BtTriple': 3, 'BtAromatic': 4}


def spec_inputs(facts, o):
    """Python-side replica of scene_of for m1_spec (tagging / search only)."""
    heavy = [a for a in facts['atoms'] if a['num'] > 1]
    if o['exfloat'] and len(heavy) > 1:
        heavy = [a for a in heavy if a['deg'] > 0]
    ids = [a['idx'] for a in heavy]
    idset = set(ids)
    inv = {}
    for a in heavy:
        if o['rdkit']:
            v = [a['num'], a['tdeg'], a['nh'], a['charge'], a['dmass'], a['ring']]
        else:
            v = [a['tdeg'] - a['nh'], a['tval'] - a['nh'], a['num'], a['mass'], a['charge'], a['nh'], a['ring']]
        inv[a['idx']] = m1_spec.hash_i64(v)
    conn = {(x, y): 5 for x in ids for y in ids}
    bonded = {}
    for x, y, t in facts['bonds']:
        if x in idset and y in idset:
            if t not in BOND_CODE:
                return None          # KeyError in the implementation
            conn[(x, y)] = conn[(y, x)] = BOND_CODE[t]
            bonded.setdefault(x, set()).add(y)
            bonded.setdefault(y, set()).add(x)
    pos = {a['idx']: a['pos'] for a in heavy}
    return ids, inv, conn, pos, bonded


def run_spec(facts, o, branch=None):
    si = spec_inputs(facts, o)
    if si is None or not si[0]:
        return None
    ids, inv, conn, pos, bonded = si
    lv = -1 if o['level'] is None else o['level']
    return m1_spec.run_spec(consts(), ids, inv, conn, pos, lv, Fr(float(o['mult'])), stereo=o['stereo'],
                            remove_dup=o['remdup'], include_disconnected=o['incl'], bonded=bonded, branch=branch)


def impl_run(mol, conf_id, o, bits=2 ** 32, counts=False):
    """Drive the real Fingerprinter; returns (fingerprinter, {level: sorted [(ident, centre, substruct)]}, current_level)."""
    from e3fp.fingerprint.fprinter import Fingerprinter
    f = Fingerprinter(bits=bits, level=o['level'], radius_multiplier=o['mult'], stereo=o['stereo'], counts=counts,
                      include_disconnected=o['incl'], rdkit_invariants=o['rdkit'], exclude_floating=o['exfloat'],
                      remove_duplicate_substructs=o['remdup'])
    f.run(conf_id, mol)
    return f, observe(f), int(f.current_level)


def observe(f):
    out = {}
    for lv, shells in f.level_shells.items():
        out[int(lv)] = sorted((int(s.identifier), int(s.center_atom), tuple(sorted(int(x) for x in s.substruct.atoms))) for s in shells)
    return out


def levels_lit(obs, k):
    """expected observation literal: list (level 0 .. k) of list of (ident, centre, substruct)"""
    return '[' + '; '.join('[' + '; '.join('(%s, %s, %s)' % (zlit(i), zlit(c), zlist(s)) for i, c, s in obs[l]) + ']'
                           for l in range(k + 1)) + ']'


GRID_BITS = 16


def gridded(mol, conf_ids=None, bits=GRID_BITS, jitter=None):
    """Copy of `mol` whose conformer coordinates are rounded to multiples of 2^-bits Angstrom (exactly representable
    doubles, so that the model's integers stay small).  Both sides are then run on these same coordinates."""
    from rdkit import Chem
    from rdkit.Geometry import Point3D
    m = Chem.Mol(mol)
    sc = float(1 << bits)
    for conf in m.GetConformers():
        if conf_ids is not None and conf.GetId() not in conf_ids:
            continue
        for i in range(m.GetNumAtoms()):
            p = conf.GetAtomPosition(i)
            q = [p.x, p.y, p.z]
            if jitter is not None:
                q = [c + jitter() for c in q]
            conf.SetAtomPosition(i, Point3D(*[round(c * sc) / sc for c in q]))
    return m
