"""Molecules and option settings for the M1 correspondences (all offline: shipped SDFs + SMILES embedded with ETKDG under fixed seeds)."""
import glob
import os
import core

SMILES = [
    # shape diversity: linear, planar, symmetric, rings, stereocentres, salts, hydrates, hetero atoms, charges
    'C', 'CC', 'C#N', 'C=C=C', 'CC#CC', 'O=C=O', 'c1ccccc1', 'c1ccncc1', 'c1ccc2ccccc2c1', 'C1CC1', 'C1CCCCC1',
    'CC(C)(C)C', 'C(F)(F)(F)F', 'FS(F)(F)(F)(F)F', 'C[C@H](N)C(=O)O', 'C[C@@H](N)C(=O)O', 'N[C@@H](CS)C(=O)O',
    'C[C@H](O)[C@@H](N)C(=O)O', 'F[C@](Cl)(Br)I', 'CC(=O)Oc1ccccc1C(=O)O', 'CN1C=NC2=C1C(=O)N(C(=O)N2C)C',
    'CCO', 'CCN(CC)CC', 'OCC(O)CO', 'CC(C)Cc1ccc(cc1)C(C)C(=O)O', 'C1CC2CCC1C2', 'C12C3C4C1C5C2C3C45',
    'CCO.O', '[Na+].[Cl-]', 'CC(=O)[O-].[Na+]', 'C[N+](C)(C)C.[Br-]', 'O', '[Na+]', 'OP(=O)(O)O', 'CS(=O)(=O)N',
    'c1ccc(cc1)-c1ccccc1', 'C/C=C/C', 'C/C=C\\C', 'ClC=CCl', 'N#Cc1ccccc1', 'O=C1CCCCC1', 'C1COCCO1', 'c1cc[nH]c1',
    'CC(C)(C)c1ccc(O)cc1', 'NC(=O)c1cccnc1', 'CSCC[C@H](N)C(=O)O', 'OC[C@H]1OC(O)[C@H](O)[C@@H](O)[C@@H]1O',
    'BrC1=CC=CC=C1', '[2H]C([2H])([2H])O', 'C[13CH3]', 'CC(C)=O.O.O', '[2H]C([2H])(C)O', '[3H]c1ccccc1', 'CC(N)C(=O)O.[2H]O[2H]',
]

OPT_KEYS = ('level', 'mult', 'stereo', 'remdup', 'incl', 'rdkit', 'exfloat')
DEFAULT_OPTS = {'level': 5, 'mult': 1.718, 'stereo': True, 'remdup': True, 'incl': True, 'rdkit': False, 'exfloat': True}


def rand_opts(rng, allow_incl_false=True):
    o = dict(DEFAULT_OPTS)
    o['level'] = rng.choice([0, 1, 2, 3, 4, 5, 5, 6, -1, None])
    o['mult'] = rng.choice([0.5, 1.0, 1.5, 1.5, 1.718, 1.718, 1.718, 2.0, 2.0, 3.0])
    o['stereo'] = rng.random() < 0.7
    o['remdup'] = True if o['level'] in (-1, None) else rng.random() < 0.75
    o['incl'] = not (allow_incl_false and rng.random() < 0.2)
    o['rdkit'] = rng.random() < 0.3
    o['exfloat'] = rng.random() < 0.7
    return o


_CACHE = {}


def shipped():
    """[(name, mol)] from /repo/tests/data (multi-conformer SDFs)."""
    if 'shipped' not in _CACHE:
        from e3fp.conformer.util import mol_from_sdf
        out = []
        base = os.path.join(core.REPO, 'tests', 'data')
        for p in sorted(glob.glob(os.path.join(base, '*.sdf.bz2')) + glob.glob(os.path.join(base, 'rand_sdf_files', '*.sdf.bz2'))):
            out.append((os.path.basename(p).split('.')[0], mol_from_sdf(p)))      # a shipped file that does not load fails the check
        if len(out) < 5:
            raise RuntimeError('shipped multi-conformer SDF files not found under %s' % base)
        _CACHE['shipped'] = out
    return _CACHE['shipped']


def embedded(smiles, nconf=2, seed=11, add_hs=True, keep_hs=True):
    """Embed offline with ETKDG; returns a molecule (explicit Hs kept if keep_hs) or None."""
    key = (smiles, nconf, seed, add_hs, keep_hs)
    if key not in _CACHE:
        from rdkit import Chem
        from rdkit.Chem import AllChem
        m = Chem.MolFromSmiles(smiles)
        if m is None:
            _CACHE[key] = None
            return None
        mh = Chem.AddHs(m) if add_hs else m
        ids = AllChem.EmbedMultipleConfs(mh, nconf, randomSeed=seed)
        if len(ids) == 0:
            _CACHE[key] = None
            return None
        if not keep_hs:
            mh = Chem.RemoveHs(mh)
        mh.SetProp('_Name', 'smi%d' % (abs(hash(smiles)) % 100000))
        _CACHE[key] = mh
    return _CACHE[key]


def pool(rng, n, with_shipped=True):
    """n (name, mol, conf_id) triples drawn from the shipped and embedded molecules."""
    out = []
    sh = shipped() if with_shipped else []
    while len(out) < n:
        if sh and rng.random() < 0.25:
            name, m = rng.choice(sh)
            out.append((name, m, rng.randrange(min(m.GetNumConformers(), 20))))
        else:
            smi = rng.choice(SMILES)
            m = embedded(smi, nconf=2, seed=rng.choice([3, 11]), keep_hs=rng.random() < 0.5)
            if m is None:
                continue
            out.append((smi, m, rng.randrange(m.GetNumConformers())))
    return out


# ---- threshold-directed synthetic geometries --------------------------------------------------------------
# A centre atom with n >= 3 neighbours of identical (bond, identifier) key takes the "mean vector" branch of pick_y;
# the decision |mean| >= 0.1 A is then taken on a vector whose length we choose a moderate factor away from the
# threshold (never within round-off of it) and whose direction is random, so that any dependence on the lab axes shows.
SYMMETRIC = [('C(F)(F)(F)F', 0, 'tetra'), ('C(Cl)(Cl)(Cl)Cl', 0, 'tetra'), ('CC(C)(C)C', 1, 'tetra'), ('FS(F)(F)(F)(F)F', 1, 'octa'),
             ('FB(F)F', 1, 'trig'), ('C(F)(F)F', 0, 'trig'), ('ClP(Cl)(Cl)(Cl)Cl', 1, 'bipy'), ('[O-]Cl(=O)(=O)=O', 1, 'tetra')]

_DIRS = {
    'tetra': [(1, 1, 1), (1, -1, -1), (-1, 1, -1), (-1, -1, 1)],
    'octa': [(1, 0, 0), (-1, 0, 0), (0, 1, 0), (0, -1, 0), (0, 0, 1), (0, 0, -1)],
    'trig': [(1, 0, 0), (-0.5, 0.8660254037844386, 0), (-0.5, -0.8660254037844386, 0)],
    'bipy': [(1, 0, 0), (-0.5, 0.8660254037844386, 0), (-0.5, -0.8660254037844386, 0), (0, 0, 1), (0, 0, -1)],
}


def synthetic_symmetric(rng, factor=None):
    """(name, mol, conf_id): a symmetric centre whose neighbours' mean vector has length factor * 0.1 A, randomly oriented."""
    import numpy as np
    from rdkit import Chem
    from rdkit.Chem import AllChem
    from rdkit.Geometry import Point3D
    import m1lib
    smi, centre, shape = rng.choice(SYMMETRIC)
    m = Chem.MolFromSmiles(smi)
    m = Chem.Mol(m)
    if m.GetNumConformers() == 0:
        AllChem.Compute2DCoords(m)
    conf = m.GetConformer()
    nbrs = [a.GetIdx() for a in m.GetAtomWithIdx(centre).GetNeighbors()]
    dirs = [np.array(d, dtype=float) / np.linalg.norm(d) for d in _DIRS[shape]][:len(nbrs)]
    r = rng.uniform(1.3, 1.9)
    f = factor if factor is not None else rng.choice([0.3, 0.6, 0.8, 1.2, 1.35, 1.5, 1.65, 1.9, 2.5, 4.0])
    n = len(nbrs)
    resid = sum(dirs) * r / n                                # mean of the ideal arrangement (0 for the full polyhedra)
    u = np.array([rng.gauss(0, 1) for _ in range(3)])
    u /= np.linalg.norm(u)
    shift = u * (0.1 * f) - resid                            # added to every neighbour: the mean becomes u * 0.1 * f
    R = m1lib.random_rotation(rng)
    t = np.array([rng.uniform(-5, 5) for _ in range(3)])
    pos = {centre: np.zeros(3)}
    for i, d in zip(nbrs, dirs):
        pos[i] = d * r + shift
    k = 0
    for a in m.GetAtoms():                                   # any remaining atoms: far away on a line
        if a.GetIdx() not in pos:
            k += 1
            pos[a.GetIdx()] = np.array([30.0 + 3 * k, 0.3 * k, 0.0])
    for i, p in pos.items():
        q = R.dot(p) + t
        conf.SetAtomPosition(i, Point3D(float(q[0]), float(q[1]), float(q[2])))
    m.SetProp('_Name', 'sym_%s_%.2f' % (shape, f))
    return ('%s mean=%.2fx0.1A' % (smi, f), m, conf.GetId())


def lattice_molecule(rng):
    """(name, mol, conf_id, mult): heavy atoms on a cubic lattice so that many interatomic distances EQUAL a shell radius
    exactly (d = k * mult with all quantities exactly representable), plus explicit hydrogens off the lattice and, sometimes,
    an unbonded ion.  Exact ties are decided the same way in exact and in floating-point arithmetic (<=), so they are inside
    every property's quantifier; only a code change that perturbs retained coordinates makes them flip."""
    from rdkit import Chem
    from rdkit.Geometry import Point3D
    import numpy as np
    smi = rng.choice(['CCCC', 'CC(C)C', 'C1CCC1', 'CCOC', 'CCCCC', 'CC(C)(C)C', 'CCN(C)C'])
    ion = rng.random() < 0.5
    m = Chem.AddHs(Chem.MolFromSmiles(smi + ('.[Cl-]' if ion else '')))
    step = rng.choice([1.5, 0.75])
    mult = step if rng.random() < 0.7 else 2 * step
    conf = Chem.Conformer(m.GetNumAtoms())
    # half of the molecules straddle the origin: there |p - centroid| > |centroid| for some atoms, the regime in which
    # re-centring coordinates is inexact in floating point (Sterbenz); the others sit far from it
    if rng.random() < 0.5:
        origin = -step * np.array([1.0, 1.0, 0.5]) + np.array([rng.choice([0.0, 0.0, step]) for _ in range(3)])
    else:
        origin = np.array([rng.choice([0.0, 0.75, 12.0, -7.5, 31.5]) for _ in range(3)])
    heavy = [a.GetIdx() for a in m.GetAtoms() if a.GetAtomicNum() > 1]
    cells = [(i, j, k) for i in range(3) for j in range(3) for k in range(2)]
    rng.shuffle(cells)
    pos = {}
    for idx, cell in zip(heavy, cells):
        pos[idx] = origin + step * np.array(cell, dtype=float)
    for a in m.GetAtoms():
        if a.GetAtomicNum() == 1:
            parent = a.GetNeighbors()[0].GetIdx()
            pos[a.GetIdx()] = pos[parent] + np.array([rng.uniform(-0.9, 0.9) for _ in range(3)])
    for i, p in pos.items():
        conf.SetAtomPosition(i, Point3D(float(p[0]), float(p[1]), float(p[2])))
    m.AddConformer(conf, assignId=True)
    m.SetProp('_Name', 'lattice')
    return ('lattice %s step %.2f mult %.2f%s' % (smi, step, mult, ' +Cl-' if ion else ''), m, 0, mult)


def near_radius_molecule(rng):
    """(name, mol, conf_id, mult, level, delta): an embedded molecule uniformly SCALED so that one heavy-atom pair distance sits at a
    relative offset delta (1e-3 .. 1e-7, either sign) from a shell radius k*mult.  Such a geometry is far outside floating-point
    round-off of the threshold (1e-16 relative) - the properties quantify over it - but any code that snaps or perturbs coordinates
    in the lab frame (rounding to file precision, float32, re-centring) decides it differently in different poses."""
    import numpy as np
    from rdkit import Chem
    from rdkit.Geometry import Point3D
    while True:
        smi = rng.choice(SMILES)
        m = embedded(smi, nconf=2, seed=rng.choice([3, 11]), keep_hs=rng.random() < 0.5)
        if m is None:
            continue
        heavy = [a.GetIdx() for a in m.GetAtoms() if a.GetAtomicNum() > 1]
        if len(heavy) < 3:
            continue
        m = Chem.Mol(m)
        cid = rng.randrange(m.GetNumConformers())
        conf = m.GetConformer(cid)
        a, b = rng.sample(heavy, 2)
        pa, pb = conf.GetAtomPosition(a), conf.GetAtomPosition(b)
        d = float(np.linalg.norm(np.array([pa.x - pb.x, pa.y - pb.y, pa.z - pb.z])))
        if d < 0.5:
            continue
        mult = rng.choice([1.0, 1.5, 1.718, 2.0])
        level = rng.choice([2, 3, 4, 5])
        k = min(level, max(1, int(round(d / mult))))
        delta = rng.choice([1, -1]) * 10.0 ** (-rng.uniform(3, 7))
        sc = k * mult * (1 + delta) / d
        for i in range(m.GetNumAtoms()):
            p = conf.GetAtomPosition(i)
            conf.SetAtomPosition(i, Point3D(p.x * sc, p.y * sc, p.z * sc))
        return ('%s scaled: d(%d,%d) = %d*%g*(1%+.1e)' % (smi, a, b, k, mult, delta), m, cid, mult, level, delta)
