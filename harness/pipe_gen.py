"""Helpers shared by C14 / C15: molecules from the shipped SDF files, direct per-conformer fingerprinting, log capture,
Gallina literals of the entry-point models (Model/Pipeline.v, Model/Batch.v)."""
import glob
import logging
import os
import re

import core
import fpgen
from core import zlit, optlit, strlit, listlit, blit

SENTINEL = b'VERIF-SENTINEL-%d\n'
FP_OPT_KEYS = ('counts', 'stereo', 'radius_multiplier', 'include_disconnected', 'rdkit_invariants', 'exclude_floating',
               'remove_duplicate_substructs')
_CACHE = {}


def data_dir():
    return os.path.join(core.REPO, 'tests', 'data')


def shipped_files():
    d = data_dir()
    return sorted(glob.glob(os.path.join(d, '*.sdf.bz2'))) + sorted(glob.glob(os.path.join(d, 'rand_sdf_files', '*.sdf.bz2')))


def shipped_mols(max_confs=8):
    """[(tag, mol)] with at most `max_confs` conformers each (read once)."""
    if 'mols' not in _CACHE:
        from e3fp.conformer.util import mol_from_sdf
        out = []
        for f in shipped_files():
            m = mol_from_sdf(f, conf_num=max_confs)
            out.append((os.path.basename(f).split('.')[0], m))
        _CACHE['mols'] = out
    return _CACHE['mols']


def make_mol(base, n, name, ids=None):
    """Copy of `base` with its first n conformers; name: str -> _Name, None -> the property is removed.
    ids: RDKit conformer ids to give them (RDKit ids need not be 0..n-1 nor distinct: RemoveConformer leaves gaps, AddConformer
    without assignId keeps whatever id the conformer carries); None -> 0..n-1."""
    from rdkit import Chem
    m = Chem.Mol(base)
    m.RemoveAllConformers()
    for j, c in enumerate(base.GetConformers()):
        if j >= n:
            break
        c2 = Chem.Conformer(c)
        if ids is None:
            m.AddConformer(c2, assignId=True)
        else:
            c2.SetId(int(ids[j]))
            m.AddConformer(c2, assignId=False)
    if name is None:
        if m.HasProp('_Name'):
            m.ClearProp('_Name')
    else:
        m.SetProp('_Name', name)
    return m


def mol_name(m):
    return m.GetProp('_Name') if m.HasProp('_Name') else None


def direct_fp(mol, conf, bits, run_level, query_level, fp_opts):
    """Direct use of Fingerprinter for one conformer: a fresh object, run to `run_level`, queried at `query_level`."""
    from e3fp.fingerprint.fprinter import Fingerprinter
    def go():
        f = Fingerprinter(bits=bits, level=run_level, **fp_opts)
        f.run(conf, mol)
        return f.get_fingerprint_at_level(query_level)
    r = fpgen.attempt(go)
    return ('ok', fpgen.obs(r[1])) if r[0] == 'ok' else r


def direct_init(bits, run_level, fp_opts):
    """The constructor call the entry point makes, attempted directly: '(Ok tt)' or '(Raises E)'."""
    from e3fp.fingerprint.fprinter import Fingerprinter
    r = fpgen.attempt(lambda: Fingerprinter(bits=bits, level=run_level, **fp_opts))
    return '(Ok tt)' if r[0] == 'ok' else '(Raises %s)' % r[1]


def direct_table(mol, bits, run_level, levels, fp_opts, separate=False, conf_id0=0, limit=None):
    """{(bits, conformer id, run_level, k): observation} for the conformers of mol (all, or the first `limit`).
    separate=True: the entry for level k comes from a *separate run limited to level k* (what C14 states for all_iters)."""
    t = {}
    for j, conf in enumerate(mol.GetConformers()):
        if limit is not None and j >= limit:
            break
        for k in levels:
            t[(bits, conf_id0 + j, run_level, k)] = direct_fp(mol, conf, bits, k if separate else run_level, k, fp_opts)
    return t


def table_lit(t):
    return listlit(['((%s, %s, %s, %s), %s)' % (zlit(b), zlit(j), zlit(l), zlit(k), fpgen.result_lit(r)) for (b, j, l, k), r in t.items()])


class _Cap(logging.Handler):
    def __init__(self):
        logging.Handler.__init__(self, level=logging.DEBUG)
        self.msgs = []

    def emit(self, record):
        try:
            self.msgs.append(record.getMessage())
        except Exception:
            pass


def logged_call(f):
    """Run f() with logging enabled and captured.  Returns (attempt-result, [messages])."""
    root = logging.getLogger()
    h = _Cap()
    old_level, old_disable = root.level, logging.root.manager.disable
    old_handlers = list(root.handlers)
    logging.disable(logging.NOTSET)
    root.handlers[:] = [h]
    root.setLevel(logging.DEBUG)
    try:
        r = fpgen.attempt(f)
    finally:
        root.handlers[:] = old_handlers
        root.setLevel(old_level)
        logging.disable(old_disable)
    return r, h.msgs


def generated_count(msgs):
    for m in msgs:
        mm = re.match(r'Generated (-?\d+) fingerprints for', m)
        if mm:
            return int(mm.group(1))
    return None


# ---- literals ---------------------------------------------------------------------------------------------------------
def fps_lit(obs_list):
    return listlit([fpgen.lit(o) for o in obs_list])


def dict_obs(d):
    return [(int(k), [fpgen.obs(x) for x in v]) for k, v in d.items()]


def dict_lit(dobs):
    return listlit(['(%s, %s)' % (zlit(k), fps_lit(v)) for k, v in dobs])


def mol_lit(name, conf_ids):
    return '(mkmol %s %s)' % (optlit(name, strlit), core.zlist(conf_ids))


def param_lit(p, f=zlit):
    """p: ('absent',) | ('none',) | ('val', v)"""
    return 'PAbsent' if p[0] == 'absent' else 'PNone' if p[0] == 'none' else '(PVal %s)' % f(p[1])


def fparams_lit(P):
    """P: dict(bits=param, level=param, first=None|int, out_dir_base=None|str, out_ext=None|str, all_iters=None|bool, overwrite=None|bool)"""
    return '(mkfparams %s %s %s tt %s %s %s %s)' % (
        param_lit(P['bits']), param_lit(P['level']), optlit(P['first']), optlit(P['out_dir_base'], strlit),
        optlit(P['out_ext'], strlit), optlit(P['all_iters'], blit), optlit(P['overwrite'], blit))


def kwargs_of(P, fp_opts):
    kw = dict(fp_opts)
    for k in ('bits', 'level'):
        if P[k][0] == 'none':
            kw[k] = None
        elif P[k][0] == 'val':
            kw[k] = P[k][1]
    for k in ('first', 'out_dir_base', 'out_ext', 'all_iters', 'overwrite'):
        if P[k] is not None:
            kw[k] = P[k]
    return kw


def path_lit(p):
    return '(%s, %s)' % (strlit(p[0]), strlit(p[1]))


def content_lit(c):
    """c: ('sentinel', k) | ('pickled', [obs])"""
    return '(Sentinel %s)' % zlit(c[1]) if c[0] == 'sentinel' else '(Pickled %s)' % fps_lit(c[1])


def fs_lit(entries):
    return listlit(['(%s, %s)' % (path_lit(p), content_lit(c)) for p, c in entries])


def fs_obs_lit(entries):
    return listlit(['(%s, %s)' % (path_lit(p), 'None' if c is None else '(Some %s)' % content_lit(c)) for p, c in entries])


def read_content(fn):
    """Classify a file: sentinel k, or the fingerprints loadz returns."""
    import e3fp.fingerprint.fprint as FP
    raw = open(fn, 'rb').read()
    m = re.match(rb'VERIF-SENTINEL-(\d+)\n$', raw)
    if m:
        return ('sentinel', int(m.group(1)))
    try:
        return ('pickled', [fpgen.obs(x) for x in FP.loadz(fn)])
    except Exception as e:  # noqa
        return ('unreadable', '%s: %s' % (type(e).__name__, e))


def split_path(fn):
    return (os.path.dirname(fn), os.path.basename(fn))


def result_obs_lit(r, kind):
    """r: attempt result of an entry point; kind 'dict' | 'list'."""
    if r[0] == 'err':
        return '(Raises %s)' % r[1]
    return '(Ok %s)' % (dict_lit(r[1]) if kind == 'dict' else fps_lit(r[1]))


def json_fp(o):
    return {'name': o['name'], 'level': o['level'], 'bits': o['bits'], 'kind': o['kind'], 'n_idx': len(o['idx']), 'idx_head': o['idx'][:6]}


def replay_case(ctx, path, run):
    """Shared replay of C14 / C15: regenerate the recorded case (the generators are deterministic in (seed, tier)), run it
    on the implementation and on the model again, and report.  Returns the exit code."""
    import json
    import shutil
    d = json.load(open(path))
    case = d.get('case') or {}
    print('replay %s: %s' % (path, d.get('what', '')[:300]))
    if d.get('kind') in ('proof-obligation', 'harness-error') or not case.get('case_key'):
        ok, res = core.proof_step(ctx)
        shutil.rmtree(ctx.workdir, ignore_errors=True)
        if ok:
            print('replay: Properties/%s.v checks (%d/%d obligations); the recorded failure carried no input' % (ctx.pid, res['discharged'], res['obligations']))
            return 0
        print('VIOLATION property=%s replay=%s no-failing-input-found' % (ctx.pid, path))
        print('  proof obligation still broken: %s' % ', '.join(res.get('broken', ['?'])))
        return 1
    key = case['case_key']
    shutil.rmtree(ctx.workdir, ignore_errors=True)
    ctx2 = core.Ctx(ctx.pid, d.get('tier', 'quick'), d.get('seed', 0))
    try:
        run(ctx2, only=key)
    finally:
        shutil.rmtree(ctx2.workdir, ignore_errors=True)
    seen = set()
    for f, what in ctx2.known_hits:
        if f['id'] not in seen:
            seen.add(f['id'])
            print('KNOWN-FINDING: property=%s %s [%s]' % (ctx.pid, f.get('what', what), f['id']))
    if ctx2.violations:
        for v in ctx2.violations[:5]:
            print('VIOLATION property=%s replay=%s' % (ctx.pid, path))
            print('  ' + v['what'][:300].replace('\n', ' '))
            mo = (v.get('payload') or {}).get('model_output')
            if mo:
                print('  model: ' + str(mo)[:600].replace('\n', ' '))
        return 1
    print('replay: case %s no longer fails (seed %s, tier %s)' % (key, d.get('seed'), d.get('tier')))
    return 0
