"""C01 - fingerprints are invariant to rigid motion (and to reflection when stereo is off).  Properties/C01.v holds the
theorems about the model (every ring dictionary, hence exact reals); here: the model/implementation tie and the
metamorphic search on the implementation."""
import numpy as np
import core
import m1lib
import molfacts
import molgen
from props import c01_cov

# the 24 proper signed permutation matrices act exactly on grid coordinates
def _signed_perms():
    import itertools
    out = []
    for p in itertools.permutations(range(3)):
        for s in itertools.product((1, -1), repeat=3):
            M = np.zeros((3, 3), dtype=int)
            for i in range(3):
                M[i, p[i]] = s[i]
            out.append(M)
    return out


SP = _signed_perms()


def moved_case(c, M, t):
    """Same implementation observation, model input moved exactly by the integer matrix M and grid translation t."""
    from fractions import Fraction as Fr
    import copy
    d = copy.copy(c)
    d.facts = {'atoms': [dict(a) for a in c.facts['atoms']], 'bonds': c.facts['bonds']}
    for a in d.facts['atoms']:
        p = a['pos']
        a['pos'] = tuple(sum(int(M[i, j]) * p[j] for j in range(3)) + Fr(t[i]) for i in range(3))
    d.name = c.name + ' moved'
    return d


def _pose_run(m2, cid, o):
    """Observation of the moved conformer; an exception raised only in the moved pose is an observation too (it differs from the
    original's), not a crash of the check."""
    try:
        f1, obs1, k1 = molfacts.impl_run(m2, cid, o)
        return (k1, m1lib.all_level_ids(f1), m1lib.fp_multiset(f1, None, 1024))
    except Exception as e:  # noqa
        return (-1, {-1: ['raised %s: %s' % (type(e).__name__, str(e)[:200])]}, ())


def run(ctx):
    ok, res = core.proof_step(ctx)
    rng = ctx.rng
    found = False
    cases = m1lib.gen_cases(ctx, ctx.n(60, 1200))
    # threshold-directed inputs: symmetric centres whose mean neighbour vector is a moderate factor off the 0.1 A threshold
    sym_pool = [molgen.synthetic_symmetric(rng) for _ in range(ctx.n(40, 400))]
    sym = m1lib.gen_cases(ctx, ctx.n(30, 300), pool=sym_pool, opt_filter=lambda o: dict(o, stereo=True, level=max(1, o['level'] or 2), mult=max(o['mult'], 1.5), incl=True))
    ctx.coverage['input_distribution']['threshold_directed_cases'] = len(sym)
    cases += sym
    extra = []
    for c in cases:
        if c.err is None and rng.random() < 0.5:
            proper = [M for M in SP if round(np.linalg.det(M)) == 1]
            improper = [M for M in SP if round(np.linalg.det(M)) == -1]
            M = rng.choice(proper if (c.o['stereo'] or rng.random() < 0.5) else improper)
            t = [rng.randrange(-64, 64) / 16.0 for _ in range(3)]
            extra.append(moved_case(c, M, t))
    found |= m1lib.run_cases(ctx, cases + extra, 'C01 model/implementation tie (original and exactly moved inputs)') > 0
    # metamorphic search on the implementation: random SE(3) motions (all isometries when stereo is off)
    stats = {'motions': 0, 'reflections': 0, 'skipped_unstable': 0}
    pool = molgen.pool(rng, ctx.n(50, 600)) + [molgen.synthetic_symmetric(rng) for _ in range(ctx.n(25, 300))]
    # near-threshold inputs that are far OUTSIDE round-off: one pair distance at a relative 1e-3..1e-7 from a shell radius
    near = [molgen.near_radius_molecule(rng) for _ in range(ctx.n(30, 300))]
    stats['near_radius_molecules'] = len(near)
    fixed = {}
    for (name, m, cid, mult, level, delta) in near:
        pool.append((name, m, cid))
        fixed[name] = dict(mult=mult, level=level, incl=True)
    for (name, m, cid) in pool:
        o = molgen.rand_opts(rng)
        if name in fixed:
            o = dict(o, **fixed[name])
        if m1lib.is_unstable(m, cid, o):
            stats['skipped_unstable'] += 1
            continue
        r0 = m1lib.base_run(ctx, name, m, cid, o)
        if r0 is None:
            continue
        f0, obs0, k0 = r0
        base = (k0, m1lib.all_level_ids(f0), m1lib.fp_multiset(f0, None, 1024))
        for j in range(ctx.n(3, 12)):
            proper = o['stereo'] or rng.random() < 0.5
            M = m1lib.random_rotation(rng, proper=proper)
            t = np.array([rng.uniform(-20, 20) for _ in range(3)])
            m2 = m1lib.transformed(m, cid, M, t)
            if m1lib.is_unstable(m2, cid, o):
                stats['skipped_unstable'] += 1
                continue
            stats['motions'] += 1
            stats['reflections'] += 0 if proper else 1
            ctx.count(('motion', name, cid, str(o), j), k0 >= 1)
            got = _pose_run(m2, cid, o)
            if got != base:
                found = True
                from rdkit import Chem
                ctx.fail('fingerprint changed under a %s rigid motion' % ('proper' if proper else 'improper (stereo off)'),
                         {'name': name, 'conf': cid, 'opts': m1lib.opts_json(o), 'matrix': M.tolist(), 'translation': t.tolist(),
                          'molblock': Chem.MolToMolBlock(m, confId=cid), 'levels_before': {str(k): v for k, v in base[1].items()},
                          'levels_after': {str(k): v for k, v in got[1].items()}}, finding_key='C01:motion')
    # exact motions on the implementation: signed axis permutations and grid translations are EXACT in floating point on gridded
    # coordinates, so the two poses are the same rational geometry and the outputs must be identical whatever the round-off; the
    # poses are axis-aligned and (for the flat molecules) lie exactly in a coordinate plane - the orientations in which special
    # cases of vector code (parallel / anti-parallel to a lab axis, zero components) are taken
    from rdkit import Chem
    from rdkit.Chem import AllChem
    estats = {'exact_motions': 0, 'flat_molecules': 0, 'skipped_unstable': 0}
    flat_pool = []
    for smi in ['Cn1cnc2c1c(=O)n(C)c(=O)n2C', 'c1ccccc1', 'c1ccncc1', 'CC(=O)Oc1ccccc1C(=O)O', 'c1ccc2ccccc2c1', 'C=C=C', 'CC#CC', 'O=C=O',
                'NC(=O)c1cccnc1', 'CC(C)Cc1ccc(cc1)C(C)C(=O)O', 'ClC=CCl', 'OCC(O)CO', 'F[C@](Cl)(Br)I', 'C[C@H](N)C(=O)O']:
        fm = Chem.MolFromSmiles(smi)
        AllChem.Compute2DCoords(fm)                      # all atoms in the plane z = 0
        fm.SetProp('_Name', 'flat')
        flat_pool.append(('flat ' + smi, molfacts.gridded(fm), 0))
    epool = list(flat_pool)
    for (name, m, cid) in molgen.pool(rng, ctx.n(10, 120), with_shipped=False):
        epool.append((name, molfacts.gridded(m, conf_ids=[cid]), cid))
    proper_sp = [M for M in SP if round(np.linalg.det(M)) == 1]
    improper_sp = [M for M in SP if round(np.linalg.det(M)) == -1]
    for (name, m, cid) in epool:
        for o in [molgen.rand_opts(rng) for _ in range(ctx.n(2, 6))]:
            if name.startswith('flat'):
                o = dict(o, stereo=True if rng.random() < 0.8 else o['stereo'], level=max(2, o['level'] or 2))
            if m1lib.is_unstable(m, cid, o):
                estats['skipped_unstable'] += 1
                continue
            r0 = m1lib.base_run(ctx, name, m, cid, o)
            if r0 is None:
                continue
            f0, obs0, k0 = r0
            base = (k0, m1lib.all_level_ids(f0), m1lib.fp_multiset(f0, None, 1024))
            estats['flat_molecules'] += 1 if name.startswith('flat') else 0
            Ms = list(proper_sp) + ([] if o['stereo'] else rng.sample(improper_sp, 6))
            if ctx.quick:
                Ms = rng.sample(Ms, 10)
            for M in Ms:
                t = np.array([rng.randrange(-64, 64) / 16.0 for _ in range(3)]) if rng.random() < 0.5 else np.zeros(3)
                m2 = m1lib.transformed(m, cid, M.astype(float), t)
                estats['exact_motions'] += 1
                ctx.count(('exact-motion', name, cid, str(o), str(M.tolist()), str(t.tolist())), k0 >= 1)
                got = _pose_run(m2, cid, o)
                if got != base:
                    found = True
                    ctx.fail('fingerprint changed under an EXACT axis-permutation motion (%s)' % ('proper' if round(np.linalg.det(M)) == 1 else 'improper, stereo off'),
                             {'name': name, 'conf': cid, 'opts': m1lib.opts_json(o), 'matrix': M.tolist(), 'translation': t.tolist(),
                              'molblock': Chem.MolToMolBlock(m, confId=cid), 'levels_before': {str(k): v for k, v in base[1].items()},
                              'levels_after': {str(k): v for k, v in got[1].items()}}, finding_key='C01:motion')
                    break
    ctx.coverage['input_distribution']['exact_axis_motions'] = estats
    ctx.coverage['input_distribution']['metamorphic'] = stats
    # coverage extension (props/c01_cov.py): exactly right-angled / collinear / planar / lattice geometries, wide option values, motion
    # classes, call patterns, every get_fingerprint_at_level query, single shells against Model/Stereo.v, array_ops helpers
    found |= c01_cov.run_all(ctx)
    ctx.coverage['rule'] = ('tie: gridded (molecule, conformer, options) cases, half of them also with the model input moved by an exact signed-permutation '
                            'rotation (reflection when stereo is off) and a grid translation, the implementation observation being that of the unmoved input; '
                            'search: implementation re-run under random rotations+translations (reflections when stereo off) comparing every level\'s identifier '
                            'multiset, current_level and a folded fingerprint; non-trivial: reaches level >= 1.  Extension (c01_cov.py): the same tie on '
                            'exactly right-angled / collinear / planar / lattice geometries and on option values outside the menu; stereo codes of single '
                            'synthetic shells against Model/Stereo.v `codes` and under random motions; 15 motion classes x 7 call patterns x bit/count '
                            'fingerprinters with every level queried (folded, unfolded, masked); exact motions of exactly tied geometries; equivariance '
                            'of the array_ops helpers')
    ctx.assumptions += ['floating point: the theorem is about exact arithmetic; inputs within 2^-30 of a decision threshold are tagged (harness/m1_spec.py) and skipped, as the property\'s quantifier excludes them']
    if not ok:
        core.report_broken_proof(ctx, res, found)


def replay(ctx, path):
    r = c01_cov.replay(ctx, path)
    return m1lib.replay_case(ctx, path) if r is None else r
