"""C01, coverage extension (part module of c01.py; audit table in work/coverage_C01.md).

Input classes, motion classes, call sequences and observation points that the first generators of c01.py (shared SMILES / SDF pool
with the seven options of molgen.rand_opts, one random rotation + translation in [-20, 20] A per pose, a fresh bit Fingerprinter with
bits = 2^32 per pose, one query folded to 1024) did not draw.  Everything here is INSIDE C01's quantifier: geometry that sits within
2^-30 of a decision threshold is tagged by the exact-arithmetic transcript (harness/m1_spec.py) and skipped, and so are the three
exact degeneracies that the transcript decides by `==` but floating point cannot (see `strict_stereo_codes`, `radius_tie`).

  molecules   exactly right-angled centres built on integer orthogonal frames (the `perfect right angle` EPS snap, antipodal = polar
              neighbours, mean vector exactly 0), exactly collinear chains, exactly planar 2-D layouts (scaled, so that no distance
              equals a shell radius) - now under RANDOM motions and in the model tie, not only under the cube group; cubic lattices
              (distance == shell radius exactly) in the model tie and under exact motions; two heavy atoms on the same point
              (cent_overlap_indices; implementation only, the model's domain excludes it);
  options     radius multipliers that are arbitrary floats, Python ints and numpy.float64, levels up to 20 and numpy.int64 levels,
              constructor bits 2 .. 2^32, bit AND count fingerprinters, positional and keyword construction;
  motions     pure translations, pure rotations, rotations by 1e-1 .. 1e-7 rad, half turns, the point inversion, mirror planes
              (random and lab planes), translations by thousands of Angstrom, compositions, there-and-back round trips, and poses
              that put a bond of a 3-D molecule EXACTLY on a signed lab axis with a third atom exactly in a lab plane (the
              orientations in which vector code meets zeros / parallel / anti-parallel special cases);
  calls       run(id, mol), run(conf=, mol=), run(Conformer) without mol, run(mol=) alone, a non-contiguous conformer id, one Fingerprinter reused over the poses,
              the posed conformer stored as a SECOND CONFORMER of the same molecule object (reset_conf path), A B A on one object;
  observed    current_level, every level's identifier multiset, and get_fingerprint_at_level at every level / None / -1 / beyond the
              last one, unfolded and folded, with atom masks, exact=True, on bit and count fingerprinters;
  functions   stereo_indicators_from_shell (pick_y, pick_z, quad_indicators_from_coords, get_first_unique_tuple_inds) called
              directly on thousands of synthetic neighbour shells (duplicate keys, mean-vector lengths around 0.1 A, mirror pairs in
              one 0.01 rad bin, atoms 0.2 .. 3 degrees inside / outside the polar cone, azimuths 1e-2 .. 1e-5 rad from a quadrant edge,
              exact right angles, planar and collinear shells): compared with the Coq model `Stereo.codes` AND re-run under random
              rotations + translations; array_ops.{as_unit, make_distance_matrix, project_to_plane, calculate_angles, rotate_angles}
              checked for equivariance directly (1-D and 2-D arguments, zero vectors, parallel / anti-parallel references)."""
import itertools
import math
import os
from fractions import Fraction as Fr

import numpy as np

import core
import fpgen
import m1lib
import m1_spec
import molfacts
import molgen


# ============================================================================================== stability tags
class Degenerate(m1_spec.Unstable):
    """An exact tie that the transcript decides by `==` while floating point decides it by round-off."""


DEG2 = Fr(1, 1 << 40)          # sin^2 of the angle between the z atom and the y axis below which z is numerical noise


def strict_stereo_codes(K, tuples, vecs, branch=None, allow_zero=False):
    """m1_spec.stereo_codes (same decisions, same margins) that additionally raises `Degenerate` when
      * the neighbour chosen as z atom lies (within 1e-6 rad) ON the y axis while the code of some other neighbour is read off z:
        z is then the projection of a polar atom, i.e. exactly zero / pure round-off, and every azimuth is 0/0 - the point where
        all quadrant edges meet;
      * a neighbour sits exactly on a quadrant edge (a^2 |y|^2 == b^2).
    Both are `within round-off of a quadrant edge`, which the property's quantifier excludes; the transcript's relative margin
    cannot see them because both sides of the comparison are exactly equal.
    With allow_zero, neighbours that sit exactly ON the centre atom are treated as Model/Stereo.v and the code under test treat them
    (code 0, never the z atom, part of the mean) instead of being rejected; a y atom on the centre stays rejected."""
    dot, sub, add, scl, det, gt, ge0, first_unique = (m1_spec.dot, m1_spec.sub, m1_spec.add, m1_spec.scl, m1_spec.det, m1_spec.gt,
                                                      m1_spec.ge0, m1_spec.first_unique)
    n = len(tuples)
    if n == 0:
        return []
    zero = [v == (0, 0, 0) for v in vecs]
    if any(zero) and not allow_zero:
        raise m1_spec.Unstable()
    yi = first_unique(tuples)
    y = None
    y_ind = None
    if yi is not None:
        y, y_ind, kind = vecs[yi], yi, 'unique'
    elif n == 2:
        y, y_ind, kind = vecs[0], 0, 'two'
    else:
        s = (0, 0, 0)
        for v in vecs:
            s = add(s, v)
        lhs, rhs = dot(s, s), K.yprec2 * n * n
        if lhs != rhs and abs(lhs - rhs) <= m1_spec.TOL * 64 * (lhs + rhs):
            raise m1_spec.Unstable()
        if lhs >= rhs:
            y, kind = s, 'mean'
        else:
            kind = 'none'
    if branch is not None:
        branch['y_' + kind] = branch.get('y_' + kind, 0) + 1
    codes = [0] * n
    if y is None:
        return codes
    if y_ind is not None and zero[y_ind]:
        raise Degenerate('y atom on the centre')
    mask = [not z for z in zero]
    if y_ind is not None:
        mask[y_ind] = False
    yy = dot(y, y)
    uy = [dot(v, y) for v in vecs]
    uu = [dot(v, v) for v in vecs]
    for i in range(n):
        if uy[i] != 0 and uy[i] * uy[i] <= m1_spec.TOL * uu[i] * yy:
            raise m1_spec.Unstable()
        if uy[i] == 0 and branch is not None:
            branch['right_angle'] = branch.get('right_angle', 0) + 1
    sign = [1 if u >= 0 else -1 for u in uy]

    def bin_of(i):
        s2 = Fr(uy[i] * uy[i])
        den = uu[i] * yy
        k = 0
        for t in K.sin2:
            if gt(t * den, s2):
                break
            k += 1
        return k
    cand = sorted((bin_of(i), tuples[i][0], tuples[i][1], i) for i in range(n) if mask[i])
    zi = first_unique([c[:2] for c in cand])
    pole = [(not zero[i]) and gt(Fr(uy[i] * uy[i]), K.cos2cone * uu[i] * yy) for i in range(n)]
    if branch is not None:
        key = 'z_' + ('unique' if zi is not None else 'none')
        branch[key] = branch.get(key, 0) + 1
        branch['pole'] = branch.get('pole', 0) + sum(pole)
    if zi is not None:
        m = cand[zi][3]
        Z = sub(scl(yy, vecs[m]), scl(uy[m], y))
        reads_z = [i for i in range(n) if i != y_ind and not pole[i] and not zero[i]]
        if reads_z and dot(Z, Z) <= DEG2 * yy * yy * yy * uu[m]:
            raise Degenerate('z atom on the y axis')
        for i in range(n):
            v = vecs[i]
            if i == y_ind:
                q = 2
            else:
                a = dot(v, Z)
                b = det(y, Z, v)
                lhs = a * a * yy
                rhs = b * b
                if lhs == rhs and not pole[i] and not zero[i]:
                    raise Degenerate('quadrant edge')
                if lhs == 0 and rhs == 0:
                    q = 2
                elif gt(lhs, rhs):
                    if not pole[i]:
                        ge0(a, 1)
                    q = 2 if a > 0 else 4
                else:
                    q = 5 if b > 0 else 3
            codes[i] = q * sign[i]
    for i in range(n):
        if pole[i]:
            codes[i] = sign[i]
        if zero[i]:
            codes[i] = 0
    return codes


def radius_tie(facts, o):
    """Some retained pair sits at EXACTLY k * multiplier: decided alike in exact and floating-point arithmetic on this pose and on
    every exactly moved one (<=), but by round-off after an inexact motion."""
    si = molfacts.spec_inputs(facts, o)
    if si is None or not si[0]:
        return False
    ids, pos = si[0], si[3]
    mult = Fr(float(o['mult']))
    if mult <= 0:
        return False
    for a, b in itertools.combinations(ids, 2):
        d = m1_spec.sub(pos[a], pos[b])
        d2 = m1_spec.dot(d, d)
        k = int(round(math.sqrt(float(d2)) / float(mult)))
        for kk in (k - 1, k, k + 1):
            if kk >= 1 and d2 == (kk * mult) ** 2:
                return True
    return False


def tag(mol, cid, o, exact_motion=False, branch=None):
    """None when (molecule, conformer, options) is inside the quantifier for the comparison at hand, else the reason it is not."""
    facts = molfacts.mol_facts(mol, cid)
    orig = m1_spec.stereo_codes
    m1_spec.stereo_codes = strict_stereo_codes      # run_spec resolves the name at call time; restored below
    try:
        molfacts.run_spec(facts, o, branch=branch)
    except Degenerate:
        return 'degenerate'
    except m1_spec.Unstable:
        return 'unstable'
    finally:
        m1_spec.stereo_codes = orig
    if not exact_motion and radius_tie(facts, o):
        return 'radius_tie'
    return None


# ============================================================================================== molecules
FLAT_SMILES = ['Cn1cnc2c1c(=O)n(C)c(=O)n2C', 'c1ccccc1', 'c1ccncc1', 'CC(=O)Oc1ccccc1C(=O)O', 'c1ccc2ccccc2c1', 'NC(=O)c1cccnc1',
               'CC(C)Cc1ccc(cc1)C(C)C(=O)O', 'ClC=CCl', 'OCC(O)CO', 'C[C@H](N)C(=O)O', 'O=C1C=CC(=O)C=C1', 'c1ccc(cc1)-c1ccccc1',
               'CC(=O)[O-].[Na+]', 'Cc1ccccc1.O', 'C1CC1', 'FB(F)F', 'N#Cc1ccccc1', 'C/C=C/C']
LINEAR_SMILES = ['C#N', 'O=C=O', 'C=C=C', 'CC#CC', 'N#CC#N', 'C#CC#C', 'S=C=O', 'CC#N', 'FC#CCl', 'CC', 'ClC#CC#N']
TRIPLES = [((1, 2, 2), (2, 1, -2), (2, -2, 1), [Fr(1, 2), Fr(9, 16), Fr(5, 8)]),
           ((2, 3, 6), (3, -6, 2), (6, 2, -3), [Fr(1, 4), Fr(7, 32)]),
           ((1, 4, 8), (4, 7, -4), (8, -4, 1), [Fr(3, 16), Fr(11, 64)]),
           ((1, 0, 0), (0, 1, 0), (0, 0, 1), [Fr(3, 2), Fr(7, 4), Fr(13, 8)])]
CENTRES = {2: ['O', 'S'], 3: ['N', 'B', 'P'], 4: ['C', 'Si'], 5: ['P'], 6: ['S']}
SUBST = ['F', 'Cl', 'Br', 'I', 'C', 'C', 'O', 'N', 'F', 'Cl']


def _set_conf(m, pos, name):
    from rdkit import Chem
    from rdkit.Geometry import Point3D
    conf = Chem.Conformer(m.GetNumAtoms())
    for i, p in pos.items():
        conf.SetAtomPosition(i, Point3D(float(p[0]), float(p[1]), float(p[2])))
    m.RemoveAllConformers()
    m.AddConformer(conf, assignId=True)
    m.SetProp('_Name', name)
    return m


def ortho_molecule(rng):
    """(name, mol, conf_id): a centre whose 2-6 neighbours sit on the signed axes of an integer orthogonal frame (generally not a lab
    frame), at exactly representable distances: every neighbour pair is at exactly 90 or 180 degrees.  With 0-3 further atoms in
    generic (grid) positions.  The `perfect right angle` snap, anti-parallel (polar) neighbours and mean vectors that are exactly
    zero are decided here; such centres are what idealised / built geometries contain."""
    from rdkit import Chem
    while True:
        u, v, w, scales = rng.choice(TRIPLES)
        n = rng.choice([2, 3, 3, 4, 4, 5, 6, 6])
        dirs = [tuple(s * c for c in d) for d in (u, v, w) for s in (1, -1)]
        rng.shuffle(dirs)
        dirs = dirs[:n]
        same_len = rng.random() < 0.5
        sc0 = rng.choice(scales)
        few = rng.sample(SUBST, rng.choice([1, 2, 3])) if rng.random() < 0.6 else SUBST
        rw = Chem.RWMol()
        c = rw.AddAtom(Chem.Atom(rng.choice(CENTRES[n])))
        origin = tuple(Fr(rng.randrange(-80, 80), 16) for _ in range(3))
        pos = {c: origin}
        subs = []
        for d in dirs:
            i = rw.AddAtom(Chem.Atom(rng.choice(few)))
            rw.AddBond(c, i, Chem.BondType.SINGLE)
            sc = sc0 if same_len else rng.choice(scales)
            pos[i] = tuple(origin[k] + sc * d[k] for k in range(3))
            subs.append(i)
        ok = True
        for _ in range(rng.choice([0, 0, 1, 2, 3])):
            cands = [i for i in subs if rw.GetAtomWithIdx(i).GetSymbol() in ('C', 'N', 'O') and rw.GetAtomWithIdx(i).GetDegree() < 3]
            if not cands:
                break
            p = rng.choice(cands)
            for _try in range(20):
                g = np.array([rng.gauss(0, 1) for _ in range(3)])
                g = g / np.linalg.norm(g) * rng.uniform(1.3, 1.6)
                q = tuple(pos[p][k] + Fr(int(round(g[k] * 256)), 256) for k in range(3))
                if all(sum(float(q[k] - r[k]) ** 2 for k in range(3)) > 1.0 for r in pos.values()):
                    break
            else:
                ok = False
                break
            i = rw.AddAtom(Chem.Atom(rng.choice(['C', 'O', 'N', 'F'])))
            rw.AddBond(p, i, Chem.BondType.SINGLE)
            pos[i] = q
            subs.append(i)
        if not ok:
            continue
        try:
            m = rw.GetMol()
            Chem.SanitizeMol(m)
        except Exception:  # noqa  (valence of the drawn substituents)
            continue
        name = 'ortho %s frame %s' % (Chem.MolToSmiles(m), str(u))
        return (name, _set_conf(m, pos, 'ortho'), 0)


LINE_STEPS = {1: (Fr(3, 8), [3, 4]), 3: (Fr(1, 8), [3, 4]), 7: (Fr(1, 16), [3]), 9: (Fr(1, 32), [4, 5])}


def linear_molecule(rng):
    """(name, mol, conf_id): all atoms EXACTLY on one line (direction an integer vector of integer length, bond lengths a whole
    number of exactly representable steps, 1.1 - 1.5 A)."""
    from rdkit import Chem
    smi = rng.choice(LINEAR_SMILES)
    m = Chem.MolFromSmiles(smi)
    u = rng.choice(TRIPLES)[rng.randrange(3)]
    L = int(round(math.sqrt(sum(x * x for x in u))))
    step, per_bond = LINE_STEPS[L]
    s = rng.choice([1, -1])
    origin = tuple(Fr(rng.randrange(-80, 80), 16) for _ in range(3))
    pos, t = {}, 0
    for i in range(m.GetNumAtoms()):
        pos[i] = tuple(origin[k] + s * t * step * u[k] for k in range(3))
        t += rng.choice(per_bond)
    return ('linear %s along %s' % (smi, str(u)), _set_conf(Chem.Mol(m), pos, 'linear'), 0)


def flat_molecule(rng, scaled=True):
    """(name, mol, conf_id): RDKit's 2-D layout (every atom in the plane z = 0), optionally scaled so that the layout's 1.5 A bonds
    and their multiples do not coincide with shell radii, rounded to the 2^-16 grid."""
    from rdkit import Chem
    from rdkit.Chem import AllChem
    from rdkit.Geometry import Point3D
    smi = rng.choice(FLAT_SMILES)
    m = Chem.MolFromSmiles(smi)
    AllChem.Compute2DCoords(m)
    sc = rng.choice([0.93, 0.957, 1.04]) if scaled else 1.0
    conf = m.GetConformer()
    for i in range(m.GetNumAtoms()):
        p = conf.GetAtomPosition(i)
        conf.SetAtomPosition(i, Point3D(p.x * sc, p.y * sc, 0.0))
    m.SetProp('_Name', 'flat')
    return ('flat %s x%.3f' % (smi, sc), molfacts.gridded(m), conf.GetId())


def near_radius(rng, lo=3.0, hi=8.3):
    """molgen.near_radius_molecule with offsets down to 5e-9: (name, mol, conf_id, fixed options).  One heavy-atom pair sits at a relative
    10^-lo .. 10^-hi (either sign) from the shell radius k * multiplier; 5e-9 in the distance is 1e-8 in the squared distance the exact
    transcript compares, ten times its 2^-30 tag and 10^7 times double round-off."""
    from rdkit import Chem
    from rdkit.Geometry import Point3D
    while True:
        smi = rng.choice(molgen.SMILES)
        m = molgen.embedded(smi, nconf=2, seed=rng.choice([3, 11]), keep_hs=rng.random() < 0.5)
        if m is None:
            continue
        heavy = [a.GetIdx() for a in m.GetAtoms() if a.GetAtomicNum() > 1]
        if len(heavy) < 3:
            continue
        m = Chem.Mol(m)
        cid = rng.randrange(m.GetNumConformers())
        conf = m.GetConformer(cid)
        a, b = rng.sample(heavy, 2)
        pa, pb = conf.GetAtomPosition(a), conf.GetAtomPosition(b)
        d = float(np.linalg.norm(np.array([pa.x - pb.x, pa.y - pb.y, pa.z - pb.z])))
        if d < 0.5:
            continue
        mult = rng.choice([1.0, 1.5, 1.718, 2.0, 1.37])
        level = rng.choice([2, 3, 4, 5])
        k = min(level, max(1, int(round(d / mult))))
        delta = rng.choice([1, -1]) * 10.0 ** (-rng.uniform(lo, hi))
        sc = k * mult * (1 + delta) / d
        for i in range(m.GetNumAtoms()):
            p = conf.GetAtomPosition(i)
            conf.SetAtomPosition(i, Point3D(p.x * sc, p.y * sc, p.z * sc))
        return ('%s scaled: d(%d,%d) = %d*%g*(1%+.1e)' % (smi, a, b, k, mult, delta), m, cid, dict(mult=mult, level=level, incl=True))


def wide_opts(rng):
    """Option settings outside molgen.rand_opts' menu (all legal)."""
    o = molgen.rand_opts(rng)
    r = rng.random()
    if r < 0.40:
        o['mult'] = round(rng.uniform(0.3, 1.0) if rng.random() < 0.12 else rng.uniform(1.0, 4.0), rng.choice([1, 2, 3, 6]))
    elif r < 0.52:
        o['mult'] = rng.choice([1, 2, 3])                                    # a Python int
    elif r < 0.62:
        o['mult'] = np.float64(rng.choice([1.25, 1.718, 2.5, 0.75]))
    elif r < 0.66:
        o['mult'] = rng.choice([0.1, 0.25, 6.0, 6.0, 10.0])                  # nothing / everything in the first shell
    r = rng.random()
    if r < 0.15:
        o['level'] = rng.choice([7, 8, 10, 20])
    elif r < 0.25 and o['level'] not in (None,):
        o['level'] = np.int64(o['level'])
    if o['level'] in (-1, None):
        o['remdup'] = True
    return o


def deepen(rng, o, p_stereo=0.7):
    """Options under which the special geometries are actually decided: stereo mostly on, at least two levels, shells that reach
    the neighbours (types of the drawn values kept)."""
    o = dict(o, stereo=True if rng.random() < p_stereo else False)
    if o['level'] not in (None, -1) and o['level'] < 2:
        o['level'] = type(o['level'])(rng.choice([2, 3, 5]))
    if o['mult'] < 1.2:
        o['mult'] = type(o['mult'])(rng.choice([2, 3])) if isinstance(o['mult'], int) else type(o['mult'])(rng.choice([1.5, 1.718, 2.0, 2.37]))
    return o


CTOR_BITS = [2 ** 32, 2 ** 32, 2 ** 32, 2 ** 20, 4096, 1024, 64, 2]


def new_fprinter(rng, o, bits, counts):
    from e3fp.fingerprint.fprinter import Fingerprinter
    if rng.random() < 0.25:     # positional, in the order of the signature
        return Fingerprinter(bits, o['level'], o['mult'], o['stereo'], counts, o['incl'], o['rdkit'], o['exfloat'], o['remdup'])
    return Fingerprinter(bits=bits, level=o['level'], radius_multiplier=o['mult'], stereo=o['stereo'], counts=counts,
                         include_disconnected=o['incl'], rdkit_invariants=o['rdkit'], exclude_floating=o['exfloat'],
                         remove_duplicate_substructs=o['remdup'])


def opts_json(o):
    d = {}
    for k in molgen.OPT_KEYS:
        v = o[k]
        d[k] = (None if v is None else int(v)) if k == 'level' else (float(v) if k == 'mult' else v)
    d['mult_type'] = type(o['mult']).__name__
    d['level_type'] = type(o['level']).__name__
    return d


# ============================================================================================== motions
def _unit(rng):
    v = np.array([rng.gauss(0, 1) for _ in range(3)])
    return v / np.linalg.norm(v)


def _axis_angle(n, a):
    K = np.array([[0, -n[2], n[1]], [n[2], 0, -n[0]], [-n[1], n[0], 0]])
    return np.eye(3) + math.sin(a) * K + (1 - math.cos(a)) * K.dot(K)


MOTIONS_PROPER = ['generic', 'generic', 'translation', 'rotation', 'small', 'halfturn', 'far', 'compose', 'roundtrip', 'axis', 'axis']
MOTIONS_IMPROPER = ['generic-improper', 'inversion', 'mirror', 'mirror-lab', 'axis-improper']


def coords_of(mol, cid):
    conf = mol.GetConformer(cid)
    return np.array([[conf.GetAtomPosition(i).x, conf.GetAtomPosition(i).y, conf.GetAtomPosition(i).z] for i in range(mol.GetNumAtoms())])


def with_coords(mol, cid, X):
    from rdkit import Chem
    from rdkit.Geometry import Point3D
    m = Chem.Mol(mol)
    conf = m.GetConformer(cid)
    for i in range(m.GetNumAtoms()):
        conf.SetAtomPosition(i, Point3D(float(X[i, 0]), float(X[i, 1]), float(X[i, 2])))
    return m


def pose(rng, mol, cid, kind, far=3000.0, vfar=1e5):
    """(posed copy of mol, json-able description) for one motion class."""
    X = coords_of(mol, cid)
    t = np.array([rng.uniform(-20, 20) for _ in range(3)])
    desc = {'kind': kind}
    if kind in ('generic', 'generic-improper'):
        M = m1lib.random_rotation(rng, proper=(kind == 'generic'))
    elif kind == 'translation':
        M = np.eye(3)
    elif kind == 'rotation':
        M, t = m1lib.random_rotation(rng), np.zeros(3)
    elif kind == 'small':
        M = _axis_angle(_unit(rng), 10.0 ** (-rng.uniform(1, 7)))
        t = t * rng.choice([0.0, 1e-3, 1.0])
    elif kind == 'halfturn':
        n = _unit(rng)
        M = 2 * np.outer(n, n) - np.eye(3)
    elif kind == 'far':
        M = m1lib.random_rotation(rng)
        t = np.array([rng.uniform(-far, far) for _ in range(3)])
    elif kind == 'very-far':
        M = m1lib.random_rotation(rng)
        t = np.array([rng.uniform(-vfar, vfar) for _ in range(3)])
    elif kind == 'inversion':
        M = -np.eye(3)
    elif kind == 'mirror':
        n = _unit(rng)
        M = np.eye(3) - 2 * np.outer(n, n)
    elif kind == 'mirror-lab':
        M = np.eye(3)
        k = rng.randrange(3)
        M[k, k] = -1.0
        t = t * rng.choice([0.0, 1.0])
    elif kind == 'compose':
        M1, M2 = m1lib.random_rotation(rng), m1lib.random_rotation(rng)
        t1 = np.array([rng.uniform(-20, 20) for _ in range(3)])
        Y = (X.dot(M1.T) + t1).dot(M2.T) + t
        desc.update(matrix=M1.tolist(), translation=t1.tolist(), matrix2=M2.tolist(), translation2=t.tolist())
        return with_coords(mol, cid, Y), desc
    elif kind == 'roundtrip':
        M = m1lib.random_rotation(rng)
        Y = (X.dot(M.T) + t - t).dot(M)                     # there and back: the original up to round-off
        desc.update(matrix=M.tolist(), translation=t.tolist())
        return with_coords(mol, cid, Y), desc
    elif kind in ('axis', 'axis-improper'):
        heavy = [a.GetIdx() for a in mol.GetAtoms() if a.GetAtomicNum() > 1]
        if len(heavy) < 3:
            return pose(rng, mol, cid, 'generic' if kind == 'axis' else 'generic-improper', far)
        c = rng.choice(heavy)
        nb = [x.GetIdx() for x in mol.GetAtomWithIdx(c).GetNeighbors() if x.GetAtomicNum() > 1]
        others = [h for h in heavy if h != c]
        a = rng.choice(nb) if nb and rng.random() < 0.8 else rng.choice(others)
        b = rng.choice([h for h in others if h != a])
        e1 = X[a] - X[c]
        e2 = X[b] - X[c]
        l1 = np.linalg.norm(e1)
        e2p = e2 - e1 * (e1.dot(e2) / (l1 * l1))
        if l1 < 1e-6 or np.linalg.norm(e2p) < 1e-3 * np.linalg.norm(e2):
            return pose(rng, mol, cid, 'generic' if kind == 'axis' else 'generic-improper', far)
        f1, f2 = e1 / l1, e2p / np.linalg.norm(e2p)
        f3 = np.cross(f1, f2)
        i, j, k = rng.sample(range(3), 3)
        s1, s2 = rng.choice([1, -1]), rng.choice([1, -1])
        T = np.zeros((3, 3))
        T[i] = s1 * f1
        T[j] = s2 * f2
        T[k] = f3
        want = 1 if kind == 'axis' else -1
        if (np.linalg.det(T) > 0) != (want > 0):
            T[k] = -f3
        tg = np.array([rng.randrange(-64, 64) / 16.0 for _ in range(3)]) * rng.choice([0, 1, 1])
        Y = (X - X[c]).dot(T.T) + tg
        # snap: centre exactly on the grid point, the bond c-a exactly on the signed lab axis i, atom b exactly in the lab plane (i, j)
        Y[c] = tg
        Y[a] = tg
        Y[a, i] = tg[i] + s1 * l1
        Y[b, k] = tg[k]
        desc.update(matrix=T.tolist(), translation=tg.tolist(), centre=c, on_axis=[a, int(s1 * (i + 1))], in_plane=b)
        return with_coords(mol, cid, Y), desc
    else:
        raise ValueError(kind)
    desc.update(matrix=M.tolist(), translation=t.tolist())
    return with_coords(mol, cid, X.dot(M.T) + t), desc


# ============================================================================================== observations
def query_plan(rng, k, retained, ctor_bits):
    """[(level, bits, mask, exact)] asked of the original and of every pose."""
    qs = [(None, None, (), False), (-1, None, (), False)]
    for lv in range(0, k + 1):
        qs.append((lv, rng.choice([None, 1024, ctor_bits]), (), rng.random() < 0.3))
    qs.append((k + 2, None, (), False))
    qs.append((k + 1, None, (), True))                       # IndexError on both sides
    small = [b for b in (32, 64, 1024, 4096, 2 ** 20) if b <= ctor_bits]
    for _ in range(3):
        mask = tuple(sorted(rng.sample(retained, min(len(retained), rng.choice([1, 1, 2, 3]))))) if retained else ()
        qs.append((rng.choice([None, 0, 1, k]), rng.choice(small) if small and rng.random() < 0.6 else None, mask, False))
    return qs


def observe(f, queries):
    out = [('current_level', None if f.current_level is None else int(f.current_level)),
           ('levels', tuple(sorted((int(l), tuple(sorted(int(s.identifier) for s in sh))) for l, sh in f.level_shells.items())))]
    for (lv, bits, mask, exact) in queries:
        r = fpgen.attempt(lambda: f.get_fingerprint_at_level(level=lv, bits=bits, exact=exact, atom_mask=set(mask)))
        if r[0] == 'ok':
            ob = fpgen.obs(r[1])
            r = ('ok', (ob['kind'], ob['bits'], ob['level'], tuple(ob['idx']), tuple((i, str(c)) for i, c in ob['cnt'])))
        out.append((('query', lv, bits, mask, exact), r))
    return out


def first_difference(a, b):
    for x, y in zip(a, b):
        if x != y:
            return {'what': str(x[0]), 'original': str(x[1])[:1500], 'moved': str(y[1])[:1500]}
    return {'what': 'length', 'original': len(a), 'moved': len(b)}


CALLS = ['fresh', 'fresh', 'reused', 'conf-object', 'conf-object+mol', 'mol-only', 'gapped-id', 'second-conformer', 'aba']


def run_pose(rng, call, o, bits, counts, m2, cid, state):
    """Fingerprint the posed molecule through one call pattern; `state` carries the objects that live across the poses of one case
    (the reused Fingerprinter, the molecule object that collects posed conformers)."""
    from rdkit import Chem
    if call == 'fresh':
        f = new_fprinter(rng, o, bits, counts)
        f.run(cid, m2)
    elif call in ('reused', 'aba'):
        f = state['f']
        f.run(conf=cid, mol=m2)
    elif call == 'conf-object':
        f = new_fprinter(rng, o, bits, counts)
        state['keep'] = m2                                   # the conformer's owner must stay alive
        f.run(m2.GetConformer(cid))
    elif call == 'conf-object+mol':
        f = state['f'] if rng.random() < 0.5 else new_fprinter(rng, o, bits, counts)
        f.run(m2.GetConformer(cid), m2)
    elif call == 'mol-only':
        m1c = Chem.Mol(m2, False, cid)
        m1c.GetConformer().SetId(0)
        f = new_fprinter(rng, o, bits, counts)
        f.run(mol=m1c)
    elif call == 'gapped-id':
        m1c = Chem.Mol(m2, False, cid)
        newid = rng.choice([7, 12, 1000])
        m1c.GetConformer().SetId(newid)
        f = new_fprinter(rng, o, bits, counts)
        f.run(newid, m1c)
    elif call == 'second-conformer':
        mm, f = state['multi'], state['fmulti']
        conf = Chem.Conformer(m2.GetConformer(cid))
        newid = mm.AddConformer(conf, assignId=True)
        f.run(newid, mm)                                     # the same molecule object: only reset_conf
    else:
        raise ValueError(call)
    return f


# ============================================================================================== stream 1: motions on molecules
def metamorphic(ctx):
    """Implementation-level search: (molecule, options, bits, counts) x motion class x call pattern."""
    from rdkit import Chem
    rng = ctx.rng
    st = {'cases': 0, 'poses': 0, 'skipped': {}, 'by_motion': {}, 'by_call': {}, 'by_pool': {}, 'count_fingerprinters': 0,
          'nondefault_ctor_bits': 0, 'queries_compared': 0, 'branches': {}}
    n = ctx.n(120, 250)
    makers = [('pool', lambda: molgen.pool(rng, 1)[0]), ('pool', lambda: molgen.pool(rng, 1)[0]),
              ('flat', lambda: flat_molecule(rng)), ('ortho', lambda: ortho_molecule(rng)), ('ortho', lambda: ortho_molecule(rng)),
              ('linear', lambda: linear_molecule(rng)), ('symmetric', lambda: molgen.synthetic_symmetric(rng)),
              ('near-radius', lambda: near(rng)), ('near-radius', lambda: near(rng))]
    fixed = {}

    def near(rng):
        name, m, cid, fo = near_radius(rng)
        fixed[name] = fo
        return (name, m, cid)
    special = ('ortho', 'flat', 'linear')
    found = False
    tries = 0
    while st['cases'] < n and tries < 6 * n:
        tries += 1
        pname, mk = rng.choice(makers)
        name, m, cid = mk()
        o = wide_opts(rng)
        if pname in ('flat', 'ortho', 'linear', 'symmetric'):
            o = deepen(rng, o)
        if pname == 'near-radius':
            o = dict(o, **fixed.pop(name))
        bits, counts = rng.choice(CTOR_BITS), rng.random() < 0.4
        branch = {}
        why = tag(m, cid, o, exact_motion=False, branch=branch)
        if why:
            st['skipped'][why] = st['skipped'].get(why, 0) + 1
            continue
        f0 = new_fprinter(rng, o, bits, counts)
        try:
            f0.run(cid, m)
        except Exception as e:  # noqa
            if m1lib.base_run(ctx, name, m, cid, o) is None:
                continue
            raise
        k0 = int(f0.current_level)
        facts = molfacts.mol_facts(m, cid)
        heavy = [a for a in facts['atoms'] if a['num'] > 1]
        if o['exfloat'] and len(heavy) > 1:
            heavy = [a for a in heavy if a['deg'] > 0]
        queries = query_plan(rng, k0, [a['idx'] for a in heavy], bits)
        base = observe(f0, queries)
        st['cases'] += 1
        st['by_pool'][pname] = st['by_pool'].get(pname, 0) + 1
        st['count_fingerprinters'] += int(counts)
        st['nondefault_ctor_bits'] += int(bits != 2 ** 32)
        for b, v in branch.items():
            st['branches'][b] = st['branches'].get(b, 0) + v
        state = {'f': f0, 'multi': Chem.Mol(m), 'fmulti': new_fprinter(rng, o, bits, counts)}
        state['fmulti'].run(cid, state['multi'])
        for j in range(ctx.n(5, 10)):
            improper_ok = not o['stereo']
            kind = rng.choice(MOTIONS_IMPROPER if (improper_ok and rng.random() < 0.6) else MOTIONS_PROPER)
            if kind == 'far' and pname not in special and rng.random() < 0.5:
                kind = 'very-far'
            if pname == 'near-radius' and j < 3:
                # a pair distance sits a relative 1e-3..1e-7 off a shell radius: far from the origin is where a distance computed
                # with cancellation (or in reduced precision) lands on the other side; 3*10^4 .. 3*10^5 A keeps the pose's own
                # coordinate granularity (<= 6e-11 A) an order of magnitude inside the 2^-30 tags
                kind = 'very-far'
            call = rng.choice(CALLS)
            m2, desc = pose(rng, m, cid, kind, far=300.0 if pname in special else 3000.0,
                            vfar=10.0 ** rng.uniform(4.5, 5.5) if pname == 'near-radius' else 1e5)
            if pname not in special:
                # generic geometry: no exact equality is decided, the pose is tagged as the existing stream does.  (On the special
                # geometries the exact right angles, zero triple products and zero mean vectors of the original become 1e-16-size
                # numbers in a pose: the code under test snaps / tolerates those, the exact transcript would call them unstable;
                # every OTHER decision keeps its 2^-30 margin under a perturbation of 1e-13.)
                if m1lib.is_unstable(m2, cid, o):
                    st['skipped']['pose_unstable'] = st['skipped'].get('pose_unstable', 0) + 1
                    continue
            try:
                f1 = run_pose(rng, call, o, bits, counts, m2, cid, state)
                got = observe(f1, queries)
                if call == 'aba' and got == base:
                    state['f'].run(cid, m)
                    again = observe(state['f'], queries)
                    if again != base:
                        got, desc = again, dict(desc, note='the ORIGINAL conformer re-run on the object after the pose differs from its first run')
            except Exception as e:  # noqa
                got = [('exception', '%s: %s' % (type(e).__name__, str(e)[:200]))]
            st['poses'] += 1
            st['queries_compared'] += len(queries)
            st['by_motion'][desc['kind']] = st['by_motion'].get(desc['kind'], 0) + 1
            st['by_call'][call] = st['by_call'].get(call, 0) + 1
            ctx.count(('cov-motion', name, cid, str(opts_json(o)), bits, counts, j, desc['kind'], call), k0 >= 1)
            if got != base:
                found = True
                ctx.fail('fingerprint changed under a rigid motion (%s, %s pool, call pattern %s, %s fingerprinter with bits=%d)'
                         % (desc['kind'], pname, call, 'count' if counts else 'bit', bits),
                         {'name': name, 'conf': cid, 'opts': opts_json(o), 'bits': bits, 'counts': counts, 'motion': desc, 'call': call,
                          'molblock': Chem.MolToMolBlock(m, confId=cid),
                          'exact_coords_hex': [[float(c).hex() for c in row] for row in coords_of(m, cid)],
                          'posed_coords_hex': [[float(c).hex() for c in row] for row in coords_of(m2, cid)],
                          'first_difference': first_difference(base, got)}, finding_key='C01:motion')
                break
    ctx.coverage['input_distribution']['cov_metamorphic'] = st
    return found


# ============================================================================================== stream 2: exact motions on lattices
def exact_lattice(ctx):
    """Cubic-lattice molecules (pair distances EQUAL to shell radii) and exact collinear / right-angled ones under the 48 signed
    axis permutations and grid translations, which are exact in floating point."""
    from rdkit import Chem
    import props.c01 as c01
    rng = ctx.rng
    st = {'cases': 0, 'exact_motions': 0, 'skipped': {}, 'radius_ties': 0}
    found = False
    proper = [M for M in c01.SP if round(np.linalg.det(M)) == 1]
    improper = [M for M in c01.SP if round(np.linalg.det(M)) == -1]
    for _ in range(ctx.n(60, 200)):
        r = rng.random()
        if r < 0.6:
            name, m, cid, mult = molgen.lattice_molecule(rng)
            o = dict(deepen(rng, wide_opts(rng), 0.5), mult=mult, incl=True)
        elif r < 0.8:
            name, m, cid = ortho_molecule(rng)
            o = deepen(rng, wide_opts(rng))
        else:
            name, m, cid = linear_molecule(rng)
            o = deepen(rng, wide_opts(rng))
        why = tag(m, cid, o, exact_motion=True)
        if why:
            st['skipped'][why] = st['skipped'].get(why, 0) + 1
            continue
        bits, counts = rng.choice(CTOR_BITS), rng.random() < 0.4
        f0 = new_fprinter(rng, o, bits, counts)
        try:
            f0.run(cid, m)
        except Exception:  # noqa
            if m1lib.base_run(ctx, name, m, cid, o) is None:
                continue
            raise
        k0 = int(f0.current_level)
        facts = molfacts.mol_facts(m, cid)
        st['radius_ties'] += int(radius_tie(facts, o))
        queries = query_plan(rng, k0, [a['idx'] for a in facts['atoms'] if a['num'] > 1 and (a['deg'] > 0 or not o['exfloat'])], bits)
        base = observe(f0, queries)
        st['cases'] += 1
        Ms = rng.sample(proper, ctx.n(5, 24)) + ([] if o['stereo'] else rng.sample(improper, ctx.n(3, 8)))
        for M in Ms:
            t = np.array([rng.randrange(-64, 64) / 16.0 for _ in range(3)]) if rng.random() < 0.6 else np.zeros(3)
            m2 = m1lib.transformed(m, cid, M.astype(float), t)
            try:
                f1 = new_fprinter(rng, o, bits, counts)
                f1.run(cid, m2)
                got = observe(f1, queries)
            except Exception as e:  # noqa
                got = [('exception', '%s: %s' % (type(e).__name__, str(e)[:200]))]
            st['exact_motions'] += 1
            ctx.count(('cov-exact', name, str(opts_json(o)), str(M.tolist()), str(t.tolist())), k0 >= 1)
            if got != base:
                found = True
                ctx.fail('fingerprint changed under an EXACT axis-permutation motion of an exactly tied geometry (%s)' % name.split(' ')[0],
                         {'name': name, 'conf': cid, 'opts': opts_json(o), 'bits': bits, 'counts': counts, 'matrix': M.tolist(),
                          'translation': t.tolist(), 'molblock': Chem.MolToMolBlock(m, confId=cid),
                          'exact_coords_hex': [[float(c).hex() for c in row] for row in coords_of(m, cid)],
                          'first_difference': first_difference(base, got)}, finding_key='C01:motion')
                break
    ctx.coverage['input_distribution']['cov_exact_tied_geometries'] = st
    return found


# ============================================================================================== stream 3: model tie on the new classes
def tie_cases(ctx):
    """Cases for the Coq correspondence (m1lib.run_cases): the new geometry classes and option values, original and exactly moved."""
    import props.c01 as c01
    rng = ctx.rng
    st = {'cases': 0, 'moved': 0, 'by_pool': {}, 'skipped': {}, 'impl_errors': 0, 'branches': {}, 'non_float_multiplier': 0,
          'numpy_level': 0, 'levels_reached_hist': {}}
    out = []
    n = ctx.n(110, 250)
    makers = [('ortho', lambda: ortho_molecule(rng)), ('ortho', lambda: ortho_molecule(rng)), ('linear', lambda: linear_molecule(rng)),
              ('flat', lambda: flat_molecule(rng, scaled=rng.random() < 0.5)), ('lattice', lambda: molgen.lattice_molecule(rng)[:3]),
              ('pool-wide-options', lambda: molgen.pool(rng, 1)[0]), ('pool-wide-options', lambda: molgen.pool(rng, 1, with_shipped=False)[0])]
    tries = 0
    while len(out) < n and tries < 8 * n:
        tries += 1
        pname, mk = rng.choice(makers)
        name, m0, cid = mk()
        o = wide_opts(rng)
        if pname != 'pool-wide-options':
            o = deepen(rng, o, 0.8)
        if pname == 'lattice':
            o = dict(o, mult=rng.choice([0.75, 1.5, 3.0, 1.5, 0.75]), incl=True)
        m = molfacts.gridded(m0, conf_ids={m0.GetConformer(cid).GetId()})
        branch = {}
        why = tag(m, cid, o, exact_motion=True, branch=branch)
        if why:
            st['skipped'][why] = st['skipped'].get(why, 0) + 1
            continue
        bits = rng.choice(CTOR_BITS)
        c = m1lib.Case(name, m, cid, o, bits=bits, counts=rng.random() < 0.4)
        if c.unstable:
            st['skipped']['unstable'] = st['skipped'].get('unstable', 0) + 1
            continue
        if c.err is not None:
            st['impl_errors'] += 1
        else:
            ret = c.heavy_retained()
            for lv in [None, rng.choice([-1, 0, 1, c.k]), c.k + rng.choice([1, 2])]:
                mask = [] if rng.random() < 0.5 or not ret else rng.sample(ret, min(len(ret), rng.choice([1, 2, 3])))
                qb = rng.choice([b for b in (None, None, 2, 64, 1024, 2 ** 20, 2 ** 32) if b is None or b <= bits])
                r = m1lib.query_impl(c.f, lv, qb, mask)
                c.queries.append((lv, c.bits if qb is None else qb, sorted(mask), r))
            st['levels_reached_hist'][str(c.k)] = st['levels_reached_hist'].get(str(c.k), 0) + 1
        st['cases'] += 1
        st['by_pool'][pname] = st['by_pool'].get(pname, 0) + 1
        st['non_float_multiplier'] += int(type(o['mult']) is not float)
        st['numpy_level'] += int(isinstance(o['level'], np.integer))
        for b, v in branch.items():
            st['branches'][b] = st['branches'].get(b, 0) + v
        out.append(c)
        if c.err is None and rng.random() < 0.5:
            proper = [M for M in c01.SP if round(np.linalg.det(M)) == 1]
            improper = [M for M in c01.SP if round(np.linalg.det(M)) == -1]
            M = rng.choice(proper if (o['stereo'] or rng.random() < 0.5) else improper)
            t = [rng.randrange(-64, 64) / 16.0 for _ in range(3)]
            out.append(c01.moved_case(c, M, t))
            st['moved'] += 1
    ctx.coverage['input_distribution']['cov_tie'] = st
    return out


# ============================================================================================== stream 4: one shell at a time
SHELL_KINDS = ['generic', 'generic', 'dup-keys', 'mean-near', 'mirror-pair', 'polar', 'bin-pair', 'quadrant-near', 'right-angle', 'planar',
               'collinear', 'two', 'overlap']
GRID = 1 << 12


def _g(x):
    return Fr(int(round(x * GRID)), GRID)


def _gv(v):
    return tuple(_g(float(c)) for c in v)


def _rand_key(rng, few):
    return (rng.choice([1, 1, 1, 2, 3, 4, 5, 5]), rng.choice(few))


def synthetic_shell(rng):
    """(kind, [(bond code, identifier)], [vector]) - the centred neighbours of one shell, in the order the fingerprinter sorts them
    (stable sort by key), vectors on the 2^-12 grid."""
    kind = rng.choice(SHELL_KINDS)
    idents = [rng.randrange(-2 ** 31, 2 ** 31) for _ in range(4)]
    few = idents[:rng.choice([1, 2, 4])]
    R = m1lib.random_rotation(rng)

    def rv(lo=0.9, hi=4.0):
        return _unit(rng) * rng.uniform(lo, hi)
    items = []
    if kind == 'generic':
        for _ in range(rng.choice([1, 2, 3, 4, 5, 6, 8])):
            items.append((_rand_key(rng, idents), rv()))
    elif kind == 'dup-keys':
        key = _rand_key(rng, few)
        for _ in range(rng.choice([2, 3, 4, 5])):
            items.append((key, rv()))
        for _ in range(rng.choice([0, 0, 1, 2])):
            items.append((_rand_key(rng, few), rv()))
    elif kind == 'mean-near':
        shape = rng.choice(['tetra', 'octa', 'trig', 'bipy'])
        dirs = [np.array(d, dtype=float) / np.linalg.norm(d) for d in molgen._DIRS[shape]]
        r = rng.uniform(1.2, 1.9)
        f = rng.choice([0.2, 0.6, 0.85, 0.95, 1.05, 1.2, 1.5, 1.7, 2.5])
        shift = _unit(rng) * 0.1 * f - sum(dirs) * r / len(dirs)
        key = _rand_key(rng, few)
        for d in dirs:
            items.append((key, R.dot(d * r + shift)))
    elif kind == 'mirror-pair':
        y = rv()
        items.append(((1, idents[0]), y))
        p = rv()
        n = np.cross(y, _unit(rng))
        n /= np.linalg.norm(n)                          # mirror plane contains y: the image has the same angle to y
        items.append(((1, idents[1]), p))
        items.append(((1, idents[1]), p - 2 * n * n.dot(p)))
        for _ in range(rng.choice([0, 1, 2])):
            items.append((_rand_key(rng, idents[2:]), rv()))
    elif kind == 'polar':
        y = rv()
        items.append(((1, idents[0]), y))
        for _ in range(rng.choice([1, 2, 3])):
            ang = math.radians(5.0 + rng.choice([-3, -1, -0.2, 0.2, 1, 3]))
            perp = np.cross(y, _unit(rng))
            perp /= np.linalg.norm(perp)
            d = (y / np.linalg.norm(y)) * math.cos(ang) * rng.choice([1, -1]) + perp * math.sin(ang)
            items.append((_rand_key(rng, idents), d * rng.uniform(1.0, 3.0)))
        for _ in range(rng.choice([0, 1, 2])):
            items.append((_rand_key(rng, idents), rv()))
    elif kind == 'bin-pair':
        y = rv()
        items.append(((1, idents[0]), y))
        yu = y / np.linalg.norm(y)
        lat = rng.uniform(-1.3, 1.3)
        key = _rand_key(rng, idents[1:2])
        for dl in (0.0, rng.choice([0.002, 0.004, 0.008, 0.015, 0.03])):
            perp = np.cross(yu, _unit(rng))
            perp /= np.linalg.norm(perp)
            items.append((key, (yu * math.sin(lat + dl) + perp * math.cos(lat + dl)) * rng.uniform(1.0, 3.0)))
        for _ in range(rng.choice([0, 1])):
            items.append((_rand_key(rng, idents[2:]), rv()))
    elif kind == 'quadrant-near':
        y = rv()
        yu = y / np.linalg.norm(y)
        zu = np.cross(yu, _unit(rng))
        zu /= np.linalg.norm(zu)
        xu = np.cross(yu, zu)
        items.append(((1, idents[0]), y))
        items.append(((2, idents[1]), (zu * math.cos(0.3) + yu * math.sin(0.3) * 0 + yu * 0.05) * rng.uniform(1.0, 2.5)))
        for _ in range(rng.choice([1, 2, 3])):
            az = math.pi / 4 + rng.choice([0, 1, 2, 3]) * math.pi / 2 + rng.choice([1, -1]) * 10.0 ** (-rng.uniform(2, 5))
            lat = rng.uniform(0.3, 1.2) * rng.choice([1, -1])
            d = (zu * math.cos(az) + xu * math.sin(az)) * math.cos(lat) + yu * math.sin(lat)
            items.append(((3, rng.choice(idents)), d * rng.uniform(1.0, 3.0)))
    elif kind == 'right-angle':
        u, v, w, scales = rng.choice(TRIPLES)
        dirs = [tuple(s * c for c in d) for d in (u, v, w) for s in (1, -1)]
        rng.shuffle(dirs)
        for d in dirs[:rng.choice([2, 3, 4, 5, 6])]:
            sc = rng.choice(scales)
            items.append((_rand_key(rng, idents), np.array([float(sc * c) for c in d])))
        for _ in range(rng.choice([0, 0, 1])):
            items.append((_rand_key(rng, idents), rv()))
    elif kind == 'planar':
        a, b = _gv(rv(0.5, 1.0)), _gv(rv(0.5, 1.0))
        for _ in range(rng.choice([2, 3, 4, 5])):
            i, j = rng.choice([-3, -2, -1, 1, 2, 3]), rng.choice([-3, -2, -1, 0, 1, 2, 3])
            items.append((_rand_key(rng, idents), np.array([float(i * a[k] + j * b[k]) for k in range(3)])))
    elif kind == 'collinear':
        a = _gv(rv(0.5, 1.0))
        ks = rng.sample([-4, -3, -2, -1, 1, 2, 3, 4], rng.choice([2, 3, 4]))
        for i in ks:
            items.append((_rand_key(rng, idents), np.array([float(i * a[k]) for k in range(3)])))
    elif kind == 'overlap':                                # one or two neighbours exactly ON the centre atom (cent_overlap_indices)
        for _ in range(rng.choice([2, 3, 4, 5])):
            items.append((_rand_key(rng, few if rng.random() < 0.5 else idents), rv()))
        for _ in range(rng.choice([1, 1, 2])):
            items.append((_rand_key(rng, few if rng.random() < 0.5 else idents), np.zeros(3)))
    else:  # two identical neighbours
        key = _rand_key(rng, idents)
        items = [(key, rv()), (key, rv())]
    rng.shuffle(items)
    items.sort(key=lambda kv: kv[0])                        # stable, as atom_tuples.sort(key=_first_two)
    return kind, [k for k, _ in items], [_gv(v) for _, v in items]


def impl_shell_codes(tuples, vecs, centre, M=None, t=None):
    """stereo_indicators_from_shell of the real code on a shell whose centre sits at `centre` and whose neighbours at centre + vec, all
    moved by x -> M x + t when given."""
    from e3fp.fingerprint import fprinter
    from e3fp.fingerprint.structs import Shell
    pts = [np.array([float(c) for c in centre])] + [np.array([float(centre[k] + v[k]) for k in range(3)]) for v in vecs]
    if M is not None:
        pts = [M.dot(p) + t for p in pts]
    coords = {i: p for i, p in enumerate(pts)}
    members = [Shell(i + 1) for i in range(len(vecs))]
    shell = Shell(0, members)
    atom_tuples = [(k[0], k[1], s) for k, s in zip(tuples, members)]
    return [int(x) for x in fprinter.stereo_indicators_from_shell(shell, atom_tuples, coords)]


SHELL_IMPORTS = ['From Coq Require Import ZArith List Bool.', 'Import ListNotations.',
                 'From E3FP Require Import Base.Prelude Model.Geometry Model.Stereo Gen.AngleTable.', 'Open Scope Z_scope.']


def shell_lit(tuples, vecs, codes):
    ns = '; '.join('(mknb %s %s (mkvec (D:=ZD) %s %s %s))' % (core.zlit(k[0]), core.zlit(k[1]), core.zlit(int(v[0] * GRID)),
                                                                core.zlit(int(v[1] * GRID)), core.zlit(int(v[2] * GRID)))
                   for k, v in zip(tuples, vecs))
    return 'list_eqb Z.eqb (codes ZD e3fp_consts %s [%s]) %s' % (core.zlit(GRID * GRID), ns, core.zlist(codes))


def shells(ctx):
    """stereo_indicators_from_shell called directly: tie with Model/Stereo.v `codes`, and invariance under random motions."""
    rng = ctx.rng
    K = molfacts.consts()
    st = {'shells': 0, 'motions': 0, 'skipped': {}, 'by_kind': {}, 'branches': {}, 'codes_hist': {}}
    cases, payloads = [], {}
    found = False
    n = ctx.n(1500, 5000)
    tries = 0
    while st['shells'] < n and tries < 4 * n:
        tries += 1
        kind, tuples, vecs = synthetic_shell(rng)
        branch = {}
        try:
            expect = strict_stereo_codes(K, tuples, vecs, branch, allow_zero=True)
        except Degenerate:
            st['skipped']['degenerate'] = st['skipped'].get('degenerate', 0) + 1
            continue
        except m1_spec.Unstable:
            st['skipped']['unstable'] = st['skipped'].get('unstable', 0) + 1
            continue
        centre = tuple(Fr(rng.randrange(-80, 80), 16) for _ in range(3))
        payload = {'kind': kind, 'tuples': [list(k) for k in tuples], 'vectors_times_4096': [[int(c * GRID) for c in v] for v in vecs],
                   'centre_times_16': [int(c * 16) for c in centre], 'transcript_codes': expect}
        try:
            got = impl_shell_codes(tuples, vecs, centre)
        except Exception as e:  # noqa
            found = True
            ctx.fail('stereo_indicators_from_shell raised %s: %s on a synthetic shell (%s)' % (type(e).__name__, str(e)[:120], kind), payload,
                     finding_key='C01:shell')
            continue
        st['shells'] += 1
        st['by_kind'][kind] = st['by_kind'].get(kind, 0) + 1
        for b, v in branch.items():
            st['branches'][b] = st['branches'].get(b, 0) + v
        for c in got:
            st['codes_hist'][str(c)] = st['codes_hist'].get(str(c), 0) + 1
        key = 'shell%d' % len(cases)
        payload['impl_codes'] = got
        cases.append((key, shell_lit(tuples, vecs, got)))
        payloads[key] = payload
        ctx.count(('shell', kind, str(tuples), str(payload['vectors_times_4096'])), any(got))
        for j in range(ctx.n(3, 5)):
            if kind in ('right-angle', 'planar', 'collinear') or j > 0:
                M = m1lib.random_rotation(rng)
            else:
                M = _axis_angle(_unit(rng), 10.0 ** (-rng.uniform(1, 6)))
            t = np.array([rng.uniform(-20, 20) for _ in range(3)])
            try:
                got2 = impl_shell_codes(tuples, vecs, centre, M, t)
            except Exception as e:  # noqa
                got2 = '%s: %s' % (type(e).__name__, str(e)[:120])
            st['motions'] += 1
            ctx.count(None)
            if got2 != got:
                found = True
                ctx.fail('stereo indicators of one shell changed under a proper rigid motion (%s shell)' % kind,
                         dict(payload, matrix=M.tolist(), translation=t.tolist(), moved_codes=got2), finding_key='C01:shell')
                break
    ctx.coverage['input_distribution']['cov_shells'] = st
    nbad = core.compare_cases(ctx, cases, SHELL_IMPORTS, 'C01 stereo codes of one shell: Model/Stereo.v `codes` vs stereo_indicators_from_shell',
                              payloads, shard=max(50, len(cases) // core.NCPU + 1))
    return found or nbad > 0


# ============================================================================================== stream 5: array_ops helpers
def helpers(ctx):
    """Equivariance of the vector helpers the stereo code is built from (generic random vectors: no threshold is involved)."""
    from e3fp.fingerprint import array_ops as ao
    rng = ctx.rng
    st = {'evaluations': 0}
    found = False

    def bad(what, **kw):
        ctx.fail('array_ops.%s is not equivariant under an isometry' % what, {k: (v.tolist() if hasattr(v, 'tolist') else v) for k, v in kw.items()},
                 finding_key='C01:array_ops')

    def circ(a, b):
        d = np.abs(np.asarray(a) - np.asarray(b)) % (2 * np.pi)
        return np.minimum(d, 2 * np.pi - d)
    for it in range(ctx.n(300, 1500)):
        proper = rng.random() < 0.6
        M = m1lib.random_rotation(rng, proper=proper)
        t = np.array([rng.uniform(-20, 20) for _ in range(3)])
        n = rng.choice([1, 2, 3, 5, 8])
        V = np.array([[rng.gauss(0, 2) for _ in range(3)] for _ in range(n)])
        ref = np.array([rng.gauss(0, 2) for _ in range(3)])
        special = rng.random()
        if special < 0.15:
            V[0] = 0.0                                               # a zero vector stays a zero vector
        elif special < 0.3:
            V[0] = ref * rng.choice([2.0, -0.5])                     # parallel / anti-parallel to the reference
        MV, Mref = V.dot(M.T), M.dot(ref)
        tol = 1e-9
        st['evaluations'] += 1
        ctx.count(None)
        try:
            if not np.allclose(ao.as_unit(MV), ao.as_unit(V).dot(M.T), atol=tol) or not np.allclose(ao.as_unit(MV[0]), M.dot(ao.as_unit(V[0])), atol=tol):
                found = True
                bad('as_unit', M=M, V=V)
            if np.any(V[-1] != 0) and not np.allclose(np.linalg.norm(ao.as_unit(V[-1])), 1.0, atol=tol):
                found = True
                bad('as_unit (norm)', V=V)
            if not np.allclose(ao.make_distance_matrix(MV + t), ao.make_distance_matrix(V), atol=tol) and n > 1:
                found = True
                bad('make_distance_matrix', M=M, t=t, V=V)
            if n > 1 and not np.allclose(ao.make_distance_matrix(V), np.linalg.norm(V[:, None, :] - V[None, :, :], axis=2), atol=tol):
                found = True
                bad('make_distance_matrix (values)', V=V)
            if not np.allclose(ao.project_to_plane(MV, Mref), ao.project_to_plane(V, ref).dot(M.T), atol=tol) \
                    or not np.allclose(ao.project_to_plane(MV[-1], Mref), M.dot(ao.project_to_plane(V[-1], ref)), atol=tol):
                found = True
                bad('project_to_plane', M=M, V=V, ref=ref)
            if abs(float(np.dot(ao.project_to_plane(V[-1], ref), ref))) > 1e-9 * (1 + float(np.dot(ref, ref)) * float(np.linalg.norm(V[-1]))):
                found = True
                bad('project_to_plane (orthogonality)', V=V, ref=ref)
            a0, a1 = ao.calculate_angles(V, ref), ao.calculate_angles(MV, Mref)
            keep = np.abs(np.sin(a0)) > 1e-6                         # arccos is ill-conditioned at 0 and pi
            if np.max(np.abs(a0 - a1)[keep], initial=0.0) > 1e-8 or np.max(np.abs(a0 - a1), initial=0.0) > 1e-6:
                found = True
                bad('calculate_angles', M=M, V=V, ref=ref)
            if special < 0.15 and a1[0] != 0.0:
                found = True
                bad('calculate_angles (zero vector)', V=V, ref=ref)
            nrm = np.cross(ref, np.array([rng.gauss(0, 1) for _ in range(3)]))
            P = ao.project_to_plane(V, nrm)
            z = ao.project_to_plane(ref + np.array([rng.gauss(0, 1) for _ in range(3)]), nrm)
            b0 = ao.calculate_angles(P, z, nrm)
            b1 = ao.calculate_angles(P.dot(M.T), M.dot(z), M.dot(nrm))
            want = b0 if proper else (2 * np.pi - b0) % (2 * np.pi)
            keep = (np.abs(np.sin(b0)) > 1e-6) & (np.linalg.norm(P, axis=1) > 1e-6)
            if np.max(circ(b1, want)[keep], initial=0.0) > 1e-8 or np.any(b1 < 0) or np.any(b1 >= 2 * np.pi + 1e-12):
                found = True
                bad('calculate_angles (signed, about a normal)', M=M, P=P, z=z, normal=nrm, proper=proper)
            amt = rng.choice([np.pi / 4, 2 * np.pi, rng.uniform(0, 6)])
            r0 = ao.rotate_angles(b0, amt)
            if np.any(r0 < 0) or np.any(r0 >= 2 * np.pi) or np.max(circ(r0, b0 + amt), initial=0.0) > 1e-9:
                found = True
                bad('rotate_angles', angles=b0, amount=amt)
        except Exception as e:  # noqa
            found = True
            ctx.fail('array_ops helper raised %s: %s' % (type(e).__name__, str(e)[:160]), {'M': M.tolist(), 'V': V.tolist(), 'ref': ref.tolist()},
                     finding_key='C01:array_ops')
        if found and len(ctx.violations) > 6:
            break
    ctx.coverage['input_distribution']['cov_array_ops'] = st
    return found


def replay(ctx, path):
    """Replay of the failures recorded by this module (motion on a molecule, motion on a shell); None for other files."""
    import json
    from rdkit import Chem
    from rdkit.Geometry import Point3D
    d = json.load(open(path))
    c = d.get('case', {})
    if 'posed_coords_hex' in c or ('matrix' in c and 'exact_coords_hex' in c and 'queries' not in c and 'impl_levels' not in c):
        print('replay of %s: %s' % (path, d.get('what', '')[:200]))
        m = Chem.MolFromMolBlock(c['molblock'], removeHs=False)
        X = np.array([[float.fromhex(v) for v in row] for row in c['exact_coords_hex']])
        if 'posed_coords_hex' in c:
            Y = np.array([[float.fromhex(v) for v in row] for row in c['posed_coords_hex']])
        else:
            Y = X.dot(np.array(c['matrix'], dtype=float).T) + np.array(c['translation'], dtype=float)
        o = dict(c['opts'])
        if o.get('mult_type') == 'int':
            o['mult'] = int(o['mult'])
        res = []
        for Z in (X, Y):
            mm = with_coords(m, 0, Z)
            f = new_fprinter(ctx.rng, o, c.get('bits', 2 ** 32), c.get('counts', False))
            try:
                f.run(0, mm)
                res.append((int(f.current_level), m1lib.all_level_ids(f)))
            except Exception as e:  # noqa
                res.append('%s: %s' % (type(e).__name__, e))
        print('options: %s, motion: %s, call pattern at the time: %s' % (o, (c.get('motion') or {}).get('kind', 'exact signed permutation'), c.get('call', 'fresh')))
        print('original : %s' % str(res[0])[:1500])
        print('moved    : %s' % str(res[1])[:1500])
        print('recorded first difference: %s' % json.dumps(c.get('first_difference'))[:1500])
        if res[0] == res[1]:
            print('the original and the moved conformer have the SAME fingerprints now (with a fresh Fingerprinter per pose)')
            return 0
        print('VIOLATION property=%s replay=%s' % (ctx.pid, path))
        return 1
    if 'vectors_times_4096' in c:
        print('replay of %s: %s' % (path, d.get('what', '')[:200]))
        tuples = [tuple(k) for k in c['tuples']]
        vecs = [tuple(Fr(x, GRID) for x in v) for v in c['vectors_times_4096']]
        centre = tuple(Fr(x, 16) for x in c['centre_times_16'])
        got = impl_shell_codes(tuples, vecs, centre)
        print('shell kind %s, keys %s' % (c.get('kind'), tuples))
        print('stereo indicators now: %s; recorded: %s; exact transcript: %s' % (got, c.get('impl_codes'), c.get('transcript_codes')))
        bad = got != c.get('transcript_codes')
        if 'matrix' in c:
            got2 = impl_shell_codes(tuples, vecs, centre, np.array(c['matrix'], dtype=float), np.array(c['translation'], dtype=float))
            print('after the recorded motion: %s' % got2)
            bad = bad or got2 != got
        res, logs = core.coq_eval_bools([('replay', shell_lit(tuples, vecs, got))], SHELL_IMPORTS, os.path.join(ctx.workdir, 'replay'))
        print('Model/Stereo.v `codes` agrees with the implementation on the unmoved shell: %s' % res.get('replay'))
        if bad or res.get('replay') is not True:
            print('VIOLATION property=%s replay=%s' % (ctx.pid, path))
            return 1
        print('implementation, transcript and model AGREE on this shell now')
        return 0
    return None


def run_all(ctx):
    """All extension streams; returns True when a concrete failing input was found."""
    found = False
    cases = tie_cases(ctx)
    found |= m1lib.run_cases(ctx, cases, 'C01 model/implementation tie, coverage extension (exact right angles, collinear, planar, lattice; wide options)') > 0
    found |= shells(ctx)
    found |= helpers(ctx)
    found |= exact_lattice(ctx)
    found |= metamorphic(ctx)
    return found
