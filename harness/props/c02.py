"""C02 - identifiers are exactly those of the published E3FP algorithm (model M1 is the independent executable
specification: own MurmurHash3, own root-free geometry; Properties/C02.v)."""
import numpy as np
import core
import m1lib
import molfacts
import molgen
from props import c02_cov


def hash_cases(ctx, n):
    """Murmur3 model vs the mmh3 C library on random int64 arrays (both through e3fp's hash_int64_array)."""
    from e3fp.fingerprint import fprinter
    rng = ctx.rng
    cases, payloads = [], {}
    for i in range(n):
        ln = rng.choice([0, 1, 2, 3, 5, 8, 20, 64, 200]) if i % 10 else rng.randrange(0, 200)
        kind = rng.random()
        if kind < 0.4:
            xs = [rng.randrange(-2 ** 63, 2 ** 63) for _ in range(ln)]
        elif kind < 0.8:
            xs = [rng.randrange(-2 ** 31, 2 ** 31) for _ in range(ln)]
        else:
            xs = [rng.choice([0, 1, -1, 5, 2 ** 63 - 1, -2 ** 63, 2 ** 32, -2 ** 32]) for _ in range(ln)]
        seed = fprinter.MMH3_SEED if rng.random() < 0.7 else rng.randrange(0, 2 ** 32)
        h = int(fprinter.hash_int64_array(np.array(xs, dtype=np.int64), seed))
        u = int(fprinter.signed_to_unsigned_int(h))
        key = 'hash%d' % i
        cases.append((key, '(hash_i64 %s %s =? %s) && (unsigned32 %s =? %s)' % (core.zlit(seed), core.zlist(xs), core.zlit(h), core.zlit(h), core.zlit(u))))
        payloads[key] = {'array': xs, 'seed': seed, 'impl_hash': h, 'impl_unsigned': u}
        ctx.count(('hash', tuple(xs), seed), ln > 0)
    ctx.sample({'hash_case': payloads['hash1']})
    return core.compare_cases(ctx, cases, ['From E3FP Require Import Base.Murmur3.', 'From Coq Require Import ZArith List Bool.', 'Import ListNotations.'], 'C02 MurmurHash3', payloads,
                              finding_key_of=lambda k, p: 'hash', shard=64)


def offtable_key(c):
    """The known finding covers exactly: KeyError naming a bond type, on a molecule that has a bond between retained atoms whose
    type is outside the five-entry table.  Any other exception is an unlisted violation."""
    if c.err == 'EKey' and 'BondType' in (c.exc or '') and c.has_offtable_bond():
        return 'C02:bond-type-outside-table'
    return None


def dative_case(ctx):
    """A sanitised molecule with a bond type outside BOND_TYPES (DATIVE): the property says fingerprinting succeeds."""
    from rdkit import Chem
    from rdkit.Chem import AllChem
    m = Chem.MolFromSmiles('[NH3]->[Pt](Cl)(Cl)<-[NH3]')
    if m is None:
        return None
    AllChem.Compute2DCoords(m)
    conf = m.GetConformer()
    from rdkit.Geometry import Point3D
    for i in range(m.GetNumAtoms()):
        p = conf.GetAtomPosition(i)
        conf.SetAtomPosition(i, Point3D(p.x, p.y, 0.25 * i))
    m = molfacts.gridded(m)
    return m1lib.Case('dative:[NH3]->[Pt](Cl)(Cl)<-[NH3]', m, 0, dict(molgen.DEFAULT_OPTS))


def spread(cases):
    """Order the cases so that the expensive ones (many retained atoms x levels: the shipped molecules on a reused object) are dealt
    round-robin over the parallel Coq shards instead of filling the last two."""
    n = max(1, core.NCPU)
    size = max(1, -(-len(cases) // n))
    order = sorted(cases, key=lambda c: -(len(c.heavy_retained()) ** 2) * (1 + (c.k if c.err is None else 0)))
    nb = -(-len(cases) // size)
    cap = [size] * (nb - 1) + [len(cases) - size * (nb - 1)]      # consecutive slices of `size` coincide with the buckets
    buckets = [[] for _ in range(nb)]
    j = 0
    for c in order:
        while len(buckets[j % nb]) >= cap[j % nb]:
            j += 1
        buckets[j % nb].append(c)
        j += 1
    return [c for b in buckets for c in b], size


def run(ctx):
    ok, res = core.proof_step(ctx)
    found = False
    found |= hash_cases(ctx, ctx.n(500, 20000)) > 0
    cases = m1lib.gen_cases(ctx, ctx.n(120, 2500))
    for c in cases:
        c02_cov.count_stop(ctx, c)
    # directed inputs for the classes / option values / call sequences the random stream draws rarely or never (work/coverage_C02.md)
    directed = c02_cov.directed_cases(ctx)
    cases += directed
    # a sanitised molecule must fingerprint: any implementation error on >= 1 retained heavy atom is a failure of C02
    # (the constructor's documented refusal of level -1 without duplicate removal is not a molecule's failure; it is compared with the model)
    for c in cases:
        if c.err is not None and c.heavy_retained() and not getattr(c, 'refusal', False):
            found = True
            ctx.fail('fingerprinting raised %s on a sanitised molecule with %d retained heavy atoms' % (c.exc, len(c.heavy_retained())),
                     c.payload(), finding_key=offtable_key(c))
    # threshold-directed symmetric centres (mean-vector branch of pick_y on both sides of its 0.1 A threshold)
    sym_pool = [molgen.synthetic_symmetric(ctx.rng) for _ in range(ctx.n(30, 400))]
    cases += m1lib.gen_cases(ctx, ctx.n(20, 300), pool=sym_pool,
                             opt_filter=lambda o: dict(o, stereo=True, level=max(1, o['level'] or 2), mult=max(o['mult'], 1.5), incl=True))
    # one Fingerprinter object reused over the conformers of one molecule object (what fprints_dict_from_mol does)
    cases += m1lib.reused_cases(ctx, 7, ctx.n(4, 12))
    dc = dative_case(ctx)
    if dc is not None:
        cases.append(dc)
        if dc.err is not None:
            ctx.fail('fingerprinting raised %s on a sanitised molecule with a DATIVE bond' % dc.exc, dc.payload(), finding_key=offtable_key(dc))
    cases, shard = spread(cases)
    found |= m1lib.run_cases(ctx, cases, 'C02 E3FP core', shard=shard) > 0
    # statements about the implementation's call forms (mask forms, exact, run(...) forms, fresh interpreter), on inputs whose run the
    # model comparison above covers
    found |= c02_cov.direct_checks(ctx, directed + cases[:40]) > 0
    ctx.coverage['rule'] = ('random int64 arrays against mmh3; (molecule, conformer, options) cases from %d SMILES embedded offline and the shipped SDFs, '
                            'coordinates on a 2^-16 A grid, options sampled over level/multiplier/stereo/duplicate removal/connected-only/invariants/'
                            'floating exclusion, each with 2 fingerprint queries (level incl. -1/None/too large, bits, atom mask, counts); compared: '
                            'current_level and every level\'s (identifier, centre, substructure) set; non-trivial: reaches level >= 1 and, with stereo, '
                            'picks a y axis in some shell; distinct by (molecule, conformer, options).  Directed (input_distribution.directed): constructor refusal, option '
                            'values/dtypes (multiplier 0 / negative / int / numpy, numpy level and bits, bits 1 / 2^31 / 1000), isotope-charge-radical invariants with both '
                            'invariant sets, shuffled atom order, gapped conformer ids, connected-only mode on multi-fragment molecules, each stopping rule with and '
                            'without duplicate removal, zero/one retained atom, second off-table bond type, one object over several molecules; every directed case '
                            'queried at every level (None, -1, 0..k+1) with rotating mask kinds (none/1/2/3/all/foreign/mixed/all-but-one) and lengths incl. refused ones.  '
                            'Direct (input_distribution.directed.direct): mask container forms and single int, get_shells_at_level against the fingerprint, exact=True, '
                            'positional call, run(conformer | conformer, mol | keywords | mol alone | id alone | numpy id), never-run object, hash value forms, '
                            'ShellsGenerator alone, substructs_to_pdb names, fresh interpreter with another hash seed' % len(molgen.SMILES))
    ctx.assumptions += ['RDKit atom/bond getters and conformer coordinates are inputs of the model (read independently by the harness)',
                        'inputs within 2^-30 (relative) of a decision threshold are tagged by the exact-arithmetic transcription harness/m1_spec.py and skipped (counted in input_distribution.unstable_skipped)',
                        'mmh3 C library: compared with the Coq MurmurHash3 on every run']
    if not ok:
        core.report_broken_proof(ctx, res, found)


def replay(ctx, path):
    import json
    d = json.load(open(path))
    if not str(d.get('what', '')).startswith('C02 E3FP core') and d.get('kind') == 'correspondence' and 'molblock' in d.get('case', {}) and \
            ('form' in d['case'] or 'exact' in d['case'] or 'mask' in d['case'] or 'kept' in d['case']):
        return c02_cov.replay_direct(ctx, d, path)
    return m1lib.replay_case(ctx, path)
