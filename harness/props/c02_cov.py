"""C02 coverage extension (see work/coverage_C02.md): directed inputs for every clause of the statement, every option value
and dtype, every branch and call form of the anchored code that the random (molecule, conformer, options) stream of c02.py
draws rarely or never.

Two kinds of checks:
 * `directed_cases`  - m1lib.Case objects compared with the Coq model M1 exactly like the random cases (run_cases);
 * `direct_checks`   - statements of the property that are about the implementation's call forms (mask forms, `exact`,
                       positional/keyword, run(conf)/run(conf, mol)/run(mol=...)/run(int), fresh process), checked on the
                       implementation against observations the model has confirmed, reported through ctx.fail.
Everything random comes from ctx.rng."""
import json
import os
import subprocess
import sys
import numpy as np
import core
import fpgen
import m1lib
import molfacts
import molgen

# heavy-atom isotopes with int(mass - standard weight) in {-3, -1, 0, 1, 2, 4} and int(mass) != round(mass); charges of both
# signs on retained atoms; radicals; hypervalent / unusual elements.  (The shared pool has 'C[13CH3]' only: delta mass 0.)
INVARIANT_SMILES = [
    'C[123I]', 'C[131I]', 'C[125I]', '[18OH]C', 'C[14CH3]', 'C[37Cl]', 'C[81Br]', 'C[76Br]', '[11CH3]O', 'C[79Br]', '[10BH2]C', 'C[32S]C',
    'C[CH2]', 'C[N+](=O)[O-]', '[O-][n+]1ccccc1', 'C[S+](C)C', 'C=[N+]=[N-]', 'CB(O)O', 'C[Si](C)(C)C', 'C[Se]C', 'O=C([O-])C[N+]#N',
    '[NH3+]CC([O-])=O', 'CS(C)=O', 'OP(O)(=O)C',
]
ALWAYS_INVARIANT = ['C[123I]', 'C[131I]', '[18OH]C']       # negative / large positive / +2 delta mass: every run
SMALL = ['CCO', 'CC(=O)O', 'c1ccncc1', 'CC(C)O', 'C[C@H](N)C(=O)O', 'OCC(O)CO', 'C1CC1', 'CCN(CC)CC', 'N#Cc1ccccc1', 'ClC=CCl', 'F[C@](Cl)(Br)I']
FRAGMENTS = ['CCO.O', 'CC(=O)[O-].[Na+]', 'CCO.CCN', '[NH4+].CC(=O)[O-]', 'CC(C)=O.O.O', '[Cu+2].[O-]C(=O)C.[O-]C(=O)C', 'C[N+](C)(C)C.[Br-]']

KEY_INT_MASK = 'C02:atom-mask-single-int'
KEY_RUN_INT = 'C02:run-int-conf-reusing-mol'
KEY_RUN_NOCONF = 'C02:run-without-conf:first-conformer-id-not-0'
KEY_RUN_NPINT = 'C02:run-numpy-int-conf-id:silently-first-conformer'


def _stat(ctx):
    return ctx.coverage.setdefault('input_distribution', {}).setdefault('directed', {})


def _inc(d, k, n=1):
    d[k] = d.get(k, 0) + n


def stop_reason(c):
    """Which of the three stopping rules ended the implementation's run (read off the object right after the run)."""
    if c.err is not None:
        return 'error'
    lv = -1 if c.o['level'] is None else int(c.o['level'])
    if lv != -1 and c.k >= lv:
        return 'level_cap'
    try:
        top = c.f.shells_gen.get_shells_at_level(c.k).values()
        if c.o['remdup'] and all(len(s.substruct.atoms) == len(c.f.atoms) for s in top):
            return 'all_atoms_covered'
    except Exception:  # noqa
        return 'unknown'
    return 'no_new_shell'


def count_stop(ctx, c):
    d = ctx.coverage.setdefault('input_distribution', {}).setdefault('stop_rule_by_remdup', {})
    _inc(d, '%s/remdup=%s' % (stop_reason(c), bool(c.o['remdup'])))


class RefusalCase(m1lib.Case):
    """Options the constructor refuses (level -1 / None without duplicate removal: no termination condition).  Only the constructor is
    called (the iteration would not end), the exact-arithmetic tagging run is skipped for the same reason; the model answers Raises EOther."""

    def __init__(self, name, mol, cid, o, bits=2 ** 32, counts=False):
        from e3fp.fingerprint.fprinter import Fingerprinter
        self.name, self.mol, self.cid, self.o, self.bits, self.counts = name, mol, cid, o, bits, counts
        self.facts = molfacts.mol_facts(mol, cid)
        self.err, self.exc, self.f = None, None, None
        self.k, self.obs = 0, {0: []}
        try:
            Fingerprinter(bits=bits, level=o['level'], radius_multiplier=o['mult'], stereo=o['stereo'], counts=counts, include_disconnected=o['incl'],
                          rdkit_invariants=o['rdkit'], exclude_floating=o['exfloat'], remove_duplicate_substructs=o['remdup'])
        except Exception as e:  # noqa
            self.err = fpgen.err_of(e)
            self.exc = '%s: %s' % (type(e).__name__, str(e)[:120])
        self.unstable, self.branch, self.spec, self.queries = False, {}, None, []


def _case(ctx, tag, name, mol, cid, o, bits=2 ** 32, counts=False, reuse=None, grid=True, refusal=False):
    st = _stat(ctx)
    m = molfacts.gridded(mol, conf_ids={cid}) if grid else mol
    if refusal:
        c = RefusalCase('%s [%s]' % (name, tag), m, cid, o, bits=bits, counts=counts)
        if c.err is None:
            ctx.fail('Fingerprinter(level=%r, remove_duplicate_substructs=False) was accepted: no termination condition (an Exception is documented)' % (o['level'],),
                     {'opts': m1lib.opts_json(o)})
            return None
    else:
        c = m1lib.Case('%s [%s]' % (name, tag), m, cid, o, bits=bits, counts=counts, reuse=reuse)
    if c.unstable:
        _inc(st, 'unstable_skipped')
        return None
    c.tag, c.fresh, c.refusal = tag, reuse is None, refusal
    c.stop = stop_reason(c)
    count_stop(ctx, c)
    _inc(st, tag)
    if c.err is not None:
        _inc(st, 'implementation_raised')
    return c


def _q(c, level, bits_arg, mask):
    """One get_fingerprint_at_level query recorded for the model (bits None / -1 = the constructor's length)."""
    r = fpgen.attempt(lambda: c.f.get_fingerprint_at_level(level=level, bits=bits_arg, atom_mask=set(mask)))
    if r[0] == 'ok':
        r = ('ok', fpgen.obs(r[1]))
    eff = c.bits if bits_arg in (-1, None) else bits_arg
    c.queries.append((level, int(eff), sorted(int(x) for x in mask), r))
    return r


MASK_KINDS = ('none', 'one', 'two', 'three', 'all_retained', 'foreign_only', 'retained_and_foreign', 'all_but_one')
QUERY_BITS = (None, -1, 2 ** 32, 1024, 32, 1, 2 ** 31, 2048, 2, 4096)
BAD_BITS = (1000, 2 ** 33, 3, 2 ** 32 - 1)


def _mask(c, kind, rng):
    ret = c.heavy_retained()
    allidx = [a['idx'] for a in c.facts['atoms']]
    foreign = [i for i in allidx if i not in set(ret)] + [len(allidx) + 7, 9999, -1]      # hydrogens, excluded atoms, no atom at all
    if kind == 'none' or not ret:
        return []
    if kind in ('one', 'two', 'three'):
        return rng.sample(ret, min(len(ret), {'one': 1, 'two': 2, 'three': 3}[kind]))
    if kind == 'all_retained':
        return list(ret)
    if kind == 'foreign_only':
        return rng.sample(foreign, min(len(foreign), 3))
    if kind == 'retained_and_foreign':
        return rng.sample(ret, 1) + rng.sample(foreign, 2)
    return [a for a in ret if a != rng.choice(ret)]


def sweep_queries(ctx, c, rng):
    """Every level (None, -1, 0 .. current_level + 1) once, mask kinds and lengths rotating; plus one refused length."""
    if c.err is not None:
        return
    st = _stat(ctx).setdefault('queries', {})
    off_m, off_b = rng.randrange(len(MASK_KINDS)), rng.randrange(len(QUERY_BITS))
    levels = [None, -1] + list(range(0, c.k + 2))
    for j, lv in enumerate(levels):
        mk = MASK_KINDS[(j + off_m) % len(MASK_KINDS)]
        qb = QUERY_BITS[(j + off_b) % len(QUERY_BITS)]
        r = _q(c, lv, qb, _mask(c, mk, rng))
        _inc(st, 'mask_' + mk)
        _inc(st, 'bits_%s' % qb)
        _inc(st, 'level_' + ('None' if lv is None else 'minus1' if lv == -1 else 'beyond' if lv > c.k else 'reached'))
        if r[0] != 'ok':
            _inc(st, 'refused')
    bb = rng.choice(BAD_BITS)
    r = _q(c, rng.choice(levels), bb, [])
    _inc(st, 'bits_refused_%s' % bb)
    if r[0] != 'ok':
        _inc(st, 'refused')
    # the constructor's own length, always: omitted (None) and the documented sentinel -1
    for qb in (None, -1):
        r = _q(c, rng.choice(levels), qb, _mask(c, rng.choice(MASK_KINDS[:4]), rng))
        _inc(st, 'bits_%s' % qb)
        if r[0] != 'ok':
            _inc(st, 'refused')


def _emb(smi, nconf=2, seed=11, keep_hs=True):
    return molgen.embedded(smi, nconf=nconf, seed=seed, keep_hs=keep_hs)


def _opts(**kw):
    return dict(molgen.DEFAULT_OPTS, **kw)


def shuffled(mol, rng):
    """Copy with the atoms renumbered by a random permutation: hydrogens interleave with the heavy atoms, so the retained
    indices are neither contiguous nor 0-based."""
    from rdkit import Chem
    order = list(range(mol.GetNumAtoms()))
    rng.shuffle(order)
    return Chem.RenumberAtoms(mol, order)


def with_conformer_ids(mol, ids):
    from rdkit import Chem
    m = Chem.Mol(mol)
    for conf, i in zip(list(m.GetConformers()), ids):
        conf.SetId(int(i))
    return m


def quadruple_case(ctx):
    """Second bond type outside the table (QUADRUPLE) - the listed finding is about the class, not about DATIVE."""
    from rdkit import Chem
    from rdkit.Geometry import Point3D
    m = Chem.MolFromSmiles('C[Re]$[Re]C')
    if m is None:
        return None
    conf = Chem.Conformer(m.GetNumAtoms())
    for i, p in enumerate([(0.0, 0.1, 0.2), (1.9, 0.9, 0.1), (3.1, 2.6, 0.7), (4.9, 3.1, 1.5)]):
        conf.SetAtomPosition(i, Point3D(*p))
    m.AddConformer(conf, assignId=True)
    return _case(ctx, 'offtable_bond', 'C[Re]$[Re]C', m, 0, _opts(level=2))


def directed_cases(ctx):
    """Model-compared cases for the input classes listed in work/coverage_C02.md."""
    rng = ctx.rng
    out = []

    def add(c, queries=True):
        if c is None:
            return None
        if queries:
            sweep_queries(ctx, c, rng)
        out.append(c)
        return c

    # 1. the constructor refuses "no termination condition" (level -1 / None without duplicate removal): modelled as Raises EOther
    m = _emb('CCO')
    for lv in (-1, None):
        add(_case(ctx, 'ctor_refusal', 'CCO level=%r remdup=False' % lv, m, 0, _opts(level=lv, remdup=False), refusal=True))

    # 2. option values and dtypes the random stream never draws
    def small():
        return rng.choice(SMALL)
    variants = [
        ('mult=0.0', _opts(level=3, mult=0.0), {}),
        ('mult=-2.0', _opts(level=3, mult=-2.0), {}),       # |radius| would reach the bonded neighbours at level 1
        ('mult=int 2', _opts(level=2, mult=2), {}),
        ('mult=np.float64, level=np.int64', _opts(level=np.int64(3), mult=np.float64(1.718)), {}),
        ('mult=np.float32(1.5), level=np.int32', _opts(level=np.int32(2), mult=np.float32(1.5)), {}),
        ('bits=np.int64(1024), counts', _opts(level=2), {'bits': np.int64(1024), 'counts': True}),
        ('bits=1', _opts(level=2), {'bits': 1, 'counts': True}),
        ('bits=2**31', _opts(level=2), {'bits': 2 ** 31}),
        ('bits=1000 (no power of two)', _opts(level=1), {'bits': 1000}),
        ('level=0 remdup=False', _opts(level=0, remdup=False), {'counts': True}),
        ('level=12', _opts(level=12, mult=1.0), {}),
        ('mult=0.25 level=-1', _opts(level=-1, mult=0.25), {}),
        ('mult=7.5 level=None', _opts(level=None, mult=7.5), {'counts': True}),
    ]
    for name, o, kw in variants:
        smi = small()
        mm = _emb(smi, keep_hs=rng.random() < 0.5)
        add(_case(ctx, 'option_value_or_dtype', '%s %s' % (smi, name), mm, rng.randrange(2), o, **kw))

    # 3. atom invariants: isotopes (delta mass -3 .. +4), charges, radicals, hypervalent centres - both invariant sets each
    chosen = ALWAYS_INVARIANT + rng.sample([s for s in INVARIANT_SMILES if s not in ALWAYS_INVARIANT], ctx.n(13, len(INVARIANT_SMILES) - 3))
    for smi in chosen:
        mm = _emb(smi, keep_hs=rng.random() < 0.5)
        if mm is None:
            continue
        for rd in (False, True):
            add(_case(ctx, 'invariants_isotope_charge_radical', smi, mm, 0,
                      _opts(level=rng.choice([1, 2]), rdkit=rd, stereo=rng.random() < 0.5), counts=rd), queries=False)

    # 4. atom order shuffled: hydrogens before / between heavy atoms, non-contiguous retained indices
    pool = [s for s in molgen.SMILES if s not in ('C', 'O', '[Na+]')]
    n = 0
    while n < ctx.n(10, 60):
        smi = rng.choice(pool)
        mm = _emb(smi, seed=rng.choice([3, 11]), keep_hs=True)
        if mm is None or mm.GetNumHeavyAtoms() > 14:
            continue
        n += 1
        add(_case(ctx, 'shuffled_atom_order', smi, shuffled(mm, rng), rng.randrange(2), molgen.rand_opts(rng), counts=rng.random() < 0.5,
                  bits=rng.choice([2 ** 32, 1024])))

    # 5. conformer ids that are not 0..n-1 (gapped, unordered), fresh object and one object reused over them
    from e3fp.fingerprint.fprinter import Fingerprinter
    for smi in rng.sample(['CC(C)Cc1ccc(cc1)C(C)C(=O)O', 'CCN(CC)CC', 'CSCC[C@H](N)C(=O)O', 'OCC(O)CO'], ctx.n(1, 4)):
        mm = _emb(smi, nconf=3, seed=3)
        if mm is None or mm.GetNumConformers() < 3:
            continue
        ids = rng.choice([[5, 2, 9], [1, 2, 3], [40, 7, 8]])
        g = molfacts.gridded(with_conformer_ids(mm, ids))
        o = _opts(level=rng.choice([2, 3]))
        add(_case(ctx, 'gapped_conformer_ids', '%s ids %s' % (smi, ids), g, ids[1], o, grid=False))
        f = Fingerprinter(level=o['level'], radius_multiplier=o['mult'])
        for cid in (ids[2], ids[0], ids[2]):
            add(_case(ctx, 'gapped_conformer_ids', '%s ids %s reused object' % (smi, ids), g, cid, o, reuse=f, grid=False))

    # 6. connected-only mode, incl. retained atoms without any retained neighbour (floating exclusion off) and two real fragments
    for smi in FRAGMENTS[:ctx.n(4, len(FRAGMENTS))] + rng.sample(SMALL, 2):
        mm = _emb(smi, keep_hs=rng.random() < 0.6)
        if mm is None:
            continue
        add(_case(ctx, 'connected_only', smi, mm, rng.randrange(2),
                  _opts(level=rng.choice([2, 3, -1]), incl=False, exfloat=rng.random() < 0.35, stereo=rng.random() < 0.6, mult=rng.choice([1.718, 2.0])),
                  counts=rng.random() < 0.5))
    # ... and the same multi-fragment molecules in the default mode without floating exclusion
    for smi in rng.sample(FRAGMENTS, 2):
        mm = _emb(smi, keep_hs=rng.random() < 0.6)
        if mm is not None:
            add(_case(ctx, 'multi_fragment_all_atoms', smi, mm, 0, _opts(level=2, exfloat=False)))

    # 7. each stopping rule with and without duplicate removal
    stops = [
        ('CCO', _opts(level=6, mult=2.0, remdup=False)),            # covered long before the cap: must go on to 6
        ('CC(=O)O', _opts(level=4, mult=1.718, remdup=False)),
        ('CCO', _opts(level=8, mult=2.0, remdup=True)),             # all atoms covered
        ('c1ccccc1', _opts(level=-1, remdup=True)),
        ('CC(C)Cc1ccc(cc1)C(C)C(=O)O', _opts(level=1, remdup=True)),  # level cap
        ('CCN(CC)CC', _opts(level=-1, mult=0.5, remdup=True)),      # nothing in reach: no new shell at level 1
        ('O', _opts(level=5, remdup=False)),                        # one heavy atom: the level-1 shell equals the level-0 shell
        ('C', _opts(level=None, remdup=True)),
    ]
    for smi, o in stops:
        mm = _emb(smi, keep_hs=rng.random() < 0.5)
        add(_case(ctx, 'stop_rule', '%s level=%r remdup=%s mult=%s' % (smi, o['level'], o['remdup'], o['mult']), mm, rng.randrange(2), o,
                  counts=rng.random() < 0.5))

    # 8. nothing / one atom retained (the property promises success only with >= 1 retained heavy atom; the refusal is modelled)
    for smi, o in [('[H][H]', _opts()), ('[Na+].[Cl-]', _opts(exfloat=True)), ('[Na+].[Cl-]', _opts(exfloat=False, level=3, mult=3.0)),
                   ('C.[Na+]', _opts(exfloat=True)), ('[Na+]', _opts(exfloat=True)), ('O', _opts(exfloat=True, rdkit=True))]:
        mm = _emb(smi, keep_hs=True)
        if mm is not None:
            add(_case(ctx, 'zero_or_one_retained_atom', '%s exfloat=%s' % (smi, o['exfloat']), mm, 0, o))

    # 9. a second bond type outside the table
    add(quadruple_case(ctx))

    # 10. one object over different molecules: A, B, A (other conformer), a copy of A, A again
    a, b = rng.sample(['CCN(CC)CC', 'OCC(O)CO', 'C[C@H](N)C(=O)O', 'CC(C)O', 'c1ccncc1'], 2)
    ma, mb = molfacts.gridded(_emb(a)), molfacts.gridded(_emb(b))
    from rdkit import Chem
    twin = Chem.Mol(ma)
    o = _opts(level=rng.choice([2, 3]), stereo=True)
    f = Fingerprinter(level=o['level'], radius_multiplier=o['mult'], stereo=True)
    for name, mm, cid in ((a, ma, 0), (b, mb, 0), (a, ma, 1), (a + ' (copy)', twin, 1), (b, mb, 1), (a, ma, 0)):
        add(_case(ctx, 'object_reused_across_molecules', name, mm, cid, o, reuse=f, grid=False))
    return out


# ----------------------------------------------------------------------------------------------------------------------
# direct checks on the implementation
def _ms(f, **kw):
    fp_ = f.get_fingerprint_at_level(**kw)
    o = fpgen.obs(fp_)
    return (o['kind'], o['bits'], o['level'], tuple(o['idx']), tuple((k, str(v)) for k, v in o['cnt']))


def _try(fn):
    try:
        return ('ok', fn())
    except Exception as e:  # noqa
        return ('err', '%s: %s' % (type(e).__name__, str(e)[:100]))


def _payload(c, **extra):
    p = c.payload()
    p.pop('impl_levels', None)
    p.update(extra)
    return p


def mask_and_query_forms(ctx, c, rng):
    """atom_mask given as set / list / tuple / frozenset / numpy array / numpy integers / single int (documented: 'int or set of
    int'); get_shells_at_level against get_fingerprint_at_level; exact=True; positional arguments."""
    st = _stat(ctx).setdefault('direct', {})
    f = c.f
    ret = c.heavy_retained()
    bad = 0
    lv = rng.choice([None, -1] + list(range(c.k + 1)))
    ms = rng.sample(ret, min(2, len(ret)))
    base = _ms(f, level=lv, atom_mask=set(ms))
    forms = {'list': list(ms), 'tuple': tuple(ms), 'frozenset': frozenset(ms), 'ndarray_int64': np.array(ms, dtype=np.int64),
             'ndarray_int32': np.array(ms, dtype=np.int32), 'list_of_np_int64': [np.int64(x) for x in ms], 'dict_keys': dict.fromkeys(ms).keys(),
             'list_with_repeats': list(ms) + list(ms)}
    for name, mk in forms.items():
        r = _try(lambda: _ms(f, level=lv, atom_mask=mk))
        ctx.count(('maskform', name, c.key(), lv), True)
        _inc(st, 'mask_form_' + name)
        if r != ('ok', base):
            bad += 1
            ctx.fail('atom_mask given as %s does not remove the same identifiers as the same atoms given as a set' % name,
                     _payload(c, level=lv, mask=[int(x) for x in ms], form=name, got=repr(r)[:600], expected=repr(base)[:600]))
    # single atom: int, numpy integer == {atom}
    a = rng.choice(ret)
    base1 = _ms(f, level=lv, atom_mask={a})
    for name, mk in (('int', int(a)), ('np.int64', np.int64(a))):
        r = _try(lambda: _ms(f, level=lv, atom_mask=mk))
        r2 = _try(lambda: sorted((int(s.identifier), int(s.center_atom)) for s in f.get_shells_at_level(level=lv, atom_mask=mk)))
        want2 = sorted((int(s.identifier), int(s.center_atom)) for s in f.get_shells_at_level(level=lv, atom_mask={a}))
        ctx.count(('maskint', name, c.key(), lv), True)
        _inc(st, 'mask_single_' + name)
        if r != ('ok', base1) or r2 != ('ok', want2):
            bad += 1
            ctx.fail('atom_mask=%s(%d) (documented: "int or set of int") does not behave as the mask {%d}: get_fingerprint_at_level %s, get_shells_at_level %s'
                     % (name, a, a, repr(r)[:160], repr(r2)[:160]), _payload(c, level=lv, mask=int(a), form=name), finding_key=KEY_INT_MASK)
    # get_shells_at_level: the mask removes exactly the shells whose substructure touches it; identifiers = the fingerprint's
    g = type(f)(bits=2 ** 32, level=c.o['level'], radius_multiplier=c.o['mult'], stereo=c.o['stereo'], counts=True, include_disconnected=c.o['incl'],
                rdkit_invariants=c.o['rdkit'], exclude_floating=c.o['exfloat'], remove_duplicate_substructs=c.o['remdup'])
    g.run(c.cid, c.mol)
    for lv2 in [None, -1] + list(range(c.k + 2)):
        mask = set(_mask(c, rng.choice(MASK_KINDS), rng))
        allsh = g.get_shells_at_level(level=lv2) if lv2 is not None else g.get_shells_at_level()
        got = g.get_shells_at_level(lv2, False, mask) if rng.random() < 0.5 else g.get_shells_at_level(level=lv2, atom_mask=mask)
        true_lv = lv2 if (lv2 is not None and 0 <= lv2 <= c.k) else c.k
        want_all = set((i, ce) for i, ce, s in c.obs[true_lv])
        touching = set((int(s.identifier), int(s.center_atom)) for s in allsh if set(int(x) for x in s.substruct.atoms) & mask)
        kept = set((int(s.identifier), int(s.center_atom)) for s in got)
        allk = set((int(s.identifier), int(s.center_atom)) for s in allsh)
        fpc = g.get_fingerprint_at_level(level=lv2, atom_mask=mask)
        ids = sorted((int(s.identifier) + 2 ** 32) % 2 ** 32 for s in got)
        cnt = sorted(i for i, v in fpc.counts.items() for _ in range(int(v)))
        ctx.count(('shells', c.key(), lv2, tuple(sorted(mask))), True)
        _inc(st, 'get_shells_at_level_vs_fingerprint')
        if allk != want_all or kept != allk - touching or len(got) != len(kept) or ids != [int(x) for x in cnt]:
            bad += 1
            ctx.fail('get_shells_at_level(level=%r, atom_mask=%s): shells %s; unmasked shells equal level_shells[%d]: %s; identifiers equal the count fingerprint: %s'
                     % (lv2, sorted(mask), 'are exactly those not touching the mask' if kept == allk - touching else 'are NOT exactly those not touching the mask',
                        true_lv, allk == want_all, ids == [int(x) for x in cnt]),
                     _payload(c, level=lv2, mask=sorted(int(x) for x in mask), kept=sorted(kept), touching=sorted(touching)))
    # exact=True: a generated level is returned as without it; anything else is refused with IndexError
    for lv3 in list(range(c.k + 1)) + [c.k + 1, c.k + 3, -1, None]:
        r = _try(lambda: _ms(f, level=lv3, exact=True))
        rs = _try(lambda: len(f.get_shells_at_level(level=lv3, exact=True)))
        ctx.count(('exact', c.key(), lv3), True)
        _inc(st, 'exact_true')
        if lv3 is not None and 0 <= lv3 <= c.k:
            good = r == ('ok', _ms(f, level=lv3)) and rs == ('ok', len(c.obs[lv3]))
        else:
            good = r[0] == 'err' and r[1].startswith('IndexError') and rs[0] == 'err' and rs[1].startswith('IndexError')
        if not good:
            bad += 1
            ctx.fail('exact=True at level %r (current_level %d): %s / %s' % (lv3, c.k, repr(r)[:200], repr(rs)[:100]), _payload(c, level=lv3, exact=True))
    # level / bits given as NumPy integers
    lv5, b5 = rng.choice(range(c.k + 1)), rng.choice([1024, 2 ** 32, 32])
    r = _try(lambda: _ms(f, level=np.int64(lv5), bits=np.int64(b5)))
    ctx.count(('npquery', c.key(), lv5, b5), True)
    _inc(st, 'numpy_level_and_bits_in_query')
    if r != ('ok', _ms(f, level=lv5, bits=b5)):
        bad += 1
        ctx.fail('get_fingerprint_at_level(level=np.int64(%d), bits=np.int64(%d)) differs from the call with Python ints: %s' % (lv5, b5, repr(r)[:300]), _payload(c))
    # positional == keyword
    lv4, b4, m4 = rng.choice(range(c.k + 1)), rng.choice([1024, 2 ** 32, 32]), set(rng.sample(ret, 1))
    r = _try(lambda: _ms_pos(f, lv4, b4, False, m4))
    ctx.count(('positional', c.key(), lv4, b4), True)
    _inc(st, 'positional_call')
    if r != ('ok', _ms(f, level=lv4, bits=b4, exact=False, atom_mask=m4)):
        bad += 1
        ctx.fail('get_fingerprint_at_level(%r, %r, False, %r) positional differs from the keyword call: %s' % (lv4, b4, m4, repr(r)[:300]), _payload(c))
    return bad


def _ms_pos(f, lv, b, ex, m):
    o = fpgen.obs(f.get_fingerprint_at_level(lv, b, ex, m))
    return (o['kind'], o['bits'], o['level'], tuple(o['idx']), tuple((k, str(v)) for k, v in o['cnt']))


def _new_fprinter(c):
    from e3fp.fingerprint.fprinter import Fingerprinter
    o = c.o
    return Fingerprinter(bits=c.bits, level=o['level'], radius_multiplier=o['mult'], stereo=o['stereo'], counts=c.counts, include_disconnected=o['incl'],
                         rdkit_invariants=o['rdkit'], exclude_floating=o['exfloat'], remove_duplicate_substructs=o['remdup'])


def run_call_forms(ctx, c, rng, alt=None):
    """Fingerprinter.run: conformer object alone, conformer object + molecule, keywords, molecule alone (first conformer), int id
    alone on the molecule the object already holds - every documented form must give the (model-confirmed) result of run(id, mol)."""
    st = _stat(ctx).setdefault('direct', {})
    bad = 0
    mol, cid = c.mol, c.cid
    other = [conf.GetId() for conf in mol.GetConformers() if conf.GetId() != cid]
    first = mol.GetConformers()[0].GetId()

    def obs_after(fn):
        f = _new_fprinter(c)
        fn(f)
        return (int(f.current_level), molfacts.observe(f))
    want = (c.k, c.obs)
    f0 = m1lib.Case(c.name + ' first conformer', mol, first, c.o, bits=c.bits, counts=c.counts) if first != cid else c
    forms = [('run(conformer)', lambda f: f.run(mol.GetConformer(cid))),
             ('run(conformer, mol)', lambda f: f.run(mol.GetConformer(cid), mol)),
             ('run(conf=id, mol=mol)', lambda f: f.run(conf=cid, mol=mol)),
             ('run(mol=mol, conf=conformer)', lambda f: f.run(mol=mol, conf=mol.GetConformer(cid)))]
    if other:
        # the object has processed another conformer / the molecule before: same answer
        forms.append(('run(other, mol); run(conformer)', lambda f: (f.run(other[0], mol), f.run(mol.GetConformer(cid)))))
        forms.append(('run(other conformer); run(id, mol)', lambda f: (f.run(mol.GetConformer(other[0])), f.run(cid, mol))))
    # reset() / reset_mol() / reset_conf() between runs: the next run answers like a fresh object
    forms.append(('run(id, mol); reset(); run(id, mol)', lambda f: (f.run(cid, mol), f.reset(), f.run(cid, mol))))
    if other:
        forms.append(('run(other, mol); reset_mol(); run(conformer)', lambda f: (f.run(other[0], mol), f.reset_mol(), f.run(mol.GetConformer(cid)))))
        forms.append(('run(other, mol); reset_conf(); run(id, mol)', lambda f: (f.run(other[0], mol), f.reset_conf(), f.run(cid, mol))))
    if alt is not None and alt.mol is not mol:
        # the object holds ANOTHER molecule when it is handed a bare conformer / an id with the molecule
        forms.append(('run(id, other molecule); run(conformer)', lambda f: (f.run(alt.cid, alt.mol), f.run(mol.GetConformer(cid)))))
        forms.append(('run(conformer of other molecule); run(conformer, mol)', lambda f: (f.run(alt.mol.GetConformer(alt.cid)), f.run(mol.GetConformer(cid), mol))))
    for name, fn in forms:
        r = _try(lambda: obs_after(fn))
        ctx.count(('runform', name, c.key()), True)
        _inc(st, 'run_form: ' + name)
        if r != ('ok', want):
            bad += 1
            ctx.fail('%s does not give the identifiers of run(conf_id, mol) on the same conformer: %s' % (name, repr(r)[:300]), _payload(c, form=name))
    # conformer id as a NumPy integer (ids taken from an argsort / arange)
    for name, mk in (('np.int64', np.int64), ('np.int32', np.int32), ('np.intp', np.intp)):
        r = _try(lambda: obs_after(lambda f: f.run(mk(cid), mol)))
        ctx.count(('runform', name, c.key()), True)
        _inc(st, 'run_form: run(%s id, mol)%s' % (name, '' if cid != first else ' (first conformer)'))
        if r != ('ok', want):
            bad += 1
            silent = f0.err is None and r == ('ok', (f0.k, f0.obs))
            ctx.fail('run(%s(%d), mol) does not give the identifiers of run(%d, mol)%s: %s'
                     % (name, cid, cid, ' but SILENTLY those of the first conformer (id %d)' % first if silent else '', repr(r)[:200]),
                     _payload(c, form='run(%s(%d), mol)' % (name, cid), first_conformer_id=first), finding_key=KEY_RUN_NPINT if (silent or (r[0] == 'err' and 'Bad Conformer' in r[1] and first != 0)) else None)
    # molecule alone: "If `conf` not specified, first conformer is used"
    r = _try(lambda: obs_after(lambda f: f.run(mol=mol)))
    ctx.count(('runform', 'run(mol=mol)', c.key()), True)
    _inc(st, 'run_form: run(mol=mol)%s' % ('' if first == 0 else ' first id != 0'))
    if f0.err is None and r != ('ok', (f0.k, f0.obs)):
        bad += 1
        ctx.fail('run(mol=mol) (documented: the first conformer is used; first conformer id here: %d) does not give the identifiers of run(%d, mol): %s'
                 % (first, first, repr(r)[:300]), _payload(c, form='run(mol=mol)', first_conformer_id=first),
                 finding_key=KEY_RUN_NOCONF if (first != 0 and r[0] == 'err') else None)
    # int id alone: "conf is int ID; use existing mol"
    if other:
        r = _try(lambda: obs_after(lambda f: (f.run(other[0], mol), f.run(cid))))
        ctx.count(('runform', 'run(id) on held mol', c.key()), True)
        _inc(st, 'run_form: run(other, mol); run(id)')
        if r != ('ok', want):
            bad += 1
            ctx.fail('run(conf_id) on the molecule the fingerprinter already holds (documented: "Input conformer or conformer in `mol`"; code: "conf is int ID; '
                     'use existing mol") does not give the identifiers of run(conf_id, mol): %s' % repr(r)[:300],
                     _payload(c, form='run(%d, mol); run(%d)' % (other[0], cid)), finding_key=KEY_RUN_INT if r[0] == 'err' else None)
    return bad


def never_run(ctx):
    """Queries on an object that has not run are refused with IndexError."""
    from e3fp.fingerprint.fprinter import Fingerprinter
    bad = 0
    for kw in ({}, {'level': 3}, {'level': -1, 'remove_duplicate_substructs': True}):
        f = Fingerprinter(**kw)
        rs = [_try(lambda: f.get_fingerprint_at_level()), _try(lambda: f.get_fingerprint_at_level(level=0)), _try(lambda: f.get_shells_at_level(0)),
              _try(lambda: f.get_shells_at_level(level=None, atom_mask={1}))]
        ctx.count(('never_run', json.dumps(kw)), True)
        if f.current_level is not None or not all(r[0] == 'err' and r[1].startswith('IndexError') for r in rs):
            bad += 1
            ctx.fail('a Fingerprinter that has not run: current_level %r, queries %s (IndexError expected)' % (f.current_level, repr(rs)[:300]), {'ctor': kw})
    _inc(_stat(ctx).setdefault('direct', {}), 'never_run_objects', 3)
    return bad


def hash_forms(ctx):
    """hash_int64_array / signed_to_unsigned_int on the value kinds the pipeline passes (and refuses)."""
    from e3fp.fingerprint import fprinter
    rng = ctx.rng
    bad = 0
    st = _stat(ctx).setdefault('direct', {})
    for _ in range(ctx.n(40, 400)):
        xs = [rng.randrange(-2 ** 63, 2 ** 63) if rng.random() < 0.5 else rng.randrange(-6, 7) for _ in range(rng.choice([2, 4, 6, 12, 30]))]
        a = np.array(xs, dtype=np.int64)
        h = int(fprinter.hash_int64_array(a))
        alts = {'2-D view': _try(lambda: int(fprinter.hash_int64_array(a.reshape(2, -1)))),
                'copy of a strided view': _try(lambda: int(fprinter.hash_int64_array(np.repeat(a, 2)[::2].copy()))),
                'explicit default seed': _try(lambda: int(fprinter.hash_int64_array(a, fprinter.MMH3_SEED))),
                'keyword seed': _try(lambda: int(fprinter.hash_int64_array(array=a, seed=0))),
                '"<i8"': _try(lambda: int(fprinter.hash_int64_array(np.array(xs, dtype='<i8'))))}
        ctx.count(('hashform', tuple(xs)), True, n=len(alts))
        for name, r in alts.items():
            if r != ('ok', h):
                bad += 1
                ctx.fail('hash_int64_array of the same int64 values given as %s: %s, as a 1-D array: %d' % (name, r, h), {'array': xs, 'form': name})
        small = [x for x in xs if -2 ** 31 <= x < 2 ** 31] or [1]
        for name, arr in (('int32', np.array(small, dtype=np.int32)), ('float64', np.array(small, dtype=float)), ('uint64', np.array([abs(x) for x in small], dtype=np.uint64))):
            r = _try(lambda: fprinter.hash_int64_array(arr))
            ctx.count(('hashrefuse', name, tuple(small)), True)
            if not (r[0] == 'err' and r[1].startswith('TypeError')):
                bad += 1
                ctx.fail('hash_int64_array accepted a %s array (TypeError expected: other widths hash other bytes): %s' % (name, repr(r)[:100]), {'array': small, 'dtype': name})
        # signed -> unsigned on int / numpy scalar / array / other modulus
        hs = [rng.randrange(-2 ** 31, 2 ** 31) for _ in range(5)] + [-2 ** 31, 2 ** 31 - 1, -1, 0, h]
        want = [x % 2 ** 32 for x in hs]
        got = {'int': [int(fprinter.signed_to_unsigned_int(x)) for x in hs],
               'np.int64 scalar': [int(fprinter.signed_to_unsigned_int(np.int64(x))) for x in hs],
               'int64 array': [int(v) for v in fprinter.signed_to_unsigned_int(np.array(hs, dtype=np.int64))],
               'keyword bits': [int(fprinter.signed_to_unsigned_int(x, bits=2 ** 32)) for x in hs]}
        ctx.count(('s2u', tuple(hs)), True, n=len(got))
        for name, g in got.items():
            if g != want:
                bad += 1
                ctx.fail('signed_to_unsigned_int on %s: %s, expected %s' % (name, g, want), {'values': hs, 'form': name})
    _inc(st, 'hash_value_forms', ctx.n(40, 400))
    return bad


CHILD = r'''
import sys, json
sys.modules['mpi4py'] = None
import warnings, logging
warnings.filterwarnings('ignore'); logging.disable(logging.CRITICAL)
from rdkit import Chem
from rdkit.Geometry import Point3D
from e3fp.fingerprint.fprinter import Fingerprinter
jobs = json.load(open(sys.argv[1]))
out = []
for j in jobs:
    m = Chem.MolFromMolBlock(j['molblock'], removeHs=False)
    conf = m.GetConformer()
    for i, xyz in enumerate(j['hex']):
        conf.SetAtomPosition(i, Point3D(*[float.fromhex(v) for v in xyz]))
    o = j['opts']
    f = Fingerprinter(bits=j['bits'], level=o['level'], radius_multiplier=o['mult'], stereo=o['stereo'], counts=j['counts'], include_disconnected=o['incl'],
                      rdkit_invariants=o['rdkit'], exclude_floating=o['exfloat'], remove_duplicate_substructs=o['remdup'])
    f.run(0, m)
    obs = {str(int(l)): sorted([int(s.identifier), int(s.center_atom), sorted(int(x) for x in s.substruct.atoms)] for s in sh) for l, sh in f.level_shells.items()}
    fp = f.get_fingerprint_at_level()
    out.append({'k': int(f.current_level), 'obs': obs, 'idx': [int(i) for i in fp.indices], 'cnt': sorted([int(k), int(v)] for k, v in fp.counts.items())})
json.dump(out, open(sys.argv[2], 'w'))
'''


def other_process(ctx, cases):
    """'The same input yields the same identifiers in every process': the chosen inputs are re-run in a fresh interpreter with another
    string-hash seed (set iteration orders of str-keyed containers differ) and compared with this process."""
    from rdkit import Chem
    from rdkit.Geometry import Point3D
    jobs, here = [], []
    for c in cases:
        if c.err is not None or any(not isinstance(v, (int, float, bool, type(None))) for v in c.o.values()):
            continue
        p = c.payload()
        jobs.append({'molblock': p['molblock'], 'hex': p['exact_coords_hex'], 'opts': m1lib.opts_json(c.o), 'bits': int(c.bits), 'counts': bool(c.counts), 'name': c.name})
    if not jobs:
        return 0
    # this process, on the same reconstruction (mol block -> molecule), so that only the process differs
    for j in jobs:
        m = Chem.MolFromMolBlock(j['molblock'], removeHs=False)
        conf = m.GetConformer()
        for i, xyz in enumerate(j['hex']):
            conf.SetAtomPosition(i, Point3D(*[float.fromhex(v) for v in xyz]))
        f, obs, k = molfacts.impl_run(m, 0, j['opts'], bits=j['bits'], counts=j['counts'])
        fp_ = f.get_fingerprint_at_level()
        here.append({'k': k, 'obs': {str(l): [[i, ce, list(s)] for i, ce, s in v] for l, v in obs.items()}, 'idx': [int(i) for i in fp_.indices],
                     'cnt': sorted([int(a), int(b)] for a, b in fp_.counts.items())})
    d = ctx.workdir
    open(os.path.join(d, 'c02_child.py'), 'w').write(CHILD)
    json.dump(jobs, open(os.path.join(d, 'c02_jobs.json'), 'w'))
    env = dict(os.environ, PYTHONHASHSEED=str(ctx.rng.randrange(1, 2 ** 31)), PYTHONPATH=os.path.join(core.REPO, 'src'))
    p = subprocess.run([sys.executable, '-B', os.path.join(d, 'c02_child.py'), os.path.join(d, 'c02_jobs.json'), os.path.join(d, 'c02_child_out.json')],
                       env=env, stdout=subprocess.PIPE, stderr=subprocess.STDOUT, text=True, timeout=600)
    bad = 0
    if p.returncode != 0:
        ctx.fail('fingerprinting the chosen inputs in a fresh interpreter failed: %s' % p.stdout[-600:], {'jobs': [j['name'] for j in jobs]})
        return 1
    there = json.load(open(os.path.join(d, 'c02_child_out.json')))
    for j, a, b in zip(jobs, here, there):
        ctx.count(('other_process', j['name'], json.dumps(j['opts'], sort_keys=True)), True)
        if a != b:
            bad += 1
            ctx.fail('a fresh interpreter (PYTHONHASHSEED=%s) gives other identifiers than this process for the same molecule, conformer and options' % env['PYTHONHASHSEED'],
                     {'name': j['name'], 'opts': j['opts'], 'molblock': j['molblock'], 'exact_coords_hex': j['hex'], 'this_process': a, 'fresh_process': b})
    _inc(_stat(ctx).setdefault('direct', {}), 'fresh_interpreter_inputs', len(jobs))
    return bad


def shells_generator_alone(ctx, c):
    """ShellsGenerator built without the optional arguments (coordinates and bonded-atom table derived by itself) produces the shells
    the Fingerprinter's own generator produced."""
    from e3fp.fingerprint.fprinter import ShellsGenerator
    f = c.f
    sg = ShellsGenerator(f.conf, f.atoms, radius_multiplier=c.o['mult'], include_disconnected=c.o['incl'])
    mine = {}
    for lv in range(c.k + 1):
        d = next(sg)
        mine[lv] = {int(a): sorted(int(x) for x in s.substruct.atoms) for a, s in d.items()}
    theirs = {lv: {int(a): sorted(int(x) for x in s.substruct.atoms) for a, s in f.shells_gen.get_shells_at_level(lv).items()} for lv in range(c.k + 1)}
    ctx.count(('shellsgen', c.key()), True)
    _inc(_stat(ctx).setdefault('direct', {}), 'shells_generator_alone')
    if mine != theirs:
        ctx.fail('ShellsGenerator(conf, atoms, radius_multiplier, include_disconnected) alone yields other substructures than inside the Fingerprinter',
                 _payload(c, alone={str(k): v for k, v in mine.items()}, inside={str(k): v for k, v in theirs.items()}))
        return 1
    return 0


def pdb_names(ctx, c):
    """substructs_to_pdb names its files after the folded unsigned identifiers of the level's shells."""
    lv = c.k
    bits = 4096
    d = os.path.join(ctx.workdir, 'pdb_%d' % len(os.listdir(ctx.workdir)))
    r = _try(lambda: sorted(os.path.basename(p) for p in c.f.substructs_to_pdb(level=lv, bits=bits, out_dir=d)))
    want = sorted('%d.pdb.gz' % (((i + 2 ** 32) % 2 ** 32) % bits) for i, ce, s in c.obs[lv])
    ctx.count(('pdb', c.key()), True)
    _inc(_stat(ctx).setdefault('direct', {}), 'substructs_to_pdb_names')
    if r != ('ok', want):
        ctx.fail('substructs_to_pdb(level=%d, bits=%d) file names %s, identifiers of the level folded: %s' % (lv, bits, repr(r)[:300], want[:12]), _payload(c))
        return 1
    return 0


def direct_checks(ctx, cases):
    """Implementation-level statements, on directed/random cases whose run the model comparison covers."""
    rng = ctx.rng
    bad = 0
    usable = [c for c in cases if c.err is None and getattr(c, 'fresh', True) and len(c.heavy_retained()) >= 2 and len(c.heavy_retained()) <= 16
              and all(isinstance(v, (int, float, bool, type(None))) for v in c.o.values()) and np.log2(c.bits).is_integer() and c.bits >= 32]
    rng.shuffle(usable)
    def rank(c):
        # first the inputs on which taking the wrong conformer shows: not the first conformer, and the first conformer fingerprints differently
        first = c.mol.GetConformers()[0].GetId()
        if c.cid == first:
            return 2
        r = _try(lambda: molfacts.impl_run(c.mol, first, c.o, bits=c.bits, counts=c.counts)[1])
        return 0 if r != ('ok', c.obs) else 1
    multi = sorted([c for c in usable if c.mol.GetNumConformers() > 1], key=rank)
    _inc(_stat(ctx).setdefault('direct', {}), 'run_form_inputs_where_first_conformer_differs', sum(1 for c in multi[:ctx.n(8, 40)] if rank(c) == 0))
    gapped = [c for c in usable if getattr(c, 'tag', '') == 'gapped_conformer_ids']
    for c in usable[:ctx.n(10, 60)]:
        bad += mask_and_query_forms(ctx, c, rng)
    for c in (gapped[:1] + [c for c in multi if c not in gapped[:1]])[:ctx.n(8, 40)]:
        bad += run_call_forms(ctx, c, rng, alt=rng.choice(usable))
    conn = [c for c in usable if not c.o['incl']]
    for c in conn[:ctx.n(2, 10)] + [c for c in usable if c.o['incl']][:ctx.n(2, 10)]:
        bad += shells_generator_alone(ctx, c)
    for c in usable[:ctx.n(1, 4)]:
        bad += pdb_names(ctx, c)
    bad += never_run(ctx)
    bad += hash_forms(ctx)
    bad += other_process(ctx, [c for c in usable if c.o['stereo']][:ctx.n(8, 40)])
    return bad


def replay_direct(ctx, d, path):
    """bin/check C02 --replay <file> for a violation of an implementation-level check: the recorded molecule (one conformer), options and
    call form are shown; the mask / exact / positional checks are re-run on it (the run(...) forms need the other conformers of the
    generated molecule: re-run the check with the recorded seed, or findings/repro_cov_c02.py for the listed findings)."""
    import random
    from rdkit import Chem
    from rdkit.Geometry import Point3D
    c = d['case']
    print('replay of %s: %s' % (path, d.get('what', '')[:400]))
    print(json.dumps({k: v for k, v in c.items() if k not in ('molblock', 'exact_coords_hex', 'queries')}, indent=1, default=str)[:3000])
    m = Chem.MolFromMolBlock(c['molblock'], removeHs=False)
    conf = m.GetConformer()
    for i, xyz in enumerate(c.get('exact_coords_hex', [])):
        conf.SetAtomPosition(i, Point3D(*[float.fromhex(v) for v in xyz]))
    o = c['opts']
    if any(not isinstance(v, (int, float, bool, type(None))) for v in o.values()):
        print('(options were NumPy values; shown as recorded)')
        return 0
    case = m1lib.Case(c.get('name', 'replay'), m, 0, o, bits=c.get('bits', 2 ** 32), counts=c.get('counts', False))
    if case.err is not None or len(case.heavy_retained()) < 1:
        print('implementation raises %s' % case.exc)
        return 1
    bad = 0
    for i in range(6):
        bad += mask_and_query_forms(ctx, case, random.Random(i))
    for v in ctx.violations[:6]:
        print('  still failing: ' + v['what'][:300])
    if bad:
        print('VIOLATION property=%s replay=%s' % (ctx.pid, path))
        return 1
    print('the mask / exact / positional call forms hold on this input now (run(...) forms: seed %s, tier %s)' % (d.get('seed'), d.get('tier')))
    return 0
