"""C03 - fingerprints do not depend on atom numbering or conformer storage order (Properties/C03.v)."""
import core
import m1lib
import molfacts
import molgen


def renumbered(m, rng):
    from rdkit import Chem
    n = m.GetNumAtoms()
    order = list(range(n))
    rng.shuffle(order)
    return Chem.RenumberAtoms(m, order), order     # new atom i = old atom order[i]


def reordered_confs(m, rng):
    """Same molecule, conformers stored in another order (ids reassigned 0..n-1); returns (mol, perm) with new conf j = old conf perm[j]."""
    from rdkit import Chem
    confs = list(m.GetConformers())
    perm = list(range(len(confs)))
    rng.shuffle(perm)
    m2 = Chem.Mol(m)
    m2.RemoveAllConformers()
    for j in perm:
        m2.AddConformer(Chem.Conformer(confs[j]), assignId=True)
    return m2, perm


def run(ctx):
    ok, res = core.proof_step(ctx)
    rng = ctx.rng
    found = False
    # tie: the model on renumbered inputs (its atoms are identified by index, so any numbering is a different model input)
    pool = []
    for (name, m, cid) in molgen.pool(rng, ctx.n(50, 900)):
        m2, order = renumbered(m, rng)
        pool.append((name + ' renumbered', m2, cid))
    cases = m1lib.gen_cases(ctx, ctx.n(45, 800), pool=pool)
    found |= m1lib.run_cases(ctx, cases, 'C03 model/implementation tie on renumbered molecules') > 0
    # search on the implementation: random permutations and conformer orders
    stats = {'permutations': 0, 'conformer_orders': 0, 'skipped_unstable': 0}
    for (name, m, cid) in molgen.pool(rng, ctx.n(50, 600)):
        o = molgen.rand_opts(rng)
        if m1lib.is_unstable(m, cid, o):
            stats['skipped_unstable'] += 1
            continue
        r0 = m1lib.base_run(ctx, name, m, cid, o)
        if r0 is None:
            continue
        f0, obs0, k0 = r0
        base = (k0, m1lib.all_level_ids(f0), m1lib.fp_multiset(f0, None, 1024))
        for j in range(ctx.n(3, 30)):
            m2, order = renumbered(m, rng)
            if j % 2 == 1:
                # the SAME Fingerprinter object that fingerprinted the original numbering (and the previous permutations): the property
                # holds for whatever object computes the fingerprint
                f0.run(cid, m2)
                f1, obs1, k1 = f0, molfacts.observe(f0), int(f0.current_level)
                stats['permutations_on_reused_object'] = stats.get('permutations_on_reused_object', 0) + 1
            else:
                f1, obs1, k1 = molfacts.impl_run(m2, cid, o)
            stats['permutations'] += 1
            ctx.count(('perm', name, cid, str(o), tuple(order)), k0 >= 1 and order != sorted(order))
            got = (k1, m1lib.all_level_ids(f1), m1lib.fp_multiset(f1, None, 1024))
            if got != base:
                found = True
                from rdkit import Chem
                ctx.fail('fingerprint changed under atom renumbering', {'name': name, 'conf': cid, 'opts': m1lib.opts_json(o), 'new_order': order,
                         'molblock': Chem.MolToMolBlock(m, confId=cid), 'levels_before': {str(k): v for k, v in base[1].items()},
                         'levels_after': {str(k): v for k, v in got[1].items()}}, finding_key='C03:renumbering')
                break
        if m.GetNumConformers() > 1:
            m3, perm = reordered_confs(m, rng)
            newpos = perm.index([c.GetId() for c in m.GetConformers()].index(cid))
            f2, obs2, k2 = molfacts.impl_run(m3, newpos, o)
            stats['conformer_orders'] += 1
            ctx.count(('conforder', name, cid, str(o), tuple(perm)), k0 >= 1)
            got = (k2, m1lib.all_level_ids(f2), m1lib.fp_multiset(f2, None, 1024))
            if got != base:
                found = True
                ctx.fail('fingerprint of a conformer changed when the conformers were stored in another order',
                         {'name': name, 'conf': cid, 'opts': m1lib.opts_json(o), 'conformer_permutation': perm}, finding_key='C03:conformer-order')
    ctx.coverage['input_distribution']['metamorphic'] = stats
    ctx.coverage['rule'] = ('tie: gridded cases whose molecule was renumbered by a random permutation (Chem.RenumberAtoms) before both sides see it; search: the '
                            'implementation re-run under random atom permutations and conformer storage orders comparing every level\'s identifier multiset, '
                            'current_level and a folded fingerprint; non-trivial: reaches level >= 1 under a non-identity permutation')
    ctx.assumptions += ['the implementation iterates frozensets of shells in hash order while the model iterates in atom order: agreement on renumbered inputs is the evidence that the order is immaterial',
                        'inputs within 2^-30 of a decision threshold are tagged (harness/m1_spec.py) and skipped']
    if not ok:
        core.report_broken_proof(ctx, res, found)


def replay(ctx, path):
    return m1lib.replay_case(ctx, path)
