"""C03 - fingerprints do not depend on atom numbering or conformer storage order (Properties/C03.v).

Streams: (1) model/implementation tie on renumbered gridded molecules (shared pool, plus - coverage extension - symmetric compounds,
flat layouts, error-path molecules and threshold-directed symmetric centres, under structured permutations and rebuilt molecules);
(2) metamorphic search on the implementation with random shuffles and re-assigned conformer ids; (3), (4) the two implementation-
level streams of props/c03_cov.py (audit table: work/coverage_C03.md)."""
import core
import m1lib
import molfacts
import molgen
from props import c03_cov as C


def renumbered(m, rng):
    from rdkit import Chem
    n = m.GetNumAtoms()
    order = list(range(n))
    rng.shuffle(order)
    return Chem.RenumberAtoms(m, order), order     # new atom i = old atom order[i]


def reordered_confs(m, rng):
    """Same molecule, conformers stored in another order (ids reassigned 0..n-1); returns (mol, perm) with new conf j = old conf perm[j]."""
    from rdkit import Chem
    confs = list(m.GetConformers())
    perm = list(range(len(confs)))
    rng.shuffle(perm)
    m2 = Chem.Mol(m)
    m2.RemoveAllConformers()
    for j in perm:
        m2.AddConformer(Chem.Conformer(confs[j]), assignId=True)
    return m2, perm


def run(ctx):
    ok, res = core.proof_step(ctx)
    rng = ctx.rng
    found = False
    # tie: the model on renumbered inputs (its atoms are identified by index, so any numbering is a different model input)
    pool = []
    tie_kinds = {}
    for (name, m, cid) in molgen.pool(rng, ctx.n(50, 900)):
        if rng.random() < 0.5:
            m2, order = renumbered(m, rng)
            kind = 'random'
        else:
            # coverage extension: structured permutations and rebuilt molecules (props/c03_cov.py)
            m2, order, kind = C.variant_of(m, rng.choice(C.PERM_KINDS), rng)
        tie_kinds[kind] = tie_kinds.get(kind, 0) + 1
        pool.append((name + ' renumbered (%s)' % kind, m2, cid))
    cases = m1lib.gen_cases(ctx, ctx.n(45, 800), pool=pool)
    # coverage extension: symmetric / repeated-fragment compounds and threshold-directed symmetric centres, renumbered, against the model
    xpool, spool = [], []
    for (cls, name, m, cid, fixed) in C.bases(ctx, ctx.n(24, 300), 0, 0, 0, 0, ctx.n(6, 60), ctx.n(4, 30)):
        m2, order, kind = C.variant_of(m, rng.choice(C.PERM_KINDS), rng)
        tie_kinds[kind] = tie_kinds.get(kind, 0) + 1
        xpool.append(('%s [%s] renumbered (%s)' % (name, cls, kind), m2, cid))
    for (cls, name, m, cid, fixed) in C.bases(ctx, 0, 0, ctx.n(20, 200), 0, 0, 0, 0):
        m2, order, kind = C.variant_of(m, rng.choice(C.PERM_KINDS), rng)
        spool.append(('%s renumbered (%s)' % (name, kind), m2, cid))
    # gen_cases takes the first n usable entries: put the rare classes (large, flat, error-path) first, then shuffle the rest, so that
    # every class reaches the model tie in both tiers
    rare = [x for x in xpool if '[large]' in x[0] or '[flat' in x[0] or '[error' in x[0]]
    rest = [x for x in xpool if x not in rare]
    rng.shuffle(rare)
    rng.shuffle(rest)
    xpool = rare[:8] + rest + rare[8:]
    ctx.coverage['input_distribution']['tie_rare_classes_first'] = [x[0][:60] for x in rare[:8]]
    cases += m1lib.gen_cases(ctx, ctx.n(16, 250), pool=xpool)
    cases += m1lib.gen_cases(ctx, ctx.n(10, 150), pool=spool,
                             opt_filter=lambda o: dict(o, stereo=True, level=max(1, o['level'] or 2), mult=max(o['mult'], 1.5), incl=True))
    ctx.coverage['input_distribution']['tie_permutation_kinds'] = tie_kinds
    found |= m1lib.run_cases(ctx, cases, 'C03 model/implementation tie on renumbered molecules') > 0
    # search on the implementation: random permutations and conformer orders
    stats = {'permutations': 0, 'conformer_orders': 0, 'skipped_unstable': 0}
    for (name, m, cid) in molgen.pool(rng, ctx.n(50, 600)):
        o = molgen.rand_opts(rng)
        if m1lib.is_unstable(m, cid, o):
            stats['skipped_unstable'] += 1
            continue
        r0 = m1lib.base_run(ctx, name, m, cid, o)
        if r0 is None:
            continue
        f0, obs0, k0 = r0
        base = (k0, m1lib.all_level_ids(f0), m1lib.fp_multiset(f0, None, 1024))
        for j in range(ctx.n(3, 30)):
            m2, order = renumbered(m, rng)
            if j % 2 == 1:
                # the SAME Fingerprinter object that fingerprinted the original numbering (and the previous permutations): the property
                # holds for whatever object computes the fingerprint
                f0.run(cid, m2)
                f1, obs1, k1 = f0, molfacts.observe(f0), int(f0.current_level)
                stats['permutations_on_reused_object'] = stats.get('permutations_on_reused_object', 0) + 1
            else:
                f1, obs1, k1 = molfacts.impl_run(m2, cid, o)
            stats['permutations'] += 1
            ctx.count(('perm', name, cid, str(o), tuple(order)), k0 >= 1 and order != sorted(order))
            got = (k1, m1lib.all_level_ids(f1), m1lib.fp_multiset(f1, None, 1024))
            if got != base:
                found = True
                from rdkit import Chem
                ctx.fail('fingerprint changed under atom renumbering', {'name': name, 'conf': cid, 'opts': m1lib.opts_json(o), 'new_order': order,
                         'molblock': Chem.MolToMolBlock(m, confId=cid), 'levels_before': {str(k): v for k, v in base[1].items()},
                         'levels_after': {str(k): v for k, v in got[1].items()}}, finding_key='C03:renumbering')
                break
        if m.GetNumConformers() > 1:
            m3, perm = reordered_confs(m, rng)
            newpos = perm.index([c.GetId() for c in m.GetConformers()].index(cid))
            f2, obs2, k2 = molfacts.impl_run(m3, newpos, o)
            stats['conformer_orders'] += 1
            ctx.count(('conforder', name, cid, str(o), tuple(perm)), k0 >= 1)
            got = (k2, m1lib.all_level_ids(f2), m1lib.fp_multiset(f2, None, 1024))
            if got != base:
                found = True
                ctx.fail('fingerprint of a conformer changed when the conformers were stored in another order',
                         {'name': name, 'conf': cid, 'opts': m1lib.opts_json(o), 'conformer_permutation': perm}, finding_key='C03:conformer-order')
    ctx.coverage['input_distribution']['metamorphic'] = stats
    # coverage extension (props/c03_cov.py): structured permutations, rebuilt molecules, symmetric / lattice / flat / error-path
    # molecules, every level + masks + count fingerprints, call sequences; conformers stored with other ids / orders and designated
    # by id or by object, one object walking over the conformers of one molecule object
    blist = C.bases(ctx, ctx.n(30, 200), ctx.n(22, 150), ctx.n(12, 80), ctx.n(12, 80), ctx.n(8, 50), ctx.n(8, 40), ctx.n(8, 30))
    found |= C.stream_permutations(ctx, blist, ctx.n(8, 16))
    found |= C.stream_conformers(ctx, ctx.n(30, 150), ctx.n(4, 8))
    ctx.coverage['rule'] = ('tie: gridded cases whose molecule was renumbered by a random permutation (Chem.RenumberAtoms) before both sides see it; search: the '
                            'implementation re-run under random atom permutations and conformer storage orders comparing every level\'s identifier multiset, '
                            'current_level and a folded fingerprint; coverage extension (props/c03_cov.py): 15 kinds of structured permutations incl. rebuilt '
                            'molecules with shuffled / flipped bonds, symmetric, lattice, flat, threshold-directed and error-path molecules, per level the '
                            '(identifier, substructure[, centre]) multiset mapped back, bit and count fingerprints at every level with renumbered atom masks, '
                            'call sequences on one object, conformers re-stored under other ids / orders, designated by id or object, walked over by one object; '
                            'non-trivial: reaches level >= 1 under a non-identity permutation / another storage')
    ctx.assumptions += ['the implementation iterates frozensets of shells in hash order while the model iterates in atom order: agreement on renumbered inputs is the evidence that the order is immaterial',
                        'inputs within 2^-30 of a decision threshold are tagged (harness/m1_spec.py) and skipped',
                        'hash values of Shell / Substruct keys are built from ints, tuples and frozensets of ints only, so set iteration order depends on the atom '
                        'indices (varied by the permutations) and not on PYTHONHASHSEED: no hash-seed subprocesses are run',
                        'conformers are designated by Python int id or by Conformer object (NumPy integer ids are not usable: findings/repro_cov_c04.py)']
    if not ok:
        core.report_broken_proof(ctx, res, found)


def replay(ctx, path):
    import json
    d = json.load(open(path))
    if isinstance(d.get('case'), dict) and d['case'].get('cov'):
        rc = C.replay(ctx, d)
        print('VIOLATION property=%s replay=%s' % (ctx.pid, path) if rc else 'the recorded case no longer fails')
        return rc
    return m1lib.replay_case(ctx, path)
