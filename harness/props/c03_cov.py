"""C03, coverage extension (part module of c03.py; audit table in work/coverage_C03.md).

Input classes and call sequences that the first generator of c03.py (uniformly random Chem.RenumberAtoms shuffles of the shared
pool, conformers re-stored with ids 0..n-1, a fresh or once-reused Fingerprinter, one bit fingerprint folded to 1024) did not draw.
Everything here is INSIDE C03's quantifier (all molecules, conformers in general position, all atom permutations, all conformer
orders, all option settings); inputs that sit within 2^-30 of a decision threshold are tagged by the exact-arithmetic transcript
(harness/m1_spec.py) and skipped, as in c03.py.

  permutations   structured ones besides random shuffles: identity (a new object), reversal, one transposition, a transposition of
                 two symmetry-equivalent heavy atoms (the tie-breaks by atom index), cyclic shifts, all hydrogens first / last, heavy
                 atoms reversed under fixed hydrogens, canonical-rank order and its reverse, a permutation of a permutation, and a
                 molecule REBUILT atom by atom (RWMol) in the new order with the bond list shuffled and bond directions flipped
                 (Chem.RenumberAtoms keeps both);
  molecules      highly symmetric and repeated-fragment compounds (many equal identifiers: every tie-break is exercised), identical
                 ions / solvent copies, meso / E-Z pairs, isotope labels, flat 2-D layouts, the threshold-directed synthetic centres
                 (mean-vector branch of pick_y), lattice molecules (exact distance ties), near-radius scalings; molecules on which
                 fingerprinting raises (no retained atom, dative bonds): the renumbered molecule must raise the same error class;
  observations   per level the multiset of (identifier, substructure mapped back) - with duplicate removal off the centre as well -,
                 current_level, and get_fingerprint_at_level at every explicit level / None / -1 / levels beyond the last one, bits
                 32..2^32 or the constructor's, exact=True, bit AND count fingerprinters, atom masks renumbered along (sets, lists,
                 frozensets, NumPy integers, non-retained atoms, all atoms);
  call sequences a fresh object, the object that ran the original numbering, original -> renumbered -> original on one object, the
                 renumbered molecule twice, a copy (Chem.Mol) of the same molecule;
  conformers     re-stored in another order with the ORIGINAL ids, with gapped / shifted ids, reversed, rotated, as the only
                 conformer, sub-sets; designated by id, by Conformer object with and without `mol`; one Fingerprinter walking over all
                 conformers of one molecule object in storage order (what fprints_dict_from_mol does), A B A sequences, and atom
                 renumbering combined with conformer re-ordering."""
import numpy as np
import fpgen
import m1lib
import molfacts
import molgen

EXTRA_SMILES = [
    'C1C2CC3CC1CC(C2)C3', 'c1ccc2cc3ccccc3cc2c1', 'B1NBNBN1', 'CC(C)(C)C(C)(C)C', 'FC(F)(F)C(F)(F)F', 'ClC(Cl)(Cl)Cl', 'OS(=O)(=O)O',
    '[NH4+].[NH4+].[O-]S(=O)(=O)[O-]', 'O.O.O', 'CCO.CCO', 'c1ccccc1.c1ccccc1', '[Na+].[Na+].[O-]C(=O)C([O-])=O', 'C1CC1C1CC1',
    'C[C@H](F)[C@@H](F)C', 'C[C@H](F)[C@H](F)C', 'F/C=C/F', 'F/C=C\\F', 'C[N+](C)(C)C', 'P(c1ccccc1)(c1ccccc1)c1ccccc1',
    'C1CCC2(CC1)CCCCC2', 'CC(C)(C)C(C(C)(C)C)C(C)(C)C', 'C1=CC2=CC=CC2=C1', 'O=C1C=CC(=O)C=C1', 'N(C)(C)C', 'c1cc2ccc3cccc4ccc(c1)c2c34',
    '[2H]C([2H])([2H])C([2H])([2H])[2H]', '[13CH3][13CH3]', 'C[13CH2]C', 'ClC1C(Cl)C(Cl)C(Cl)C(Cl)C1Cl', 'OB(O)O', 'C1COC2(O1)OCCO2',
    '[O-][N+](=O)c1cc([N+](=O)[O-])cc([N+](=O)[O-])c1', 'C#CC#CC#C', 'S1SSSSSSS1', 'CC.CC.CC', '[Cl-].[Cl-].[Ca+2]',
]
LARGE_SMILES = ['CCCCCCCCCCCCCCCCCCCCCC', 'CC(C)C[C@H](NC(=O)[C@H](C)N)C(=O)N[C@@H](Cc1ccccc1)C(=O)N[C@@H](CO)C(=O)O',
                'CCCCCCCCCCCCCCCCCCCCCCCCCCCCCCCCCCCCCCCCCCCC', 'OC[C@H]1O[C@@H](O[C@H]2[C@H](O)[C@@H](O)[C@H](O)O[C@@H]2CO)[C@H](O)[C@@H](O)[C@@H]1O']
# fingerprinting raises on these under some / all options (no retained atom; bond type outside the table)
ERROR_SMILES = ['N->[Pt]', '[NH3]->[Pt](<-[NH3])(Cl)Cl', '[H][H]', '[Na+].[Cl-]', 'O.O.O', '[2H]O[2H].[2H]O[2H]', 'CC(=O)O->[Cu]']
FLAT_SMILES = ['Cn1cnc2c1c(=O)n(C)c(=O)n2C', 'c1ccccc1', 'CC(=O)Oc1ccccc1C(=O)O', 'c1ccc2ccccc2c1', 'ClC=CCl', 'OCC(O)CO', 'F[C@](Cl)(Br)I',
               'C1C2CC3CC1CC(C2)C3', 'CC(C)(C)C', 'c1ccccc1.c1ccccc1']

PERM_KINDS = ['random', 'random', 'reverse', 'transposition', 'swap_equivalent', 'swap_equivalent', 'rotate', 'hydrogens_first',
              'hydrogens_last', 'heavy_reversed', 'canonical_rank', 'canonical_rank_reversed', 'identity', 'composed', 'rebuilt', 'rebuilt']
SEQ_MODES = ['fresh', 'fresh', 'reused', 'aba', 'twice', 'copy']
QUERY_BITS = [None, None, None, 32, 64, 64, 1024, 1024, 4096, 2 ** 32, 2 ** 32, 1000]     # 1000: not a divisor of 2^32 (same outcome either way)


# ---------------------------------------------------------------------------------------------------------- molecules
def _embedded_any(smi, rng):
    """Embedded molecule for `smi`; 2-D layout lifted off the plane when ETKDG has no parameters (error-path molecules only)."""
    from rdkit import Chem
    from rdkit.Chem import AllChem
    from rdkit.Geometry import Point3D
    m = molgen.embedded(smi, nconf=2, seed=rng.choice([3, 11]), keep_hs=rng.random() < 0.5)
    if m is not None:
        return m
    key = ('c03cov-2d', smi)
    if key not in molgen._CACHE:
        m = Chem.MolFromSmiles(smi)
        if m is None:
            molgen._CACHE[key] = None
            return None
        m = Chem.AddHs(m)
        AllChem.Compute2DCoords(m)
        conf = m.GetConformer()
        for i in range(m.GetNumAtoms()):
            p = conf.GetAtomPosition(i)
            conf.SetAtomPosition(i, Point3D(p.x, p.y, 0.37 * ((i * 7) % 5) - 0.6))
        molgen._CACHE[key] = m
    return molgen._CACHE[key]


def flat_molecule(smi):
    from rdkit import Chem
    from rdkit.Chem import AllChem
    key = ('c03cov-flat', smi)
    if key not in molgen._CACHE:
        m = Chem.MolFromSmiles(smi)
        AllChem.Compute2DCoords(m)
        m.SetProp('_Name', 'flat')
        molgen._CACHE[key] = molfacts.gridded(m)
    return molgen._CACHE[key]


def bases(ctx, n_extra, n_pool, n_sym, n_lat, n_near, n_flat, n_err):
    """[(class, name, mol, conf_id, fixed options)]"""
    rng = ctx.rng
    out = []
    for _ in range(n_extra):
        smi = rng.choice(EXTRA_SMILES)
        m = _embedded_any(smi, rng)
        if m is not None:
            out.append(('symmetric_or_repeated', smi, m, rng.randrange(m.GetNumConformers()), {}))
    for (name, m, cid) in molgen.pool(rng, n_pool):
        out.append(('shared_pool', name, m, cid, {}))
    # molecules with more than 64 / 128 atoms (explicit hydrogens kept): a renumbering then moves heavy atoms to indices that no
    # small molecule has - where index-width assumptions (bit masks in a machine word, int8 ...) would show
    for smi in (LARGE_SMILES if not ctx.quick else LARGE_SMILES[:1] + [LARGE_SMILES[2]]):      # 68 and 134 atoms in every run
        m = molgen.embedded(smi, nconf=1, seed=3, keep_hs=True)
        if m is not None:
            out.append(('large', smi, m, 0, {'level': rng.choice([3, 5]), 'remdup': True}))
    for _ in range(n_sym):
        name, m, cid = molgen.synthetic_symmetric(rng)
        out.append(('threshold_directed_centre', name, m, cid, 'sym'))
    for _ in range(n_lat):
        name, m, cid, mult = molgen.lattice_molecule(rng)
        out.append(('lattice_exact_ties', name, m, cid, {'mult': mult, 'incl': True, 'level': rng.choice([2, 3, 4, 5])}))
    for _ in range(n_near):
        name, m, cid, mult, level, delta = molgen.near_radius_molecule(rng)
        out.append(('near_radius', name, m, cid, {'mult': mult, 'level': level, 'incl': True}))
    for _ in range(n_flat):
        smi = rng.choice(FLAT_SMILES)
        out.append(('flat_2d', 'flat ' + smi, flat_molecule(smi), 0, {'level': rng.choice([2, 3, 5])}))
    for _ in range(n_err):
        smi = rng.choice(ERROR_SMILES)
        m = _embedded_any(smi, rng)
        if m is not None:
            out.append(('error_path', smi, m, 0, {}))
    return out


def opts_for(rng, fixed):
    o = molgen.rand_opts(rng)
    for _ in range(3):                   # three quarters of the trivial draws (level 0, radius below a bond length) are redrawn
        if (o['level'] == 0 or o['mult'] < 1.0) and rng.random() < 0.75:
            o = molgen.rand_opts(rng)
    if fixed == 'sym':
        o = dict(o, stereo=True, level=max(1, o['level'] or 2), mult=max(o['mult'], 1.5), incl=True)
    elif fixed:
        o = dict(o, **fixed)
    if o['level'] in (-1, None):
        o['remdup'] = True
    return o


# ---------------------------------------------------------------------------------------------------------- permutations
def perm_of_kind(rng, m, kind):
    """new atom i = old atom order[i] (the argument of Chem.RenumberAtoms)."""
    from rdkit import Chem
    n = m.GetNumAtoms()
    ident = list(range(n))
    heavy = [a.GetIdx() for a in m.GetAtoms() if a.GetAtomicNum() > 1]
    hyd = [a.GetIdx() for a in m.GetAtoms() if a.GetAtomicNum() <= 1]
    if kind in ('random', 'rebuilt', 'composed'):
        order = list(ident)
        rng.shuffle(order)
        if kind == 'composed':                       # a permutation of a permutation (composition written out)
            second = list(ident)
            rng.shuffle(second)
            order = [order[j] for j in second]
        return order
    if kind == 'reverse':
        return ident[::-1]
    if kind == 'identity':
        return ident
    if kind == 'transposition':
        order = list(ident)
        if n >= 2:
            i, j = rng.sample(ident, 2)
            order[i], order[j] = order[j], order[i]
        return order
    if kind == 'swap_equivalent':
        ranks = list(Chem.CanonicalRankAtoms(m, breakTies=False))
        classes = {}
        for i in heavy:
            classes.setdefault(ranks[i], []).append(i)
        multi = [c for c in classes.values() if len(c) > 1]
        order = list(ident)
        if multi:
            c = rng.choice(multi)
            if rng.random() < 0.5:                   # one swap inside a class
                i, j = rng.sample(c, 2)
                order[i], order[j] = order[j], order[i]
            else:                                    # every class reversed
                for c in multi:
                    for i, j in zip(c, c[::-1]):
                        order[i] = j
        elif len(heavy) >= 2:
            i, j = rng.sample(heavy, 2)
            order[i], order[j] = order[j], order[i]
        return order
    if kind == 'rotate':
        k = rng.randrange(1, n) if n > 1 else 0
        return ident[k:] + ident[:k]
    if kind == 'hydrogens_first':
        h = list(heavy)
        if rng.random() < 0.5:
            rng.shuffle(h)
        return hyd + h
    if kind == 'hydrogens_last':
        h = list(heavy)
        rng.shuffle(h)
        return h + hyd
    if kind == 'heavy_reversed':
        rev = dict(zip(heavy, heavy[::-1]))
        return [rev.get(i, i) for i in ident]
    if kind in ('canonical_rank', 'canonical_rank_reversed'):
        ranks = list(Chem.CanonicalRankAtoms(m, breakTies=True))
        order = sorted(ident, key=lambda i: ranks[i])
        return order[::-1] if kind.endswith('reversed') else order
    raise ValueError(kind)


def rebuilt(m, order, rng):
    """The same compound written down again atom by atom in the new order: bond list shuffled, begin/end of (non-dative) bonds
    swapped at random, conformers (ids kept) copied.  Returns None when RDKit derives different atom facts for the rebuilt graph."""
    from rdkit import Chem
    from rdkit.Geometry import Point3D
    rw = Chem.RWMol()
    for old in order:
        rw.AddAtom(Chem.Atom(m.GetAtomWithIdx(old)))
    old2new = {old: new for new, old in enumerate(order)}
    bonds = list(m.GetBonds())
    rng.shuffle(bonds)
    for b in bonds:
        a, c = b.GetBeginAtomIdx(), b.GetEndAtomIdx()
        if rng.random() < 0.5 and str(b.GetBondType()) in molfacts.TAGS:
            a, c = c, a
        rw.AddBond(old2new[a], old2new[c], b.GetBondType())
        rw.GetBondBetweenAtoms(old2new[a], old2new[c]).SetIsAromatic(b.GetIsAromatic())
    m2 = rw.GetMol()
    for conf in m.GetConformers():
        c2 = Chem.Conformer(m.GetNumAtoms())
        c2.SetId(conf.GetId())
        for new, old in enumerate(order):
            p = conf.GetAtomPosition(old)
            c2.SetAtomPosition(new, Point3D(p.x, p.y, p.z))
        m2.AddConformer(c2, assignId=False)
    try:
        m2.UpdatePropertyCache(strict=False)
        Chem.FastFindRings(m2)
    except Exception:  # noqa
        return None
    if m.HasProp('_Name'):
        m2.SetProp('_Name', m.GetProp('_Name'))
    cid = m.GetConformers()[0].GetId()
    fa, fb = molfacts.mol_facts(m, cid), molfacts.mol_facts(m2, cid)
    for new, old in enumerate(order):
        x, y = dict(fa['atoms'][old]), dict(fb['atoms'][new])
        x.pop('idx'), y.pop('idx')
        if x != y:
            return None
    ba = sorted((tuple(sorted((old2new[a], old2new[b]))), t) for a, b, t in fa['bonds'])
    bb = sorted((tuple(sorted((a, b))), t) for a, b, t in fb['bonds'])
    return m2 if ba == bb else None


def variant_of(m, kind, rng):
    from rdkit import Chem
    order = perm_of_kind(rng, m, kind)
    if kind == 'rebuilt':
        m2 = rebuilt(m, order, rng)
        if m2 is not None:
            return m2, order, 'rebuilt'
        return Chem.RenumberAtoms(m, order), order, 'random'
    return Chem.RenumberAtoms(m, order), order, kind


# ---------------------------------------------------------------------------------------------------------- observations
def make_fprinter(o, bits, counts):
    from e3fp.fingerprint.fprinter import Fingerprinter
    return Fingerprinter(bits=bits, level=o['level'], radius_multiplier=o['mult'], stereo=o['stereo'], counts=counts,
                         include_disconnected=o['incl'], rdkit_invariants=o['rdkit'], exclude_floating=o['exfloat'],
                         remove_duplicate_substructs=o['remdup'])


def levels_obs(f, back=None, with_centre=False):
    """{level: sorted [(identifier, [centre,] substructure)]} with atom indices mapped through `back` (variant index -> original)."""
    out = {}
    for lv, shells in f.level_shells.items():
        rows = []
        for s in shells:
            sub = tuple(sorted((back[int(x)] if back is not None else int(x)) for x in s.substruct.atoms))
            if with_centre:
                c = int(s.center_atom)
                rows.append((int(s.identifier), back[c] if back is not None else c, sub))
            else:
                rows.append((int(s.identifier), sub))
        out[int(lv)] = sorted(rows)
    return out


def gen_queries(rng, k, retained, all_atoms):
    """[(level, bits, exact, mask as a sorted list of ORIGINAL atom indices, mask form)]"""
    levels = [None, -1] + list(range(0, k + 1)) + [k + 1, k + 3]
    if len(levels) > 6:
        levels = [None, -1, k, k + 1] + rng.sample(list(range(0, k)), min(k, 3))
    qs = []
    others = [a for a in all_atoms if a not in set(retained)]
    for lv in levels:
        r = rng.random()
        if r < 0.35 or not retained:
            mask = []
        elif r < 0.75:
            mask = rng.sample(retained, min(len(retained), rng.choice([1, 1, 2, 3])))
        elif r < 0.85 and others:
            mask = rng.sample(others, min(len(others), 2)) + rng.sample(retained, 1)
        elif r < 0.92:
            mask = list(retained)
        else:
            mask = list(all_atoms)
        qs.append((lv, rng.choice(QUERY_BITS), rng.random() < 0.12, sorted(mask), rng.choice(['set', 'set', 'list', 'frozenset', 'npset', 'nparray'])))
    return qs


def _mask_obj(mask, form):
    if form == 'list':
        return list(mask)
    if form == 'frozenset':
        return frozenset(mask)
    if form == 'npset':
        return set(np.int64(x) for x in mask)
    if form == 'nparray' and mask:
        return np.array(mask, dtype=np.int32)
    return set(mask)


def run_queries(f, qs, fwd=None):
    """Results of the queries on a fingerprinter that has run; `fwd` maps an original atom index to the variant's."""
    out = []
    for (lv, bits, exact, mask, form) in qs:
        mk = _mask_obj([fwd[a] for a in mask] if fwd is not None else mask, form)
        r = fpgen.attempt(lambda: f.get_fingerprint_at_level(level=lv, bits=bits, exact=exact, atom_mask=mk))
        if r[0] == 'ok':
            o = fpgen.obs(r[1])
            r = ('ok', (o['kind'], o['bits'], o['level'], tuple(o['idx']), tuple((i, str(v)) for i, v in o['cnt'])))
        out.append(r)
    return out


def full_obs(f, qs, order=None, with_centre=False):
    """Everything C03 speaks about, in ORIGINAL atom indices: (current_level, levels, query results)."""
    fwd = None if order is None else {old: new for new, old in enumerate(order)}
    return (int(f.current_level), levels_obs(f, order, with_centre), run_queries(f, qs, fwd))


def diff(a, b):
    """None when equal, else a short description of the first difference of two full observations."""
    if a[0] != b[0]:
        return 'current_level %d vs %d' % (a[0], b[0])
    if sorted(a[1]) != sorted(b[1]):
        return 'levels stored %s vs %s' % (sorted(a[1]), sorted(b[1]))
    for lv in sorted(a[1]):
        if a[1][lv] != b[1][lv]:
            ia, ib = sorted(r[0] for r in a[1][lv]), sorted(r[0] for r in b[1][lv])
            if ia != ib:
                return 'level %d: identifier multisets differ (%d vs %d shells; only-before %s, only-after %s)' % (
                    lv, len(ia), len(ib), sorted(set(ia) - set(ib))[:4], sorted(set(ib) - set(ia))[:4])
            return 'level %d: same identifiers, the (identifier, substructure%s) pairs differ' % (lv, '/centre' if len(a[1][lv][0]) == 3 else '')
    for i, (x, y) in enumerate(zip(a[2], b[2])):
        if x != y:
            return 'query #%d differs: %s vs %s' % (i, str(x)[:160], str(y)[:160])
    return None


# ---------------------------------------------------------------------------------------------------------- payloads
def coords_hex(m, cid):
    conf = m.GetConformer(cid)
    return [[float(c).hex() for c in conf.GetAtomPosition(i)] for i in range(m.GetNumAtoms())]


def mol_json(m, cids):
    from rdkit import Chem
    return {'molblock': Chem.MolToMolBlock(m, confId=cids[0]), 'conformers': [[int(c), coords_hex(m, c)] for c in cids]}


def mol_from_json(d):
    """Molecule with exactly the recorded conformers (ids and storage order as recorded, exact doubles)."""
    from rdkit import Chem
    from rdkit.Geometry import Point3D
    m = Chem.MolFromMolBlock(d['molblock'], removeHs=False)
    m.RemoveAllConformers()
    for cid, xyz in d['conformers']:
        conf = Chem.Conformer(m.GetNumAtoms())
        conf.SetId(int(cid))
        for i, p in enumerate(xyz):
            conf.SetAtomPosition(i, Point3D(*[float.fromhex(v) for v in p]))
        m.AddConformer(conf, assignId=False)
    return m


def queries_json(qs):
    return [[lv, b, bool(e), list(mk), form] for (lv, b, e, mk, form) in qs]


# ---------------------------------------------------------------------------------------------------------- stream 1
def expected_error(m, cid, o, e):
    """True when fingerprinting is documented to raise on this input: no atom is retained, or a retained bond has a type outside
    the bond table (known finding of C02).  Any other exception of a base run is reported."""
    facts = molfacts.mol_facts(m, cid)
    heavy = [a for a in facts['atoms'] if a['num'] > 1]
    if o['exfloat'] and len(heavy) > 1:
        heavy = [a for a in heavy if a['deg'] > 0]
    ret = set(a['idx'] for a in heavy)
    if not heavy:
        return True
    return isinstance(e, KeyError) and any(t == 'BtOther' and a in ret and b in ret for a, b, t in facts['bonds'])


def run_sequence(mode, f0, fresh, m, m2, cid, observe0, observe2):
    """Run the renumbered molecule m2 under the call sequence `mode`; returns (observation of m2, extra failure text or None)."""
    from rdkit import Chem
    if mode == 'fresh':
        f = fresh()
        f.run(cid, m2)
        return observe2(f), None
    if mode == 'reused':                 # the object that fingerprinted the original numbering (and earlier permutations)
        f0.run(cid, m2)
        return observe2(f0), None
    if mode == 'twice':                  # the same molecule object twice in a row
        f = fresh()
        f.run(cid, m2)
        first = observe2(f)
        f.run(cid, m2)
        second = observe2(f)
        return second, (None if diff(first, second) is None else 'second run of the same renumbered molecule on one object: ' + diff(first, second))
    if mode == 'copy':                   # a copy of the renumbered molecule after the renumbered molecule
        f = fresh()
        f.run(cid, m2)
        m3 = Chem.Mol(m2)
        f.run(m3.GetConformer(cid), m3)
        return observe2(f), None
    if mode == 'aba':                    # renumbered, original, renumbered on one object
        f = fresh()
        f.run(cid, m2)
        f.run(cid, m)
        mid = observe0(f)
        f.run(cid, m2)
        return observe2(f), ('mid', mid)
    raise ValueError(mode)


def stream_permutations(ctx, blist, n_perm):
    """Implementation-level metamorphic stream over atom renumberings.  Returns True when a failure was recorded."""
    rng = ctx.rng
    st = {'bases': 0, 'by_class': {}, 'skipped_unstable': 0, 'permutations': 0, 'by_kind': {}, 'by_sequence': {}, 'queries': 0,
          'masked_queries': 0, 'count_fingerprinters': 0, 'error_path_bases': 0, 'error_path_permutations': 0,
          'remdup_off_centre_checked': 0, 'levels_reached_hist': {}, 'rebuilt_fell_back_to_renumber': 0}
    found = False
    for (cls, name, m, cid, fixed) in blist:
        o = opts_for(rng, fixed)
        bits = rng.choice([2 ** 32, 2 ** 32, 4096, 1024, 64])
        counts = rng.random() < 0.5
        if m1lib.is_unstable(m, cid, o):
            st['skipped_unstable'] += 1
            continue
        fresh = lambda: make_fprinter(o, bits, counts)
        f0 = fresh()
        err0 = None
        try:
            f0.run(cid, m)
        except Exception as e:  # noqa
            err0 = (fpgen.err_of(e), '%s: %s' % (type(e).__name__, str(e)[:100]), e)
        st['bases'] += 1
        st['by_class'][cls] = st['by_class'].get(cls, 0) + 1
        kinds = [rng.choice(PERM_KINDS) for _ in range(n_perm)]
        if err0 is not None and not expected_error(m, cid, o, err0[2]):
            found = True
            ctx.fail('fingerprinting raised %s on %s' % (err0[1], name), dict(cov='base-error', name=name, opts=m1lib.opts_json(o), original=mol_json(m, [cid])))
            continue
        if err0 is not None:
            # the error path of the property: the renumbered molecule raises the same class of error
            st['error_path_bases'] += 1
            for kind in kinds[:4]:
                m2, order, kind = variant_of(m, kind, rng)
                st['error_path_permutations'] += 1
                ctx.count(('cov-perm-err', name, cid, str(o), tuple(order)), order != sorted(order))
                f = fresh()
                try:
                    f.run(cid, m2)
                    got = ('ok', 'current_level=%s' % f.current_level)
                except Exception as e:  # noqa
                    got = (fpgen.err_of(e), '%s: %s' % (type(e).__name__, str(e)[:100]))
                if got[0] != err0[0]:
                    found = True
                    ctx.fail('fingerprinting raises %s on a molecule and %s on the same molecule renumbered (%s)' % (err0[1], got[1], kind),
                             dict(cov='perm-error', name=name, opts=m1lib.opts_json(o), new_order=order, kind=kind,
                                  original=mol_json(m, [cid]), before=err0[1], after=got[1]), finding_key='C03:renumbering:error-path')
                    break
            continue
        k0 = int(f0.current_level)
        st['levels_reached_hist'][str(k0)] = st['levels_reached_hist'].get(str(k0), 0) + 1
        retained = sorted(int(a) for a in f0.atoms)
        qs = gen_queries(rng, k0, retained, list(range(m.GetNumAtoms())))
        wc = not o['remdup']                         # duplicate removal off: shells correspond one by one, centre included
        base = full_obs(f0, qs, None, wc)
        st['queries'] += len(qs)
        st['masked_queries'] += sum(1 for q in qs if q[3])
        st['count_fingerprinters'] += 1 if counts else 0
        st['remdup_off_centre_checked'] += 1 if wc else 0
        observe0 = lambda f: full_obs(f, qs, None, wc)
        for kind in kinds:
            m2, order, kind2 = variant_of(m, kind, rng)
            if kind == 'rebuilt' and kind2 != 'rebuilt':
                st['rebuilt_fell_back_to_renumber'] += 1
            kind = kind2
            mode = rng.choice(SEQ_MODES)
            st['permutations'] += 1
            st['by_kind'][kind] = st['by_kind'].get(kind, 0) + 1
            st['by_sequence'][mode] = st['by_sequence'].get(mode, 0) + 1
            ctx.count(('cov-perm', name, cid, str(o), bits, counts, tuple(order), mode), k0 >= 1 and order != sorted(order))
            observe2 = lambda f: full_obs(f, qs, order, wc)
            try:
                got, extra = run_sequence(mode, f0, fresh, m, m2, cid, observe0, observe2)
                what = diff(base, got)
            except Exception as e:  # noqa
                what, extra = 'the renumbered molecule raises %s: %s where the original is fingerprinted' % (type(e).__name__, str(e)[:100]), None
            if what is None and isinstance(extra, tuple):
                d2 = diff(base, extra[1])
                extra = None if d2 is None else 'the ORIGINAL numbering run between two runs of the renumbered molecule on one object differs from its fresh run: ' + d2
            if what is not None or extra:
                found = True
                ctx.fail('fingerprint changed under atom renumbering (%s permutation, call sequence %s): %s' % (kind, mode, what or extra),
                         dict(cov='perm', name=name, opts=m1lib.opts_json(o), bits=bits, counts=counts, new_order=order, kind=kind, sequence=mode,
                              queries=queries_json(qs), original=mol_json(m, [cid]), variant=mol_json(m2, [cid]), difference=what or extra),
                         finding_key='C03:renumbering')
                break
    ctx.coverage['input_distribution']['cov_permutation_stream'] = st
    return found


# ---------------------------------------------------------------------------------------------------------- stream 2
CONF_VARIANTS = ['reassigned', 'kept_ids', 'gapped_ids', 'reversed', 'rotated', 'single', 'subset', 'shifted_ids', 'renumbered_and_reordered']
DESIGNATORS = ['id', 'id', 'conformer_object_with_mol', 'conformer_object_alone', 'id_keyword']


def conf_variant(m, cids, kind, rng):
    """(mol2, {original conformer id: id in mol2}, atom order or None): the conformers `cids` of m stored differently."""
    from rdkit import Chem
    confs = {c: Chem.Conformer(m.GetConformer(c)) for c in cids}
    seq = list(cids)
    order = None
    if kind in ('reassigned', 'kept_ids', 'gapped_ids', 'shifted_ids', 'renumbered_and_reordered'):
        rng.shuffle(seq)
        if seq == list(cids) and len(seq) > 1:
            seq = seq[1:] + seq[:1]
    elif kind == 'reversed':
        seq = seq[::-1]
    elif kind == 'rotated':
        k = rng.randrange(1, len(seq)) if len(seq) > 1 else 0
        seq = seq[k:] + seq[:k]
    elif kind == 'single':
        seq = [rng.choice(seq)]
    elif kind == 'subset':
        seq = rng.sample(seq, max(1, len(seq) - 1))
    m2 = Chem.Mol(m)
    m2.RemoveAllConformers()
    newid = {}
    if kind in ('kept_ids', 'reversed', 'rotated', 'subset'):
        ids = list(seq)
    elif kind == 'gapped_ids':
        ids = rng.sample(range(0, 2000), len(seq))
    elif kind == 'shifted_ids':
        s = rng.choice([1, 7, 1000])
        ids = [s + i for i in range(len(seq))]
    elif kind == 'single':
        ids = [rng.choice([0, seq[0], 41])]
    else:
        ids = list(range(len(seq)))
    for c, i in zip(seq, ids):
        cf = Chem.Conformer(confs[c])
        cf.SetId(int(i))
        m2.AddConformer(cf, assignId=False)
        newid[c] = int(i)
    if kind == 'renumbered_and_reordered':
        order = perm_of_kind(rng, m2, rng.choice(['random', 'reverse', 'hydrogens_first', 'swap_equivalent']))
        m2 = Chem.RenumberAtoms(m2, order)
    return m2, newid, order


def run_designated(f, m2, cid, how):
    if how == 'id':
        f.run(cid, m2)
    elif how == 'id_keyword':
        f.run(mol=m2, conf=cid)
    elif how == 'conformer_object_with_mol':
        f.run(m2.GetConformer(cid), m2)
    elif how == 'conformer_object_alone':
        f.run(m2.GetConformer(cid))
    else:
        raise ValueError(how)


def stream_conformers(ctx, n_mols, n_variants):
    rng = ctx.rng
    st = {'molecules': 0, 'conformers': 0, 'variants': 0, 'by_variant': {}, 'by_designator': {}, 'walks_over_one_molecule_object': 0,
          'aba_sequences': 0, 'skipped_unstable_combined': 0, 'conformer_counts_hist': {}}
    found = False
    mols = []
    sh = [x for x in molgen.shipped() if x[1].GetNumConformers() > 2]
    while len(mols) < n_mols:
        if rng.random() < 0.4:
            name, m = rng.choice(sh)
        else:
            name = rng.choice(molgen.SMILES + EXTRA_SMILES)
            m = molgen.embedded(name, nconf=rng.choice([2, 3, 5]), seed=rng.choice([3, 11]), keep_hs=rng.random() < 0.5)
            if m is None or m.GetNumConformers() < 2:
                continue
        mols.append((name, m))
    for (name, m) in mols:
        allc = [c.GetId() for c in m.GetConformers()]
        cids = sorted(rng.sample(allc, min(len(allc), rng.choice([2, 3, 4, 5]))))
        o = molgen.rand_opts(rng)
        bits = rng.choice([2 ** 32, 4096, 1024])
        counts = rng.random() < 0.5
        fresh = lambda: make_fprinter(o, bits, counts)
        base, qsets = {}, {}
        bad = False
        for c in cids:
            f = fresh()
            try:
                f.run(c, m)
            except Exception as e:  # noqa   (error-path molecules are the business of stream 1)
                bad = True
                if not expected_error(m, c, o, e):
                    found = True
                    ctx.fail('fingerprinting raised %s: %s on %s' % (type(e).__name__, str(e)[:100], name),
                             dict(cov='base-error', name=name, opts=m1lib.opts_json(o), original=mol_json(m, [c])))
                break
            retained = sorted(int(a) for a in f.atoms)
            qsets[c] = gen_queries(rng, int(f.current_level), retained, list(range(m.GetNumAtoms())))[:4]
            base[c] = full_obs(f, qsets[c], None, not o['remdup'])
        if bad:
            continue
        st['molecules'] += 1
        st['conformers'] += len(cids)
        h = str(len(cids))
        st['conformer_counts_hist'][h] = st['conformer_counts_hist'].get(h, 0) + 1
        wc = not o['remdup']
        for _ in range(n_variants):
            kind = rng.choice(CONF_VARIANTS)
            if kind == 'renumbered_and_reordered' and any(m1lib.is_unstable(m, c, o) for c in cids):
                st['skipped_unstable_combined'] += 1
                kind = 'gapped_ids'
            m2, newid, order = conf_variant(m, cids, kind, rng)
            st['variants'] += 1
            st['by_variant'][kind] = st['by_variant'].get(kind, 0) + 1
            # (a) each conformer on its own, designated in one of the documented ways
            fail = None
            for c in newid:
                how = rng.choice(DESIGNATORS)
                st['by_designator'][how] = st['by_designator'].get(how, 0) + 1
                f = fresh()
                ctx.count(('cov-conf', name, c, str(o), kind, how, tuple(sorted(newid.items()))), base[c][0] >= 1)
                try:
                    run_designated(f, m2, newid[c], how)
                    d = diff(base[c], full_obs(f, qsets[c], order, wc))
                except Exception as e:  # noqa
                    d = 'raises %s: %s' % (type(e).__name__, str(e)[:100])
                if d is not None:
                    fail = ('conformer %d (stored as id %d, designated by %s)' % (c, newid[c], how), d, [c])
                    break
            # (b) one Fingerprinter walking over the conformers of the one molecule object in storage order, then A B A
            if fail is None:
                f = fresh()
                walk = [cf.GetId() for cf in m2.GetConformers()]
                back = {v: k for k, v in newid.items()}
                seq = list(walk)
                if len(walk) > 1 and rng.random() < 0.6:
                    seq = seq + [walk[0]] if rng.random() < 0.5 else [walk[0], walk[1], walk[0]]
                    st['aba_sequences'] += 1
                st['walks_over_one_molecule_object'] += 1
                for nid in seq:
                    how = rng.choice(['id', 'id', 'conformer_object_with_mol'])
                    c = back[nid]
                    ctx.count(('cov-conf-walk', name, c, str(o), kind, tuple(seq)), base[c][0] >= 1)
                    try:
                        run_designated(f, m2, nid, how)
                        d = diff(base[c], full_obs(f, qsets[c], order, wc))
                    except Exception as e:  # noqa
                        d = 'raises %s: %s' % (type(e).__name__, str(e)[:100])
                    if d is not None:
                        fail = ('conformer %d (stored as id %d) fingerprinted by ONE object walking over the conformers %s of one molecule object' % (c, nid, seq), d,
                                [back[x] for x in seq])
                        break
            if fail is not None:
                found = True
                ctx.fail('fingerprint of a conformer changed when the conformers were stored differently (%s): %s: %s' % (kind, fail[0], fail[1]),
                         dict(cov='conf', name=name, opts=m1lib.opts_json(o), bits=bits, counts=counts, variant_kind=kind,
                              original=mol_json(m, cids), variant=mol_json(m2, [cf.GetId() for cf in m2.GetConformers()]), id_map=sorted(newid.items()),
                              atom_order=order, where=fail[0], sequence_original_ids=fail[2], difference=fail[1],
                              queries={str(c): queries_json(q) for c, q in qsets.items()}), finding_key='C03:conformer-order')
                break
    ctx.coverage['input_distribution']['cov_conformer_stream'] = st
    return found


# ---------------------------------------------------------------------------------------------------------- replay
def replay(ctx, d):
    """Re-run a recorded failure of the two streams on the implementation; returns 1 when it still fails."""
    c = d['case']
    o = c['opts']
    print('replay (%s stream): %s' % (c['cov'], d.get('what', '')[:300]))
    if c['cov'] == 'perm-error':
        from rdkit import Chem
        m = mol_from_json(c['original'])
        cid = c['original']['conformers'][0][0]
        res = []
        for mm in (m, Chem.RenumberAtoms(m, c['new_order'])):
            f = make_fprinter(o, 2 ** 32, False)
            try:
                f.run(cid, mm)
                res.append('ok')
            except Exception as e:  # noqa
                res.append(fpgen.err_of(e))
        print('original: %s; renumbered: %s' % tuple(res))
        return 0 if res[0] == res[1] else 1
    m, m2 = mol_from_json(c['original']), mol_from_json(c['variant'])
    fresh = lambda: make_fprinter(o, c['bits'], c['counts'])
    wc = not o['remdup']
    if c['cov'] == 'perm':
        cid = c['original']['conformers'][0][0]
        qs = [tuple(q) for q in c['queries']]
        order = c['new_order']
        f0 = fresh()
        f0.run(cid, m)
        base = full_obs(f0, qs, None, wc)
        try:
            got, extra = run_sequence(c['sequence'], f0, fresh, m, m2, cid, lambda f: full_obs(f, qs, None, wc), lambda f: full_obs(f, qs, order, wc))
            what = diff(base, got)
        except Exception as e:  # noqa
            what, extra = 'the renumbered molecule raises %s: %s' % (type(e).__name__, str(e)[:100]), None
        if what is None and isinstance(extra, tuple):
            extra = diff(base, extra[1])
        elif isinstance(extra, tuple):
            extra = None
        print('original vs %s-renumbered (sequence %s): %s' % (c['kind'], c['sequence'], what or extra or 'EQUAL now'))
        return 1 if (what or extra) else 0
    if c['cov'] == 'conf':
        newid = {int(a): int(b) for a, b in c['id_map']}
        order = c['atom_order']
        f = fresh()
        bad = 0
        for cc in c['sequence_original_ids']:
            qs = [tuple(q) for q in c['queries'][str(cc)]]
            fb = fresh()
            if len(c['sequence_original_ids']) == 1:
                f = fresh()
            try:
                fb.run(cc, m)
                base = full_obs(fb, qs, None, wc)
                f.run(newid[cc], m2)
                dd = diff(base, full_obs(f, qs, order, wc))
            except Exception as e:  # noqa
                dd = 'raises %s: %s' % (type(e).__name__, str(e)[:100])
            print('conformer %d (stored as %d): %s' % (cc, newid[cc], dd or 'equal'))
            bad += dd is not None
        return 1 if bad else 0
    print('unknown stream')
    return 0
