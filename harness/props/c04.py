"""C04 - fingerprinting is a pure function of (molecule, conformer, options): histories on one object, hash seeds,
threads, processes (Properties/C04.v; model Model/Fprinter.v).  Schedules are exercised, not proved (partial)."""
import json
import os
import subprocess
import sys
import core
import m1lib
import molfacts
import molgen
import fpgen

SMALL = ['CCO', 'CC(N)C(=O)O', 'c1ccncc1', 'CC(C)(C)C', 'F[C@](Cl)(Br)I', 'C1CC1', 'CCO.O', 'CC(=O)[O-].[Na+]', 'OCC(O)CO', 'C[C@H](O)CN']


def mutable_defaults():
    from e3fp.fingerprint import structs, fprinter, fprint, db
    return json.dumps([repr(structs.Shell.__init__.__defaults__), repr(structs.Substruct.__init__.__defaults__),
                       repr(fprinter.Fingerprinter.get_shells_at_level.__defaults__), repr(fprinter.Fingerprinter.get_fingerprint_at_level.__defaults__),
                       repr(fprint.Fingerprint.__init__.__defaults__), repr(fprint.CountFingerprint.__init__.__defaults__),
                       repr(db.FingerprintDatabase.from_array.__defaults__), repr(fprinter.get_first_unique_tuple_inds.__defaults__)])


def fresh(m, cid, o):
    f, obs, k = molfacts.impl_run(m, cid, o)
    return (k, obs)


def histories(ctx):
    """Random histories on ONE Fingerprinter object; after every run compare with a fresh object and keep the data for the model."""
    from rdkit import Chem
    from e3fp.fingerprint.fprinter import Fingerprinter
    rng = ctx.rng
    found = False
    cases, payloads = [], {}
    stats = {'histories': 0, 'runs': 0, 'same_conf_object_reuse': 0, 'int_conf_ids': 0, 'mol_none': 0, 'queries_between': 0, 'mutated_in_place': 0}
    mols = []
    for smi in SMALL:
        m = molgen.embedded(smi, nconf=3, seed=5, keep_hs=True)
        if m is not None:
            mols.append((smi, molfacts.gridded(m)))
    # twins: other Python objects holding the SAME compound (an identical copy; a copy with its atoms renumbered): anything a
    # reused fingerprinter keeps per molecule must be keyed by the object, not by what the molecule looks like
    twins = {}
    for i in range(len(mols)):
        smi, m = mols[i]
        n = m.GetNumAtoms()
        perm = list(range(n))
        rng.shuffle(perm)
        tw = [(smi + ' (copy)', Chem.Mol(m))]
        if n > 1:
            tw.append((smi + ' (renumbered)', Chem.RenumberAtoms(m, perm)))
            tw.append((smi + ' (reversed)', Chem.RenumberAtoms(m, list(range(n))[::-1])))
        twins[i] = []
        for t in tw:
            twins[i].append(len(mols))
            mols.append(t)
    for i in list(twins):
        for j in twins[i]:
            twins[j] = [i] + [x for x in twins[i] if x != j]
    nsmall = len(mols)
    # flexible shipped molecules: their conformers stop at different levels, which is what stale per-level state needs
    from rdkit import Chem
    for name, m in molgen.shipped():
        if m.GetNumConformers() >= 6:
            mm = Chem.Mol(m)
            for c in list(mm.GetConformers())[8:]:
                mm.RemoveConformer(c.GetId())
            mols.append((name, molfacts.gridded(mm)))
    unstable_cache = {}

    def unstable(mi, cid, o):
        key = (mi, cid, json.dumps(m1lib.opts_json(o), sort_keys=True))
        if key not in unstable_cache:
            unstable_cache[key] = m1lib.is_unstable(mols[mi][1], cid, o)
        return unstable_cache[key]
    for hno in range(ctx.n(24, 300)):
        o = molgen.rand_opts(rng)
        big = hno % 3 == 0 and len(mols) > nsmall
        if big:
            o = dict(o, level=rng.choice([4, 5, 6]), mult=rng.choice([1.5, 1.718, 2.0]), remdup=True)
        tie_ok = True
        before = mutable_defaults()
        f = Fingerprinter(level=o['level'], radius_multiplier=o['mult'], stereo=o['stereo'], include_disconnected=o['incl'],
                          rdkit_invariants=o['rdkit'], exclude_floating=o['exfloat'], remove_duplicate_substructs=o['remdup'])
        hist_lit, hist_json = [], []
        maxk = 0
        last_conf = None
        stats['histories'] += 1
        for step in range(rng.choice([2, 3, 4, 6]) if ctx.quick else rng.choice([2, 4, 8, 12])):
            if step > 0 and rng.random() < 0.6:
                pass                  # stay on the same molecule object (another conformer): only conformer-level state may be reused
            elif step > 0 and mi in twins and rng.random() < 0.5:
                mi = rng.choice(twins[mi])          # the same compound in another object
                stats['twin_switch'] = stats.get('twin_switch', 0) + 1
            else:
                mi = rng.randrange(nsmall, len(mols)) if big and rng.random() < 0.8 else rng.randrange(nsmall)
            smi, m = mols[mi]
            cid = rng.choice([c.GetId() for c in m.GetConformers()])
            how = rng.choice(['conf_obj', 'conf_obj', 'int_id', 'same_obj', 'mol_none'])
            if how == 'same_obj' and last_conf is not None:
                mi, m, cid, confobj = last_conf
                smi = mols[mi][0]
                f.run(confobj, m)
                stats['same_conf_object_reuse'] += 1
            elif how == 'int_id':
                f.run(cid, m)
                stats['int_conf_ids'] += 1
            elif how == 'mol_none':
                confobj = m.GetConformer(cid)
                f.run(confobj)          # mol taken from the conformer's owner (a new Python wrapper of the same molecule)
                stats['mol_none'] += 1
            else:
                confobj = m.GetConformer(cid)
                f.run(confobj, m)
                last_conf = (mi, m, cid, confobj)
            stats['runs'] += 1
            if rng.random() < 0.5:
                f.get_fingerprint_at_level(rng.choice([None, 0, 1]), atom_mask=set([0]) if rng.random() < 0.3 else set())
                stats['queries_between'] += 1
            got = (int(f.current_level), molfacts.observe(f))
            maxk = max(maxk, got[0])
            want = fresh(m, cid, o)
            tie_ok = tie_ok and not unstable(mi, cid, o)
            hist_json.append({'mol': smi, 'conf': cid, 'how': how})
            # identity token: GetOwningMol() builds a new Python object each time, so `mol is self.mol` is False there
            ident = mi if how != 'mol_none' else 1000 + step
            hist_lit.append('(%s, %s)' % (core.zlit(ident), molfacts.mol_lit(molfacts.mol_facts(m, cid))))
            ctx.count(('hist', hno, step), step > 0)
            if got != want:
                found = True
                ctx.fail('result of run() number %d of a history differs from a fresh fingerprinter' % (step + 1),
                         {'opts': m1lib.opts_json(o), 'history': hist_json}, finding_key='C04:history')
                break
        else:
            key = 'hist%d' % hno
            if tie_ok:
                # the reused object's dictionary keys and its answers at every explicit level (also levels only an EARLIER conformer reached)
                keys = sorted(int(l) for l in f.level_shells.keys())
                qs = [m1lib.query_lit(False, 2 ** 32, lv, [], m1lib.query_impl(f, lv, 2 ** 32, [])) for lv in [None, -1] + list(range(0, maxk + 2))]
                cases.append((key, 'check_history_queries %s %s %s %s %s %s' % (molfacts.opts_lit(o), core.listlit(hist_lit), core.zlit(got[0]),
                                                                               molfacts.levels_lit(got[1], got[0]), core.zlist(keys), core.listlit(qs))))
            payloads[key] = {'opts': m1lib.opts_json(o), 'history': hist_json}
            stats['tie_skipped_unstable'] = stats.get('tie_skipped_unstable', 0) + (0 if tie_ok else 1)
        if mutable_defaults() != before:
            found = True
            ctx.fail('a mutable default argument was modified during a history', {'before': before, 'after': mutable_defaults()}, finding_key='C04:mutable-default')
    # the known in-place mutation history, replayed on implementation and model
    rw = Chem.RWMol(mols[0][1])
    o = dict(molgen.DEFAULT_OPTS, level=3)
    f = Fingerprinter(level=3)
    f.run(0, rw)
    lit1 = molfacts.mol_lit(molfacts.mol_facts(rw, 0))
    rw.GetAtomWithIdx(2).SetAtomicNum(16)
    Chem.SanitizeMol(rw)
    f.run(0, rw)
    stats['mutated_in_place'] += 1
    got = (int(f.current_level), molfacts.observe(f))
    lit2 = molfacts.mol_lit(molfacts.mol_facts(rw, 0))
    key = 'mutated'
    payloads[key] = {'history': 'run(0, rw); rw.GetAtomWithIdx(2).SetAtomicNum(16); run(0, rw)  [CCO -> CCS, same Python object]'}
    if got != fresh(rw, 0, o):
        # the recorded defect; its exact outcome (the stale tables' result) is what the object model predicts: that comparison is
        # added as a case, so any OTHER wrong result is reported without the key by compare_cases
        cases.append((key, 'check_history %s [(5, %s); (5, %s)] %s %s' % (molfacts.opts_lit(o), lit1, lit2, core.zlit(got[0]), molfacts.levels_lit(got[1], got[0]))))
        ctx.fail('molecule object edited in place between two runs is fingerprinted with stale molecule-level tables', payloads[key],
                 finding_key='C04:mol-mutated-in-place')
    else:
        ctx.notes.append('the recorded finding C04:mol-mutated-in-place does not reproduce on this tree: the edited molecule is fingerprinted like a fresh one (property-correct); '
                         'the model case that predicts the stale result is not evaluated')
    ctx.sample({'history_case': payloads[cases[0][0]]} if cases else {})
    core.coq_make(['theories/Exec/RunM1.vo'])
    found |= core.compare_cases(ctx, cases, m1lib.IMPORTS, 'C04 object histories (model state machine vs implementation)', payloads, shard=2) > 0
    ctx.coverage.setdefault('input_distribution', {})['histories'] = stats
    return found


WORKER = r'''
import sys, json
sys.modules['mpi4py'] = None
sys.path.insert(0, %(harness)r)
import core; core.setup_env()
import molgen, molfacts, m1lib
out = []
for smi in %(smiles)r:
    m = molgen.embedded(smi, nconf=2, seed=5, keep_hs=True)
    for o in %(opts)r:
        f, obs, k = molfacts.impl_run(m, 1, o, bits=1024, counts=True)
        out.append([smi, k, {str(l): v for l, v in m1lib.all_level_ids(f).items()}, list(m1lib.fp_multiset(f, None, 1024))])
print('RESULT' + json.dumps(out))
'''


def hash_seeds(ctx):
    """The same jobs in subprocesses under different PYTHONHASHSEED values (set iteration orders differ)."""
    rng = ctx.rng
    opts = [molgen.rand_opts(rng) for _ in range(3)]
    smiles = SMALL[:ctx.n(5, 10)]
    code = WORKER % {'harness': os.path.join(core.VERIF, 'harness'), 'smiles': smiles, 'opts': opts}
    outs = {}
    procs = {}
    for seed in ctx.n(['0', '1', '4242'], ['0', '1', '2', '3', '77', '4242', '99999']):
        env = dict(os.environ, PYTHONHASHSEED=seed)
        procs[seed] = subprocess.Popen([sys.executable, '-B', '-c', code], env=env, stdout=subprocess.PIPE, stderr=subprocess.DEVNULL, text=True)
    for seed, p in procs.items():
        so, _ = p.communicate(timeout=600)
        line = [l for l in so.split('\n') if l.startswith('RESULT')]
        outs[seed] = line[0][6:] if line else None
        ctx.count(('hashseed', seed), True, n=len(smiles) * len(opts))
    vals = set(outs.values())
    if None in vals or len(vals) != 1:
        ctx.fail('fingerprints differ between processes started with different PYTHONHASHSEED values', {'per_seed_equal': {s: (v == outs['0']) for s, v in outs.items()}},
                 finding_key='C04:hash-seed')
        return True
    ctx.coverage.setdefault('input_distribution', {})['hash_seeds'] = sorted(outs)
    return False


WORKER_ORDER = r"""
import sys, json
sys.modules['mpi4py'] = None
sys.path.insert(0, %(harness)r)
import core; core.setup_env()
from rdkit import Chem
from rdkit.Chem import AllChem
from e3fp.fingerprint.fprinter import Fingerprinter
import m1lib
out = {}
for smi in %(smiles)r:
    m = Chem.MolFromSmiles(smi)
    AllChem.Compute2DCoords(m)
    for lv, stereo in ((1, False), (3, True)):
        try:
            f = Fingerprinter(level=lv, stereo=stereo)
            f.run(0, m)
            out['%%s|%%d|%%s' %% (smi, lv, stereo)] = {str(l): v for l, v in m1lib.all_level_ids(f).items()}
        except Exception as e:
            out['%%s|%%d|%%s' %% (smi, lv, stereo)] = 'raises ' + type(e).__name__
print('RESULT' + json.dumps(out, sort_keys=True))
"""

# molecules with bond types outside the published table (dative, quadruple, zero-order) next to ordinary ones: whatever the
# library does with them (today: KeyError, the known C02 finding) must not depend on what the process fingerprinted before
ORDER_SMILES = ['CCO', 'CN(C)(C)->B', 'c1ccncc1', 'Cl[Re]$[Re]Cl', 'CC(N)C(=O)O', '[NH3]->[Cu]', 'C[C@H](O)CN', 'N->[Pt](Cl)(Cl)<-N']


def process_orders(ctx):
    """The same jobs submitted in different ORDERS to fresh interpreters: a molecule's result may not depend on what the
    process has seen before (module-level tables, caches)."""
    rng = ctx.rng
    orders = [list(ORDER_SMILES), list(reversed(ORDER_SMILES))]
    for _ in range(ctx.n(2, 6)):
        o = list(ORDER_SMILES)
        rng.shuffle(o)
        orders.append(o)
    singles = [[s] for s in ORDER_SMILES[:ctx.n(4, 8)]]
    procs = []
    for o in orders + singles:
        code = WORKER_ORDER % {'harness': os.path.join(core.VERIF, 'harness'), 'smiles': o}
        procs.append((o, subprocess.Popen([sys.executable, '-B', '-c', code], stdout=subprocess.PIPE, stderr=subprocess.DEVNULL, text=True)))
    seen = {}
    found = False
    for o, p in procs:
        so, _ = p.communicate(timeout=900)
        line = [l for l in so.split('\n') if l.startswith('RESULT')]
        if not line:
            ctx.fail('a worker process of the submission-order test produced no result', {'order': o}, no_input=True, kind='harness-error')
            return True
        res = json.loads(line[0][6:])
        for k, v in res.items():
            ctx.count(('order', tuple(o), k), True)
            if k in seen and seen[k][1] != v:
                found = True
                ctx.fail('the result for one molecule depends on which molecules the process fingerprinted before it',
                         {'job (smiles|level|stereo)': k, 'order_a': seen[k][0], 'result_a': seen[k][1], 'order_b': o, 'result_b': v}, finding_key='C04:submission-order')
            seen.setdefault(k, (o, v))
    ctx.coverage.setdefault('input_distribution', {})['submission_orders'] = {'orders': len(orders), 'single_molecule_processes': len(singles),
                                                                              'jobs_raising': sorted(k for k, (o, v) in seen.items() if isinstance(v, str))[:6]}
    return found


def concurrent(ctx):
    """Independent jobs in threads (tiny switch interval) and in a fork-based process pool, against the serial results."""
    import concurrent.futures as cf
    import multiprocessing as mp
    rng = ctx.rng
    jobs = []
    for smi in SMALL:
        m = molgen.embedded(smi, nconf=2, seed=5, keep_hs=True)
        for _ in range(ctx.n(2, 6)):
            jobs.append((smi, m, rng.randrange(2), molgen.rand_opts(rng)))

    def work(j):
        smi, m, cid, o = j
        f, obs, k = molfacts.impl_run(m, cid, o, bits=1024, counts=True)
        return json.dumps([k, {str(l): v for l, v in m1lib.all_level_ids(f).items()}, list(m1lib.fp_multiset(f, None, 1024))])
    serial = [work(j) for j in jobs]
    old = sys.getswitchinterval()
    sys.setswitchinterval(1e-6)
    found = False
    try:
        for nthreads in ctx.n([8], [4, 8, 32]):
            with cf.ThreadPoolExecutor(nthreads) as ex:
                res = list(ex.map(work, jobs * 2))
            ctx.count(('threads', nthreads), True, n=len(res))
            if res != serial * 2:
                found = True
                bad = [i for i, (a, b) in enumerate(zip(res, serial * 2)) if a != b]
                ctx.fail('fingerprints computed in %d concurrent threads differ from the serial results' % nthreads,
                         {'jobs_differing': [[jobs[i % len(jobs)][0], jobs[i % len(jobs)][2], m1lib.opts_json(jobs[i % len(jobs)][3])] for i in bad[:5]]}, finding_key='C04:threads')
    finally:
        sys.setswitchinterval(old)
    global _JOBS
    _JOBS = jobs
    ctxm = mp.get_context('fork')
    with ctxm.Pool(ctx.n(4, 8)) as pool:
        res = pool.map(_proc_work, range(len(jobs)))
    ctx.count(('processes',), True, n=len(res))
    if res != serial:
        found = True
        ctx.fail('fingerprints computed in a process pool differ from the serial results', {}, finding_key='C04:processes')
    ctx.coverage.setdefault('input_distribution', {})['concurrent_jobs'] = len(jobs)
    return found


_JOBS = []


def _proc_work(i):
    smi, m, cid, o = _JOBS[i]
    f, obs, k = molfacts.impl_run(m, cid, o, bits=1024, counts=True)
    return json.dumps([k, {str(l): v for l, v in m1lib.all_level_ids(f).items()}, list(m1lib.fp_multiset(f, None, 1024))])


def run(ctx):
    ok, res = core.proof_step(ctx)
    found = histories(ctx)
    found |= hash_seeds(ctx)
    found |= process_orders(ctx)
    found |= concurrent(ctx)
    # coverage extension (props/c04_cov.py): appended, so that the streams above keep their case keys and random stream
    from props import c04_cov
    for sec in c04_cov.SECTIONS:
        found |= bool(sec(ctx))
    ctx.coverage['rule'] = ('random histories of run() calls on one Fingerprinter (conformer object / int id / same conformer object again / mol=None, queries in between) over '
                            '%d small molecules x 3 conformers: every run compared with a fresh object, the last with the Coq object model (check_history); the in-place-mutation '
                            'history; the same jobs under several PYTHONHASHSEED values in subprocesses; the same jobs (including molecules with bond types outside the table) submitted in different orders to fresh interpreters and alone; in thread pools with a 1e-6 s switch interval; in a fork process pool; '
                            'mutable default arguments compared before/after each history; non-trivial: any run after the first of a history.  '
                            'Coverage extension (props/c04_cov.py): history SCRIPTS on one object over a pool of %d molecule objects (hydrogens kept / removed, gapped conformer ids, '
                            'isotopes, charges, fragments, one heavy atom, flat, twins, different compounds sharing name / atom count / formula, molecules on which run() raises), every call '
                            'form of run() (positional, keyword, conformer only, molecule only, None, NumPy integer id, same conformer object, id without molecule), constructor bits and counts, '
                            'coordinates edited in place and conformers added between runs, queries of every shape between runs, returned fingerprints kept (must not change) or modified by '
                            'the caller (must not leak), every run compared with a fresh object at every level any earlier run reached; a subset also tied to the Coq object model; '
                            'deterministic interleavings of 2-4 jobs switched at every iteration step; thread / fork workers that each reuse one object; the same pickled jobs in fresh '
                            'interpreters under different hash seeds x submission orders x (fresh object per job | one object per option setting)' % (len(SMALL), len(c04_cov.pool())))
    ctx.assumptions += ['thread and process interleavings are exercised, not proved: the model has no shared state to race on; that the implementation has none rests on these runs (partial)',
                        'an identity token stands for `mol is self.mol`; GetOwningMol() returns a new Python object on each call, so run(conf) without mol always re-initialises']
    if not ok:
        core.report_broken_proof(ctx, res, found)


def replay(ctx, path):
    d = json.load(open(path))
    c = d.get('case', {})
    print('replay of %s: %s' % (path, d.get('what', '')[:300]))
    if isinstance(c, dict) and c.get('stream') in ('impl-history', 'model-history', 'interleaving'):
        from props import c04_cov
        rc = c04_cov.replay_payload(ctx, c)
        if rc:
            print('VIOLATION property=%s replay=%s' % (ctx.pid, path))
        return rc or 0
    print(json.dumps(c, indent=1)[:6000])
    return 0
