"""C04 - coverage extension (part module of props/c04.py; the sections run AFTER the original ones, so the original cases keep
their keys and their random stream).  Audit table: /verif/work/coverage_C04.md.

  sec_impl_histories   volume stream, implementation only: explicit history SCRIPTS interpreted on ONE Fingerprinter object; every
                       run() is compared with a fresh object on the same arguments (state, every level incl. levels only an EARLIER
                       run reached, query variants).  Adds: every call form of run() (positional / keyword / conformer only /
                       molecule only / None / NumPy integer id / the same conformer object again / an id without a molecule),
                       constructor bits and counts, a wide molecule pool (hydrogens kept or removed, gapped conformer ids, isotopes,
                       charges, fragments, one heavy atom, flat 2-D molecules, twins, DIFFERENT compounds that share name / atom
                       count / formula), molecules on which run() raises in the middle of a history, coordinates edited in place and
                       conformers added between runs, queries of every shape between runs (defaults, positional, exact, masks of
                       every container type, lengths fold() refuses), returned fingerprints that are kept (must not change when the
                       object is reused) or modified by the caller (must not leak into later results), next() on the exhausted
                       iterator, substructs_to_pdb, a COMPANION Fingerprinter with opposite options working on the same molecule
                       object in between.  The fresh object runs on a fresh COPY of the molecule, so that nothing attached to the
                       reused molecule object reaches the oracle.
  sec_model_histories  a few such scripts on gridded molecules, additionally tied to the Coq object model (check_history_queries) with
                       the object's own bits / counts in the queries
  sec_interleaved      DETERMINISTIC interleavings of 2-4 independent jobs, each on its own Fingerprinter object in its own thread,
                       switched by a scheduler at every __next__ and around every query (the schedule is part of the replay)
  sec_reused_workers   thread pool (1e-6 s switch interval) and fork pool whose workers each REUSE one Fingerprinter over their jobs
  sec_processes        fresh interpreters that receive the same PICKLED jobs under different PYTHONHASHSEED values, submission orders
                       and modes (fresh object per job / one object per option setting), compared job by job with each other and with
                       this process
"""
import collections
import json
import os
import pickle
import random
import subprocess
import sys
import threading
import core
import fpgen
import m1lib
import molfacts
import molgen

# ---------------------------------------------------------------------------------------------------------------- molecule pool
# different compounds that an "is it the same molecule?" shortcut could confuse: same '_Name', same numbers of atoms and bonds
FAMILIES = [
    ('ligand-3', ['CCO', 'CCN', 'CCS', 'CCF', 'CCCl', 'CC=O', 'CC#N'], False),            # heavy atoms only: 3 atoms, 2 bonds
    ('ligand-4', ['CC(=O)O', 'CC(=O)[O-]', 'CC(N)=O', 'CC(C)=O', 'CC(C)O', 'CC(F)F'], False),
    ('ring-6', ['c1ccccc1', 'c1ccncc1', 'C1CCCCC1', 'C1CCOCC1', 'c1cncnc1'], False),
    ('isomer-C2H6O', ['CCO', 'COC'], True),                                                # with hydrogens: 9 atoms, 8 bonds
    ('isomer-C3H8O', ['CCCO', 'CC(C)O', 'CCOC'], True),
    ('enantiomer', ['C[C@H](N)C(=O)O', 'C[C@@H](N)C(=O)O'], True),
    ('diastereomer', ['C[C@H](O)[C@@H](N)C(=O)O', 'C[C@H](O)[C@H](N)C(=O)O'], False),
]
# NEAR: compounds that differ in ONE thing an atom invariant or the bond table looks at (isotope, charge, ring membership, bond
# order, element): a table or memo keyed by less than everything it depends on serves one of them the other's entry, and WHICH
# one depends on what the process saw first - visible only across processes / submission orders (or against the model)
NEAR = [
    ('near-isotope-C', ['CC', 'C[13CH3]', '[13CH3][13CH3]', 'C[14CH3]']),
    ('near-isotope-O', ['CCO', 'CC[18OH]', 'CC[17OH]']),
    ('near-isotope-X', ['CCBr', 'CC[81Br]', 'CCCl', 'CC[37Cl]']),
    ('near-charge', ['CC(=O)O', 'CC(=O)[O-]', 'CCN', 'CC[NH3+]', 'CC[NH-]']),
    ('near-ring', ['C1CCCCC1', 'CCCCCC', 'C1CCCC1', 'CCCCC']),
    ('near-order', ['CC=C', 'CCC', 'CC#C', 'C=C=C', 'c1ccccc1', 'C1=CCC=CC1']),
    ('near-element', ['CCS', 'CC[SeH]', 'CCO', 'CC[SiH3]', 'CCP']),
]
# run() raises on these (bond types outside the table: the known C02 finding; nothing retained) or they are degenerate
ODD = ['CN(C)(C)->B', 'Cl[Re]$[Re]Cl', '[NH3]->[Cu]', '[H][H]', '[Na+].[Cl-]', '[Na+]', 'O', '[2H]O[2H]', 'N->[Pt](Cl)(Cl)<-N']
FLAT = ['c1ccc2ccccc2c1', 'CC(=O)Oc1ccccc1C(=O)O', 'C/C=C/C', 'OCC(O)CO']
TWIN_OF = ['CCO', 'CC(N)C(=O)O', 'c1ccncc1', 'F[C@](Cl)(Br)I', 'C1CC1', 'CC(=O)[O-].[Na+]', 'C[C@H](O)CN', 'CCO.O', 'CC(C)(C)C']

_POOL = None


def pool():
    """name -> {'mol', 'fam', 'cls'}; deterministic (independent of the run's seed) so that a replay file can name its molecules."""
    global _POOL
    if _POOL is not None:
        return _POOL
    from rdkit import Chem
    from rdkit.Chem import AllChem
    P = collections.OrderedDict()

    def add(name, m, fam=None, cls='plain'):
        P[name] = {'mol': m, 'fam': fam or name, 'cls': cls}
    for i, smi in enumerate(molgen.SMILES):
        m = molgen.embedded(smi, nconf=3, seed=5, keep_hs=(i % 2 == 0))
        if m is None:
            continue
        m = Chem.Mol(m)
        cls = 'hs_kept' if i % 2 == 0 else 'hs_removed'
        if i % 3 == 1:                      # conformer ids that are not 0..n-1
            for j, c in enumerate(list(m.GetConformers())):
                c.SetId(3 + 4 * j)
            cls += '+gapped_ids'
        add(smi, m, cls=cls)
    for smi in TWIN_OF:
        m = molgen.embedded(smi, nconf=3, seed=5, keep_hs=True)
        if m is None:
            continue
        n = m.GetNumAtoms()
        perm = list(range(n))
        random.Random('c04cov-' + smi).shuffle(perm)
        add('twin|' + smi, Chem.Mol(m), fam='twin|' + smi, cls='twin')
        add('twin-copy|' + smi, Chem.Mol(m), fam='twin|' + smi, cls='twin')
        if n > 1:
            add('twin-renumbered|' + smi, Chem.RenumberAtoms(m, perm), fam='twin|' + smi, cls='twin')
            add('twin-reversed|' + smi, Chem.RenumberAtoms(m, list(range(n))[::-1]), fam='twin|' + smi, cls='twin')
    for fam, smis, keep in FAMILIES:
        for smi in smis:
            m = molgen.embedded(smi, nconf=2, seed=5, keep_hs=keep)
            if m is None:
                continue
            m = Chem.Mol(m)
            m.SetProp('_Name', fam)
            add('%s|%s' % (fam, smi), m, fam=fam, cls='namesake')
    for fam, smis in NEAR:
        for smi in smis:
            m = molgen.embedded(smi, nconf=2, seed=5, keep_hs=True)
            if m is None:
                continue
            m = Chem.Mol(m)
            m.SetProp('_Name', 'compound')
            add('%s|%s' % (fam, smi), m, fam=fam, cls='near')
    for smi in ODD + FLAT:
        m = Chem.MolFromSmiles(smi)
        if m is None:
            continue
        if smi in FLAT:
            m = Chem.AddHs(m)
        AllChem.Compute2DCoords(m)
        m.SetProp('_Name', 'flat')
        add('2d|' + smi, m, fam='2d', cls='odd' if smi in ODD else 'flat')
    for name, m in molgen.shipped():
        if m.GetNumConformers() >= 6:
            mm = Chem.Mol(m)
            confs = [Chem.Conformer(c) for c in list(m.GetConformers())[:6]]
            mm.RemoveAllConformers()
            for c in confs:
                mm.AddConformer(c, assignId=False)
            add('shipped|' + name, mm, fam='shipped', cls='shipped')
    _POOL = P
    return P


def families():
    fam = collections.OrderedDict()
    for name, e in pool().items():
        fam.setdefault(e['fam'], []).append(name)
    return fam


# --------------------------------------------------------------------------------------------------- fingerprinter, observations
def make_fprinter(o, bits, counts, cls=None):
    from e3fp.fingerprint.fprinter import Fingerprinter
    return (cls or Fingerprinter)(bits=bits, level=o['level'], radius_multiplier=o['mult'], stereo=o['stereo'], counts=counts,
                                  include_disconnected=o['incl'], rdkit_invariants=o['rdkit'], exclude_floating=o['exfloat'],
                                  remove_duplicate_substructs=o['remdup'])


def fp_obs(fp):
    """everything a caller can see of a returned fingerprint, JSON-able"""
    o = fpgen.obs(fp)
    return [o['kind'], o['bits'], o['level'], o['idx'], [[k, str(v)] for k, v in o['cnt']], o['name'],
            sorted([str(k), repr(v)] for k, v in fp.props.items())]


def mk_mask(q):
    import numpy as np
    mask, t = list(q.get('mask', [])), q.get('mask_type', 'set')
    if t == 'list':
        return list(mask)
    if t == 'tuple':
        return tuple(mask)
    if t == 'frozenset':
        return frozenset(mask)
    if t == 'np_set':
        return set(np.int64(x) for x in mask)
    if t == 'np_array':
        return np.array(mask, dtype=np.int64)
    if t == 'int':
        return mask[0] if mask else 0           # documented as accepted; len() of it raises on fresh and reused objects alike
    return set(mask)


def do_query(f, q):
    """One get_fingerprint_at_level / get_shells_at_level call described by q -> ('ok', observation, object) or ('err', type, None)."""
    kw = {}
    if 'level' in q:
        kw['level'] = q['level']
    if 'bits' in q:
        kw['bits'] = q['bits']
    if q.get('exact'):
        kw['exact'] = True
    if 'mask' in q:
        kw['atom_mask'] = mk_mask(q)
    try:
        if q.get('via') == 'shells':
            kw.pop('bits', None)
            sh = f.get_shells_at_level(**kw)
            return ('ok', sorted([int(s.identifier), int(s.center_atom), sorted(int(a) for a in s.substruct.atoms)] for s in sh), None)
        if q.get('positional'):
            fp = f.get_fingerprint_at_level(q.get('level', -1), q.get('bits'), bool(q.get('exact')), mk_mask(q))
        else:
            fp = f.get_fingerprint_at_level(**kw)
        return ('ok', fp_obs(fp), fp)
    except Exception as e:  # noqa
        return ('err', type(e).__name__, None)


def snapshot(f, probes):
    lv = f.current_level
    return {'k': None if lv is None else int(lv),
            'levels': {str(l): [[i, c, list(s)] for i, c, s in v] for l, v in sorted(molfacts.observe(f).items())},
            'q': [list(do_query(f, q)[:2]) for q in probes]}


def first_diff(a, b):
    if a['k'] != b['k']:
        return 'current_level %r on the reused object, %r on a fresh one' % (a['k'], b['k'])
    if sorted(a['levels']) != sorted(b['levels']):
        return 'level_shells keys %s on the reused object, %s on a fresh one' % (sorted(a['levels']), sorted(b['levels']))
    for l in a['levels']:
        if a['levels'][l] != b['levels'][l]:
            return 'shells of level %s differ (%d vs %d shells)' % (l, len(a['levels'][l]), len(b['levels'][l]))
    for i, (x, y) in enumerate(zip(a['q'], b['q'])):
        if x != y:
            return 'query number %d differs: %s  vs  %s' % (i, json.dumps(x, default=str)[:300], json.dumps(y, default=str)[:300])
    return 'no difference'


def legal_bits(fbits):
    out = [None, -1, fbits]
    b = fbits
    while b > 1:
        b //= 2
        if b in (2 ** 31, 65536, 4096, 1024, 64, 32, 8, 2, 1):
            out.append(b)
    return out


MASK_TYPES = ['set', 'set', 'list', 'tuple', 'frozenset', 'np_set', 'np_array']


def rand_query(rng, maxk, fbits, natoms, level=Ellipsis):
    q = {}
    lv = rng.choice([None, -1, 0, 1, 2, maxk, maxk + 1, maxk + 3]) if level is Ellipsis else level
    if lv != 'default':
        q['level'] = lv
    r = rng.random()
    if r < 0.5:
        q['bits'] = rng.choice(legal_bits(fbits))
    elif r < 0.56:
        q['bits'] = rng.choice([100, 3, fbits * 2])            # lengths fold() refuses: the same error from both objects
    if rng.random() < 0.35 and natoms > 0:
        q['mask'] = sorted(rng.sample(range(natoms), min(natoms, rng.choice([1, 1, 2, 3]))))
        q['mask_type'] = rng.choice(MASK_TYPES + (['int'] if rng.random() < 0.1 else []))
    elif rng.random() < 0.1:
        q['mask'] = []
        q['mask_type'] = rng.choice(MASK_TYPES)
    if rng.random() < 0.15:
        q['exact'] = True
    r = rng.random()
    if r < 0.12:
        q['via'] = 'shells'
    elif r < 0.22:
        q['positional'] = True
    return q


def probe_queries(rng, maxk, fbits, natoms):
    """the queries asked of the reused and of the fresh object after every run: every explicit level up to the highest level ANY
    earlier run of the history reached (+1), None, -1 and the all-defaults call"""
    qs = [rand_query(rng, maxk, fbits, natoms, level=lv) for lv in [None, -1, 'default'] + list(range(0, maxk + 2))]
    qs.append({})
    return qs


# ------------------------------------------------------------------------------------------------------------ history scripts
RUN_FORMS = ['conf_obj', 'conf_obj', 'conf_obj_kw', 'int', 'int', 'int_kw', 'np_int', 'conf_only', 'conf_only_kw', 'mol_only', 'none_mol',
             'same_conf_obj', 'same_conf_obj', 'int_no_mol']
# what the fresh object is called with: the plain (id, molecule) call wherever the arguments name a conformer unambiguously; the
# SAME form where the meaning of the arguments is the library's own business (a NumPy integer id is not accepted by RDKit's
# GetConformer and run() falls back to conformer 0; without a conformer run() takes conformer id 0)
ORACLE_FORM = {'np_int': 'np_int', 'mol_only': 'mol_only', 'none_mol': 'none_mol'}
MUTATIONS = ['name', 'prop', 'props_update', 'level', 'fold', 'idmap', 'indices', 'counts', 'mol', 'reset']


def run_call(f, form, m, cid, confobj):
    import numpy as np
    if form in ('conf_obj', 'same_conf_obj'):
        f.run(confobj, m)
    elif form == 'conf_obj_kw':
        f.run(conf=confobj, mol=m)
    elif form == 'int':
        f.run(cid, m)
    elif form == 'int_kw':
        f.run(mol=m, conf=cid)
    elif form == 'np_int':
        f.run(np.int64(cid), m)
    elif form == 'conf_only':
        f.run(confobj)
    elif form == 'conf_only_kw':
        f.run(conf=confobj)
    elif form == 'mol_only':
        f.run(mol=m)
    elif form == 'none_mol':
        f.run(None, m)
    elif form == 'int_no_mol':
        f.run(cid)
    else:
        raise ValueError(form)


def attempt_run(f, form, m, cid, confobj):
    try:
        run_call(f, form, m, cid, confobj)
        return ('ok', None)
    except Exception as e:  # noqa
        return ('err', type(e).__name__)


def mutate_fp(fp, how):
    """what a caller may do with a fingerprint it was given"""
    if how == 'name':
        fp.name = 'renamed by the caller'
    elif how == 'prop':
        fp.set_prop('tag', 17)
    elif how == 'props_update':
        fp.update_props({'a': 1, 'b': [2]})
    elif how == 'level':
        fp.level = 77
    elif how == 'fold':
        if fp.bits >= 4:
            fp.fold(fp.bits // 4)
    elif how == 'idmap':
        fp.index_id_map = {int(i): set([1]) for i in fp.indices[:2]}
    elif how == 'indices':
        if len(fp.indices):
            fp.indices[0] = 0
    elif how == 'counts':
        d = fp.counts
        for k in list(d)[:1]:
            d[k] += 5
    elif how == 'mol':
        fp.mol = 'some molecule'
    elif how == 'reset':
        fp.reset()


class Failure(Exception):
    def __init__(self, what, key, detail):
        Exception.__init__(self, what)
        self.what, self.key, self.detail = what, key, detail


class Runner(object):
    """Interprets the steps of a history script on ONE Fingerprinter object.  Molecules are this history's own copies of the pool
    entries (so in-place edits stay inside the history and a script replays exactly)."""

    def __init__(self, o, bits, counts, workdir=None, grid=False, cls=None):
        self.o, self.bits, self.counts, self.workdir, self.grid = o, bits, counts, workdir, grid
        self.f = make_fprinter(o, bits, counts, cls)
        self.mols = {}
        self.cur = None          # name of the molecule of the last run that returned
        self.tried = None        # name of the molecule of the last run attempted
        self.clean = False       # the last run returned
        self.ident = {}          # molecule name -> identity token of the model
        self.last = None         # (name, conf id, Conformer object) of the last run made with a conformer object and a molecule
        self.held = []           # (fingerprint object, observation when it was returned, query)
        self.maxk = 0
        self.stats = collections.Counter()
        self.steps_done = 0
        self.model_hist = []     # (identity token, facts at call time, outcome) per run, for the model tie

    def mol(self, name):
        from rdkit import Chem
        if name not in self.mols:
            m = Chem.Mol(pool()[name]['mol'])
            self.mols[name] = molfacts.gridded(m) if self.grid else m
        return self.mols[name]

    def conf_ids(self, name):
        return [c.GetId() for c in self.mol(name).GetConformers()]

    # -- actions between runs
    def action(self, a):
        from rdkit.Geometry import Point3D
        from rdkit import Chem
        f = self.f
        kind = a['a']
        self.stats['between:' + kind] += 1
        if kind == 'query':
            do_query(f, a['q'])
        elif kind == 'hold':
            r = do_query(f, a['q'])
            if r[0] == 'ok' and r[2] is not None:
                self.held.append((r[2], r[1], a['q']))
        elif kind == 'mutate':
            r1 = do_query(f, a['q'])
            if r1[0] == 'ok' and r1[2] is not None:
                mutate_fp(r1[2], a['how'])
                r2 = do_query(f, a['q'])
                if list(r2[:2]) != list(r1[:2]):
                    raise Failure('a fingerprint returned by get_fingerprint_at_level was modified by the caller (%s); the SAME query on the '
                                  'unchanged fingerprinter then returned something else' % a['how'], 'C04:returned-fingerprint-aliased',
                                  {'query': a['q'], 'before': r1[1], 'after': r2[1]})
        elif kind == 'next':
            try:
                next(f)
            except StopIteration:
                pass
            except Exception:  # noqa
                self.stats['between:next_raised'] += 1
        elif kind == 'pdb':
            try:
                f.substructs_to_pdb(level=a.get('level'), out_dir=os.path.join(self.workdir, 'pdb%d' % self.stats['between:pdb']), reorient=a.get('reorient', True))
            except Exception:  # noqa
                self.stats['between:pdb_raised'] += 1
        elif kind == 'companion':
            # ANOTHER Fingerprinter with other options works on the same molecule object in between (result discarded)
            try:
                make_fprinter(a['opts'], 2 ** 32, False).run(a['conf'], self.mol(a['mol']))
            except Exception:  # noqa
                self.stats['between:companion_raised'] += 1
        elif kind == 'edit_coords':
            conf = self.mol(a['mol']).GetConformer(a['conf'])
            p = conf.GetAtomPosition(a['atom'])
            conf.SetAtomPosition(a['atom'], Point3D(p.x + a['d'][0], p.y + a['d'][1], p.z + a['d'][2]))
        elif kind == 'add_conf':
            m = self.mol(a['mol'])
            c = Chem.Conformer(m.GetConformer(a['from']))
            p = c.GetAtomPosition(a['atom'])
            c.SetAtomPosition(a['atom'], Point3D(p.x + a['d'][0], p.y + a['d'][1], p.z + a['d'][2]))
            a['new_id'] = int(m.AddConformer(c, assignId=True))
        else:
            raise ValueError(kind)

    # -- one run() step
    def step(self, st):
        name, cid, form = st['mol'], st['conf'], st['form']
        m = self.mol(name)
        confobj = None
        if form == 'same_conf_obj':
            confobj = self.last[2]
        elif form in ('conf_obj', 'conf_obj_kw', 'conf_only', 'conf_only_kw'):
            confobj = m.GetConformer(cid)
        for act in st.get('pre', []):
            self.action(act)
        self.stats['form:' + form] += 1
        self.stats['mol:' + pool()[name]['cls']] += 1
        self.stats['runs'] += 1
        if self.cur is not None:
            self.stats['runs_after_first'] += 1
            self.stats['same_object_again' if self.cur == name else 'other_molecule'] += 1
        out = attempt_run(self.f, form, m, cid, confobj)
        self.tried, self.clean = name, out[0] == 'ok'
        if form == 'int_no_mol' and out[0] == 'err':
            self.stats['int_without_molecule_raised'] += 1       # since fix: ddefc9f the form works; a raise is compared with the oracle like any other outcome
        # the oracle: a fresh Fingerprinter on a fresh COPY of the molecule (same atoms, bonds, conformer ids and coordinates,
        # another Python / C++ object): nothing that was attached to the reused molecule object can reach it
        from rdkit import Chem
        g = make_fprinter(self.o, self.bits, self.counts)
        oform = ORACLE_FORM.get(form, 'int')
        oout = attempt_run(g, oform, Chem.Mol(m), cid, None)
        if self.grid:
            ident = 5000 + self.steps_done if form in ('conf_only', 'conf_only_kw') else self.ident.setdefault(name, len(self.ident))
            self.model_hist.append((ident, molfacts.mol_facts(m, 0 if form in ('mol_only', 'none_mol') else cid), out[0]))
        if out != oout:
            raise Failure('run() number %d of a history on one Fingerprinter %s; a fresh Fingerprinter %s on the same arguments'
                          % (self.steps_done + 1, 'raised ' + out[1] if out[0] == 'err' else 'returned', 'raised ' + oout[1] if oout[0] == 'err' else 'returned'),
                          'C04:history-outcome', {'reused': out, 'fresh': oout})
        self.steps_done += 1
        if out[0] == 'err':
            self.stats['runs_raising:' + out[1]] += 1
            return
        k = int(self.f.current_level)
        self.maxk = max(self.maxk, k)
        self.stats['level_reached:%d' % k] += 1
        a, b = snapshot(self.f, st['probe']), snapshot(g, st['probe'])
        self.stats['probe_queries'] += len(st['probe'])
        if a != b:
            raise Failure('the state or the answers of a reused Fingerprinter after run() number %d of a history differ from a fresh Fingerprinter: %s'
                          % (self.steps_done, first_diff(a, b)), 'C04:history', {'difference': first_diff(a, b)})
        self.cur = name
        if form in ('conf_obj', 'conf_obj_kw'):
            self.last = (name, cid, confobj)
        for act in st.get('post', []):
            self.action(act)

    def finish(self):
        for fp, obs0, q in self.held:
            self.stats['held_fingerprints'] += 1
            now = fp_obs(fp)
            if now != obs0:
                raise Failure('a fingerprint returned earlier changed after the fingerprinter was used again', 'C04:returned-fingerprint-changed-by-later-run',
                              {'query': q, 'when_returned': obs0, 'now': now})


def gen_step(rng, R, names, sticky=0.55, odd=0.1):
    """next step of a history for runner R (needs R's state: current molecule, conformer ids incl. added ones)"""
    fam = families()
    P = pool()
    if R.tried is not None and rng.random() < sticky:
        name = R.tried                                                               # also after a run that raised
    elif R.tried is not None and len(fam[P[R.tried]['fam']]) > 1 and P[R.tried]['fam'] not in ('2d', 'shipped') and rng.random() < 0.6:
        name = rng.choice([n for n in fam[P[R.tried]['fam']] if n != R.tried])       # twin / namesake / isomer
    elif rng.random() < odd:
        name = rng.choice([n for n in P if P[n]['cls'] == 'odd'])
    else:
        name = rng.choice(names)
    form = rng.choice(RUN_FORMS)
    if form == 'same_conf_obj' and R.last is None:
        form = 'conf_obj'
    if form == 'int_no_mol' and not (R.clean and R.cur is not None):
        form = 'int'
    if form == 'same_conf_obj':
        name, cid = R.last[0], R.last[1]
    else:
        if form == 'int_no_mol':
            name = R.cur
        cid = rng.choice(R.conf_ids(name))
    m = R.mol(name)
    n = m.GetNumAtoms()
    st = {'mol': name, 'conf': int(cid), 'form': form, 'probe': probe_queries(rng, R.maxk + (1 if rng.random() < 0.3 else 0), R.bits, n), 'post': []}
    heavy = [a.GetIdx() for a in m.GetAtoms() if a.GetAtomicNum() > 1]
    if rng.random() < 0.2 and form != 'same_conf_obj':
        # the molecule object of this step is first used by another Fingerprinter whose options differ in every boolean
        oo = dict(R.o, stereo=not R.o['stereo'], incl=not R.o['incl'], rdkit=not R.o['rdkit'], exfloat=not R.o['exfloat'], level=rng.choice([1, 2, 3]), remdup=True)
        st['pre'] = [{'a': 'companion', 'opts': m1lib.opts_json(oo), 'mol': name, 'conf': int(rng.choice(R.conf_ids(name)))}]
    for _ in range(rng.choice([0, 1, 1, 2, 3])):
        r = rng.random()
        q = rand_query(rng, R.maxk + 1, R.bits, n)
        if r >= 0.25:
            q.pop('via', None)           # kept / modified results are fingerprints
        if r < 0.25:
            st['post'].append({'a': 'query', 'q': q})
        elif r < 0.45:
            st['post'].append({'a': 'hold', 'q': q})
        elif r < 0.65:
            st['post'].append({'a': 'mutate', 'q': q, 'how': rng.choice(MUTATIONS)})
        elif r < 0.72:
            st['post'].append({'a': 'next'})
        elif r < 0.75 and R.workdir and n <= 20:
            st['post'].append({'a': 'pdb', 'level': rng.choice([None, 0, 1]), 'reorient': rng.random() < 0.5})
        elif r < 0.9 and heavy and P[name]['cls'] != 'odd':
            # coordinates of one conformer edited in place (re-minimised, aligned ...): the molecule OBJECT and its atoms / bonds stay
            step = 0.25 if R.grid else 0.3
            st['post'].append({'a': 'edit_coords', 'mol': name, 'conf': int(rng.choice(R.conf_ids(name))), 'atom': int(rng.choice(heavy)),
                               'd': [rng.choice([-1, 1, 2]) * step, rng.choice([-1, 0, 1]) * step, rng.choice([-2, 0, 1]) * step]})
        elif heavy and P[name]['cls'] != 'odd' and len(R.conf_ids(name)) < 8:
            st['post'].append({'a': 'add_conf', 'mol': name, 'from': int(rng.choice(R.conf_ids(name))), 'atom': int(rng.choice(heavy)),
                               'd': [0.5, -0.25, 0.75]})
    return st


def module_state():
    """mutable defaults and module-level tables that no run may write to"""
    from props import c04
    from e3fp.fingerprint import fprinter
    return json.dumps([c04.mutable_defaults(), sorted((repr(k), v) for k, v in fprinter.BOND_TYPES.items())])


def _report(ctx, e, payload):
    payload = dict(payload, detail=e.detail, how_to_replay='bin/check C04 --replay <this file>')
    ctx.fail(e.what, payload, finding_key=e.key)


def sec_impl_histories(ctx):
    rng = ctx.rng
    P = pool()
    small = [n for n in P if P[n]['cls'] not in ('odd', 'shipped')]
    big = [n for n in P if P[n]['cls'] == 'shipped']
    stats = collections.Counter()
    found = False
    nh = ctx.n(220, 1500)
    for hno in range(nh):
        o = molgen.rand_opts(rng)
        use_big = hno % 8 == 0 and big
        if use_big:
            o = dict(o, level=rng.choice([4, 5, 6, -1]), mult=rng.choice([1.5, 1.718, 2.0]), remdup=True)
        bits, counts = rng.choice([2 ** 32, 2 ** 32, 4096, 1024, 32]), rng.random() < 0.4
        before = module_state()
        R = Runner(o, bits, counts, workdir=ctx.workdir)
        script = []
        payload = {'stream': 'impl-history', 'opts': m1lib.opts_json(o), 'bits': bits, 'counts': counts, 'script': script}
        try:
            for _ in range(rng.choice([2, 3, 5, 8]) if ctx.quick else rng.choice([2, 4, 8, 16, 30])):
                st = gen_step(rng, R, big if use_big and rng.random() < 0.85 else small, sticky=0.6 if use_big else 0.5)
                if not script and rng.random() < 0.3:        # levels queried before anything ran (IndexError), then the first run
                    st['pre'] = st.get('pre', []) + [{'a': 'query', 'q': rand_query(rng, 2, bits, 3)} for _ in range(rng.choice([1, 2]))]
                script.append(st)
                R.step(st)
                ctx.count(('ihist', hno, len(script)), len(script) > 1)
            R.finish()
        except Failure as e:
            found = True
            _report(ctx, e, payload)
        if module_state() != before:
            found = True
            ctx.fail('a mutable default argument or a module-level table was modified during a history', dict(payload, before=before, after=module_state()),
                     finding_key='C04:mutable-default')
        stats.update(R.stats)
        stats['histories'] += 1
        if hno == 0:
            ctx.sample({'impl_history_script': [{k: v for k, v in s.items() if k != 'probe'} for s in script][:4]})
    ctx.coverage.setdefault('input_distribution', {})['impl_histories'] = dict(sorted(stats.items()))
    return found


# ---------------------------------------------------------------------------------------------------- model-tied scripts
MODEL_FORMS = ['conf_obj', 'conf_obj_kw', 'int', 'int_kw', 'conf_only', 'conf_only_kw', 'mol_only', 'none_mol', 'same_conf_obj']
MODEL_MOLS = ['CCO', 'c1ccncc1', 'CC(C)(C)C', 'C1CC1', 'OCC(O)CO', 'twin|CCO', 'twin-renumbered|CCO', 'twin|F[C@](Cl)(Br)I', 'twin-reversed|F[C@](Cl)(Br)I',
              'ligand-3|CCO', 'ligand-3|CCN', 'ligand-3|CCS', 'ligand-3|CC#N', 'ligand-4|CC(=O)O', 'ligand-4|CC(=O)[O-]', 'ligand-4|CC(N)=O',
              'isomer-C2H6O|CCO', 'isomer-C2H6O|COC', 'enantiomer|C[C@H](N)C(=O)O', 'enantiomer|C[C@@H](N)C(=O)O', '2d|CN(C)(C)->B', '2d|OCC(O)CO',
              'near-isotope-C|CC', 'near-isotope-C|C[13CH3]', 'near-isotope-O|CC[18OH]', 'near-charge|CC[NH3+]', 'near-charge|CCN', 'near-ring|C1CCCC1', 'near-ring|CCCCC']


def sec_model_histories(ctx):
    """Scripts on gridded molecules whose last run and final queries are also evaluated by the Coq object model."""
    rng = ctx.rng
    P = pool()
    names = [n for n in MODEL_MOLS if n in P and P[n]['mol'].GetConformers()[0].GetId() == 0]
    cases, payloads = [], {}
    stats = collections.Counter()
    found = False
    tries = 0
    want = ctx.n(14, 100)
    while len(cases) < want and tries < want * 4:
        tries += 1
        o = molgen.rand_opts(rng)
        bits, counts = rng.choice([2 ** 32, 4096, 1024, 32]), rng.random() < 0.5
        R = Runner(o, bits, counts, workdir=ctx.workdir, grid=True)
        script = []
        payload = {'stream': 'model-history', 'grid': True, 'opts': m1lib.opts_json(o), 'bits': bits, 'counts': counts, 'script': script}
        tie_ok = True
        try:
            for _ in range(rng.choice([2, 3, 4])):
                st = gen_step(rng, R, names, odd=0.0)
                while st['form'] not in MODEL_FORMS or st['mol'] not in names:
                    st = gen_step(rng, R, names, odd=0.0)
                st['post'] = [a for a in st['post'] if a['a'] != 'pdb']
                script.append(st)
                m = R.mol(st['mol'])
                cid = 0 if st['form'] in ('mol_only', 'none_mol') else st['conf']
                if m1lib.is_unstable(m, cid, o):
                    tie_ok = False
                R.step(st)
            R.finish()
        except Failure as e:
            found = True
            _report(ctx, e, payload)
            continue
        if not tie_ok:
            stats['tie_skipped_unstable'] += 1
            continue
        if not R.model_hist or R.model_hist[-1][2] != 'ok':
            stats['tie_skipped_last_run_raised'] += 1
            continue
        f = R.f
        k = int(f.current_level)
        obs = molfacts.observe(f)
        keys = sorted(int(l) for l in f.level_shells.keys())
        m = R.mol(script[-1]['mol'])
        ret = [a.GetIdx() for a in m.GetAtoms() if a.GetAtomicNum() > 1]
        qs = []
        for lv in [None, -1] + list(range(0, R.maxk + 2)):
            qb = rng.choice([b for b in legal_bits(bits) if b not in (None, -1)])
            mask = [] if rng.random() < 0.6 else rng.sample(ret, min(len(ret), rng.choice([1, 2])))
            qs.append(m1lib.query_lit(counts, qb, lv, mask, m1lib.query_impl(f, lv, qb, mask)))
        hist_lit = ['(%s, %s)' % (core.zlit(i), molfacts.mol_lit(facts)) for i, facts, _ in R.model_hist]
        key = 'xhist%d' % len(cases)
        cases.append((key, 'check_history_queries %s %s %s %s %s %s' % (molfacts.opts_lit(o), core.listlit(hist_lit), core.zlit(k),
                                                                       molfacts.levels_lit(obs, k), core.zlist(keys), core.listlit(qs))))
        payloads[key] = payload
        stats.update(R.stats)
        stats['histories'] += 1
        stats['runs_raising_inside'] += sum(1 for x in R.model_hist if x[2] != 'ok')
        ctx.count(('xhist', len(cases)), True)
    core.coq_make(['theories/Exec/RunM1.vo'])
    found |= core.compare_cases(ctx, cases, m1lib.IMPORTS, 'C04 extended object histories (model state machine vs implementation)', payloads, shard=2) > 0
    ctx.coverage.setdefault('input_distribution', {})['model_histories_ext'] = dict(sorted(stats.items()))
    return found


# -------------------------------------------------------------------------------------------- deterministic interleavings
_STEPPED = None


def stepped_class():
    """Fingerprinter whose every iteration step first hands control to a scheduler (run() itself is the library's)."""
    global _STEPPED
    if _STEPPED is None:
        from e3fp.fingerprint.fprinter import Fingerprinter

        class Stepped(Fingerprinter):
            _cp = None

            def __next__(self):
                if self._cp is not None:
                    self._cp()
                return Fingerprinter.__next__(self)
            next = __next__
        _STEPPED = Stepped
    return _STEPPED


class Scheduler(object):
    """Runs n job functions in n threads, ONE at a time; which job advances to its next checkpoint is drawn from rng (or read
    from a recorded trace)."""
    TIMEOUT = 180

    def __init__(self, n):
        self.n = n
        self.go = [threading.Semaphore(0) for _ in range(n)]
        self.back = threading.Semaphore(0)
        self.done = [False] * n
        self.res = [None] * n
        self.trace = []
        self.stuck = False

    def checkpoint(self, j):
        self.back.release()
        if not self.go[j].acquire(timeout=self.TIMEOUT):
            raise RuntimeError('scheduler timeout')

    def _wrap(self, j, fn):
        if not self.go[j].acquire(timeout=self.TIMEOUT):
            return
        try:
            self.res[j] = ('ok', fn(lambda: self.checkpoint(j)))
        except BaseException as e:  # noqa
            self.res[j] = ('err', '%s: %s' % (type(e).__name__, str(e)[:200]))
        self.done[j] = True
        self.back.release()

    def run(self, fns, rng=None, trace=None):
        ths = [threading.Thread(target=self._wrap, args=(j, fn), daemon=True) for j, fn in enumerate(fns)]
        for t in ths:
            t.start()
        live = set(range(self.n))
        it = iter(trace) if trace is not None else None
        while live:
            if it is not None:
                j = next(it, None)
                if j is None or j not in live:
                    j = sorted(live)[0]
            else:
                # bursts: mostly alternate, sometimes let one job run several steps
                j = rng.choice(sorted(live))
            self.trace.append(j)
            self.go[j].release()
            if not self.back.acquire(timeout=self.TIMEOUT):
                self.stuck = True
                break
            if self.done[j]:
                live.discard(j)
        for t in ths:
            t.join(timeout=5)
        return self.res


def job_fn(spec, mols, cls):
    """job = a short history on the job's OWN Fingerprinter; checkpoints at every __next__ (through cls) and around the queries"""
    def fn(cp):
        f = make_fprinter(spec['opts'], spec['bits'], spec['counts'], cls)
        if cls is not None:
            f._cp = cp
        out = []
        for name, cid in spec['runs']:
            try:
                f.run(cid, mols[name])
            except Exception as e:  # noqa
                out.append('raises ' + type(e).__name__)
                cp()
                continue
            cp()
            out.append(json.dumps(snapshot(f, spec['probes']), sort_keys=True, default=str))
            cp()
        return out
    return fn


def run_schedule(specs, rng=None, trace=None):
    """-> (serial results before, interleaved results, serial results after, trace, stuck)"""
    from rdkit import Chem
    mols = {}
    for s in specs:
        for name, cid in s['runs']:
            if name not in mols:
                mols[name] = Chem.Mol(pool()[name]['mol'])
    serial = [job_fn(s, mols, None)(lambda: None) for s in specs]
    sch = Scheduler(len(specs))
    inter = sch.run([job_fn(s, mols, stepped_class()) for s in specs], rng=rng, trace=trace)
    after = [job_fn(s, mols, None)(lambda: None) for s in specs]
    return serial, inter, after, sch.trace, sch.stuck


def sec_interleaved(ctx):
    rng = ctx.rng
    P = pool()
    fam = families()
    groups = [v for k, v in fam.items() if len(v) > 1 and k not in ('2d',)]       # twins, namesakes, isomers, the shipped molecules
    plain = [n for n in P if P[n]['cls'] not in ('odd', 'shipped')]
    stats = collections.Counter()
    found = False
    for sno in range(ctx.n(70, 500)):
        njobs = rng.choice([2, 2, 3, 4])
        big = sno % 6 == 0
        if big:
            cand = fam['shipped']
        elif rng.random() < 0.7:
            cand = rng.choice([g for g in groups if g is not fam['shipped']])      # same atom-index tuples, different molecules
        else:
            cand = plain
        same_opts = molgen.rand_opts(rng)
        specs = []
        for j in range(njobs):
            o = same_opts if rng.random() < 0.5 else molgen.rand_opts(rng)
            if big:
                o = dict(o, level=rng.choice([3, 4, 5]), mult=rng.choice([1.5, 1.718]), remdup=True)
            bits, counts = rng.choice([2 ** 32, 1024, 32]), rng.random() < 0.4
            runs = []
            for _ in range(rng.choice([1, 1, 2, 3]) if not big else rng.choice([1, 2])):
                name = rng.choice(cand)
                runs.append([name, int(rng.choice([c.GetId() for c in P[name]['mol'].GetConformers()]))])
            n = P[runs[0][0]]['mol'].GetNumAtoms()
            specs.append({'opts': m1lib.opts_json(o), 'bits': bits, 'counts': counts, 'runs': runs, 'probes': probe_queries(rng, 3, bits, n)[:6]})
        serial, inter, after, trace, stuck = run_schedule(specs, rng=rng)
        stats['schedules'] += 1
        stats['jobs'] += njobs
        stats['switch_points'] += len(trace)
        stats['schedules_on_one_family'] += 0 if cand is plain else 1
        ctx.count(('sched', sno), True, n=njobs)
        payload = {'stream': 'interleaving', 'jobs': specs, 'trace': trace}
        if stuck:
            ctx.fail('the deterministic scheduler did not get control back from a job thread', payload, kind='harness-error', no_input=True)
            return True
        for j in range(njobs):
            got = inter[j]
            if got is None or got[0] != 'ok' or got[1] != serial[j]:
                found = True
                ctx.fail('job %d of %d interleaved jobs (each on its own Fingerprinter, switched at iteration steps) differs from the same job run alone'
                         % (j, njobs), dict(payload, job=j, interleaved=(got[1] if got and got[0] == 'err' else 'results differ')), finding_key='C04:interleaving')
                break
            if after[j] != serial[j]:
                found = True
                ctx.fail('job %d run alone AFTER an interleaved schedule differs from the same job run alone before it' % j, dict(payload, job=j),
                         finding_key='C04:interleaving')
                break
    ctx.coverage.setdefault('input_distribution', {})['interleavings'] = dict(sorted(stats.items()))
    return found


# --------------------------------------------------------------------------------------------- workers that reuse an object
_CHUNKS = []
_CHUNK_MOLS = {}


def _chunk_work(i):
    """all jobs of chunk i on ONE Fingerprinter (one option setting per chunk)"""
    f = None
    out = []
    for name, cid, o, bits, counts, probes in _CHUNKS[i]:
        if f is None:
            f = make_fprinter(o, bits, counts)
        try:
            f.run(cid, _CHUNK_MOLS[name])
            out.append(json.dumps(snapshot(f, probes), sort_keys=True, default=str))
        except Exception as e:  # noqa
            out.append('raises ' + type(e).__name__)
    return out


def sec_reused_workers(ctx):
    import concurrent.futures as cf
    import multiprocessing as mp
    from rdkit import Chem
    global _CHUNKS, _CHUNK_MOLS
    rng = ctx.rng
    P = pool()
    names = [n for n in P if P[n]['cls'] != 'shipped'] + [n for n in P if P[n]['cls'] == 'shipped'][:2]
    chunks = []
    for c in range(ctx.n(24, 80)):
        o = molgen.rand_opts(rng)
        bits, counts = rng.choice([2 ** 32, 1024]), rng.random() < 0.4
        chunk = []
        cur = None
        for _ in range(ctx.n(8, 20)):
            cur = cur if cur is not None and rng.random() < 0.5 else rng.choice(names)
            n = P[cur]['mol'].GetNumAtoms()
            chunk.append((cur, int(rng.choice([x.GetId() for x in P[cur]['mol'].GetConformers()])), o, bits, counts, probe_queries(rng, 4, bits, n)[:7]))
        chunks.append(chunk)
    _CHUNKS = chunks
    _CHUNK_MOLS = {n: Chem.Mol(P[n]['mol']) for ch in chunks for n in [j[0] for j in ch]}
    # oracle: a fresh object per job, serially
    serial = []
    for ch in chunks:
        res = []
        for name, cid, o, bits, counts, probes in ch:
            try:
                f = make_fprinter(o, bits, counts)
                f.run(cid, _CHUNK_MOLS[name])
                res.append(json.dumps(snapshot(f, probes), sort_keys=True, default=str))
            except Exception as e:  # noqa
                res.append('raises ' + type(e).__name__)
        serial.append(res)
    found = False
    njobs = sum(len(c) for c in chunks)

    def differing(res):
        return [[i, j, chunks[i][j][0], chunks[i][j][1]] for i in range(len(chunks)) for j in range(len(chunks[i])) if res[i][j] != serial[i][j]][:6]
    old = sys.getswitchinterval()
    sys.setswitchinterval(1e-6)
    try:
        with cf.ThreadPoolExecutor(8) as ex:
            res = list(ex.map(_chunk_work, range(len(chunks))))
    finally:
        sys.setswitchinterval(old)
    ctx.count(('reused-threads',), True, n=njobs)
    if res != serial:
        found = True
        ctx.fail('8 threads, each reusing ONE Fingerprinter over its jobs, give results that differ from fresh objects run serially',
                 {'stream': 'reused-workers', 'jobs_differing [chunk, position, molecule, conformer]': differing(res),
                  'chunk_options': [m1lib.opts_json(chunks[i][0][2]) for i, _, _, _ in differing(res)]}, finding_key='C04:threads')
    with mp.get_context('fork').Pool(4) as pl:
        res = pl.map(_chunk_work, range(len(chunks)))
    ctx.count(('reused-processes',), True, n=njobs)
    if res != serial:
        found = True
        ctx.fail('fork-pool workers, each reusing ONE Fingerprinter over its jobs, give results that differ from fresh objects run serially',
                 {'stream': 'reused-workers', 'jobs_differing [chunk, position, molecule, conformer]': differing(res),
                  'chunk_options': [m1lib.opts_json(chunks[i][0][2]) for i, _, _, _ in differing(res)]}, finding_key='C04:processes')
    ctx.coverage.setdefault('input_distribution', {})['reused_workers'] = {'chunks (one object each)': len(chunks), 'jobs': njobs,
                                                                          'jobs_raising': sum(1 for r in serial for x in r if x.startswith('raises'))}
    return found


# --------------------------------------------------------------------------------------------------------- fresh interpreters
WORKER = r'''
import sys
sys.modules['mpi4py'] = None
sys.path.insert(0, %(harness)r)
import core; core.setup_env()
from props import c04_cov
c04_cov.worker_main(%(jobs)r, %(order)r, %(mode)r)
'''


def run_jobs(jobs, order, mode):
    """jobs: list of (pickled molecule, conformer id, opts, bits, counts, probes).  mode 'fresh': a new Fingerprinter per job;
    'reuse': one Fingerprinter per option setting, reused over the jobs in submission order."""
    out = {}
    objs = {}
    mols = {}
    for i in order:
        blob, cid, o, bits, counts, probes = jobs[i]
        if mode == 'reuse' and i % 2 == 0:
            mols.setdefault(blob, pickle.loads(blob))             # the same molecule OBJECT for all its jobs (fast path of run())
            m = mols[blob]
        else:
            m = pickle.loads(blob)
        key = json.dumps([o, bits, counts], sort_keys=True)
        try:
            if mode == 'reuse':
                if key not in objs:
                    objs[key] = make_fprinter(o, bits, counts)
                f = objs[key]
            else:
                f = make_fprinter(o, bits, counts)
            f.run(cid, m)
            out[str(i)] = json.dumps(snapshot(f, probes), sort_keys=True, default=str)
        except Exception as e:  # noqa
            out[str(i)] = 'raises ' + type(e).__name__
    return out


def worker_main(path, order, mode):
    from rdkit import Chem
    Chem.SetDefaultPickleProperties(Chem.PropertyPickleOptions.AllProps)
    jobs = pickle.load(open(path, 'rb'))
    print('RESULT' + json.dumps(run_jobs(jobs, order, mode), sort_keys=True))


def sec_processes(ctx):
    rng = ctx.rng
    P = pool()
    names = [n for n in P if P[n]['cls'] != 'shipped'] + [n for n in P if P[n]['cls'] == 'shipped'][:2]
    optsets = [(m1lib.opts_json(molgen.rand_opts(rng)), rng.choice([2 ** 32, 1024]), rng.random() < 0.5) for _ in range(3)]
    optsets.append((m1lib.opts_json(dict(molgen.DEFAULT_OPTS)), 1024, False))
    jobs, desc = [], []
    odd = [n for n in P if P[n]['cls'] == 'odd']
    from rdkit import Chem
    Chem.SetDefaultPickleProperties(Chem.PropertyPickleOptions.AllProps)       # names travel with the molecules
    picks = []
    # block 1: EVERY member of every family of near-identical compounds, namesakes and twins, under two fixed option settings
    # (Daylight and RDKit invariants): with the forward and the reversed order below each pair meets in both relative orders
    fixed = [(m1lib.opts_json(dict(molgen.DEFAULT_OPTS, level=2, rdkit=False)), 2 ** 32, False),
             (m1lib.opts_json(dict(molgen.DEFAULT_OPTS, level=2, rdkit=True, stereo=False)), 1024, True)]
    for name in P:
        if P[name]['cls'] in ('near', 'namesake') or (P[name]['cls'] == 'twin' and rng.random() < 0.3):
            for fx in fixed:
                picks.append((name, fx))
    rng.shuffle(picks)
    for i in range(ctx.n(90, 400)):
        picks.append((rng.choice(odd) if i % 9 == 0 else rng.choice(names), rng.choice(optsets)))
    for name, (o, bits, counts) in picks:
        m = P[name]['mol']
        cid = int(rng.choice([c.GetId() for c in m.GetConformers()]))
        jobs.append((pickle.dumps(m), cid, o, bits, counts, probe_queries(rng, 4, bits, m.GetNumAtoms())[:7]))
        desc.append([name, cid, o, bits, counts])
    path = os.path.join(ctx.workdir, 'c04_jobs.pkl')
    pickle.dump(jobs, open(path, 'wb'))
    n = len(jobs)
    plans = [('0', list(range(n)), 'fresh'), ('1', list(range(n))[::-1], 'reuse'), ('4242', list(range(n)), 'reuse')]
    for k in range(ctx.n(3, 9)):
        o = list(range(n))
        rng.shuffle(o)
        plans.append((str(rng.randrange(1, 2 ** 31)), o, 'reuse' if k % 2 == 0 else 'fresh'))
    procs = []
    for seed, order, mode in plans:
        code = WORKER % {'harness': os.path.join(core.VERIF, 'harness'), 'jobs': path, 'order': order, 'mode': mode}
        env = dict(os.environ, PYTHONHASHSEED=seed)
        procs.append((seed, order, mode, subprocess.Popen([sys.executable, '-B', '-c', code], env=env, stdout=subprocess.PIPE, stderr=subprocess.PIPE, text=True)))
    here = run_jobs(jobs, list(range(n)), 'fresh')
    found = False
    for seed, order, mode, p in procs:
        so, se = p.communicate(timeout=1200)
        line = [l for l in so.split('\n') if l.startswith('RESULT')]
        if not line:
            ctx.fail('a worker interpreter of the pickled-jobs test produced no result', {'stderr_tail': se[-1500:], 'seed': seed, 'mode': mode}, no_input=True, kind='harness-error')
            return True
        res = json.loads(line[0][6:])
        ctx.count(('proc', seed, mode), True, n=n)
        bad = [i for i in range(n) if res.get(str(i)) != here[str(i)]]
        if bad:
            found = True
            i = bad[0]
            ctx.fail('the result for one job depends on the interpreter it ran in (PYTHONHASHSEED=%s, %s, %d of %d jobs differ from this process)'
                     % (seed, 'one Fingerprinter per option setting reused in submission order' if mode == 'reuse' else 'fresh Fingerprinter per job', len(bad), n),
                     {'stream': 'processes', 'job [molecule, conformer, opts, bits, counts]': desc[i], 'position_in_order': order.index(i),
                      'jobs_before_it': [desc[j][:2] for j in order[:order.index(i)]][-6:], 'this_process': here[str(i)][:1500], 'worker': str(res.get(str(i)))[:1500]},
                     finding_key='C04:hash-seed-or-submission-order')
    ctx.coverage.setdefault('input_distribution', {})['pickled_jobs_in_fresh_interpreters'] = {
        'jobs': n, 'interpreters': len(plans), 'hash_seeds': [p[0] for p in plans], 'modes': [p[2] for p in plans],
        'jobs_raising': sum(1 for v in here.values() if v.startswith('raises'))}
    return found


# ------------------------------------------------------------------------------------------- outside the quantifier (recorded)
# C04 quantifies over sequences of run() calls and queries.  The sequences below go through other public entry points or argument
# types; what they do on this tree is RECORDED in the evidence (and reproduced in findings/repro_cov_c04.py), not judged - set
# PROMOTE_OUTSIDE to turn a difference from a fresh object into a failure with the key given.
PROMOTE_OUTSIDE = True          # reset()/reset_mol() repaired by fix: b002826; a difference is a failure again


def sec_outside(ctx):
    import numpy as np
    from rdkit import Chem
    P = pool()
    obs = {}
    found = False

    def ids(f):
        return m1lib.all_level_ids(f)

    def outcome(fn):
        try:
            return ['returns', fn()]
        except Exception as e:  # noqa
            return ['raises', type(e).__name__]
    o = dict(molgen.DEFAULT_OPTS, level=3)
    m = cids = cid = None
    for name in ['CSCC[C@H](N)C(=O)O', 'CC(C)Cc1ccc(cc1)C(C)C(=O)O', 'OCC(O)CO', 'C[C@H](O)[C@@H](N)C(=O)O', 'CCN(CC)CC']:      # conformers must differ
        if name not in P:
            continue
        m = Chem.Mol(P[name]['mol'])
        cids = [c.GetId() for c in m.GetConformers()]
        if 0 not in cids:
            continue
        cid = [c for c in cids if c != 0][-1]
        a, b = make_fprinter(o, 2 ** 32, False), make_fprinter(o, 2 ** 32, False)
        a.run(0, m)
        b.run(cid, m)
        if ids(a) != ids(b):
            break

    def fresh():
        g = make_fprinter(o, 2 ** 32, False)
        g.run(cid, m)
        return ids(g)
    want = outcome(fresh)

    def after_reset(which):
        def fn():
            f = make_fprinter(o, 2 ** 32, False)
            f.run(cids[0], m)
            getattr(f, which)()
            f.run(cid, m)
            return ids(f)
        return fn
    for which, key in (('reset', 'C04:run-after-reset-same-mol-object'), ('reset_mol', 'C04:run-after-reset-same-mol-object'), ('reset_conf', 'C04:run-after-reset_conf')):
        got = outcome(after_reset(which))
        same = got == want
        obs['run(c0, m); %s(); run(c, m)' % which] = 'same as a fresh Fingerprinter' if same else '%s %s; a fresh Fingerprinter %s' % (got[0], got[1] if got[0] == 'raises' else '(another result)', want[0])
        ctx.count(('outside', which), True)
        if not same and PROMOTE_OUTSIDE:
            found = True
            ctx.fail('run() after %s() on the same molecule object differs from a fresh Fingerprinter' % which, {'sequence': 'run(%d, m); %s(); run(%d, m)' % (cids[0], which, cid), 'reused': got[:2], 'fresh': want[0]}, finding_key=key)

    def np_id():
        f = make_fprinter(o, 2 ** 32, False)
        f.run(np.int64(cid), m)
        return ids(f)
    got = outcome(np_id)
    def conf0():
        g = make_fprinter(o, 2 ** 32, False)
        g.run(0, m)
        return ids(g)
    obs['run(np.int64(%d), m)' % cid] = ('conformer %d' % cid if got == want else 'NOT conformer %d but conformer 0' % cid if got == outcome(conf0) else 'NOT conformer %d: %s' % (cid, got[:1]))
    ctx.coverage.setdefault('input_distribution', {})['outside_quantifier_observations'] = obs
    ctx.notes.append('outside the quantifier of C04 (recorded, not judged; findings/repro_cov_c04.py): %s' % json.dumps(obs, sort_keys=True))
    return found


SECTIONS = [sec_impl_histories, sec_model_histories, sec_interleaved, sec_reused_workers, sec_processes, sec_outside]


# ------------------------------------------------------------------------------------------------------------------- replay
def replay_payload(ctx, c):
    """Re-run a recorded script / schedule on the implementation.  Returns 1 if it still fails."""
    stream = c.get('stream')
    if stream in ('impl-history', 'model-history'):
        R = Runner(c['opts'], c['bits'], c['counts'], workdir=ctx.workdir, grid=bool(c.get('grid')))
        try:
            for i, st in enumerate(c['script']):
                print('step %d: run form=%s mol=%s conf=%s; then %s' % (i + 1, st['form'], st['mol'], st['conf'], [a['a'] for a in st.get('post', [])]))
                R.step(st)
            R.finish()
        except Failure as e:
            print('STILL FAILS: %s\n%s' % (e.what, json.dumps(e.detail, default=str)[:3000]))
            return 1
        print('the recorded history now agrees with fresh objects at every step')
        return 0
    if stream == 'interleaving':
        serial, inter, after, trace, stuck = run_schedule(c['jobs'], trace=c['trace'])
        bad = [j for j in range(len(serial)) if inter[j] is None or inter[j][0] != 'ok' or inter[j][1] != serial[j] or after[j] != serial[j]]
        print('schedule %s: jobs differing from their serial result: %s' % (trace, bad))
        return 1 if bad or stuck else 0
    return None
