"""C05 - a fingerprint database is a faithful, order-preserving container (model M3: Model/Db.v, Properties/C05.v).

Random histories over a pool of <= 6 live databases; after EVERY step EVERY live database is re-observed on both sides
(CSR buffers walked row by row, db[i] for every i, names, name index incl. empty entries, property arrays with dtype kind,
== against every live database) and compared inside Coq with the model's state (`history_ok`).  Reads are additionally
checked directly on the implementation: an operation other than add / set_prop / update_props must leave every database
that was alive before it observably identical.

Three streams (the second and third were added by the coverage audit, work/coverage_C05.md; generators in props/c05_gen.py):
  1. dbgen.History          the shared generator (also used by C07/C16/C17)
  2. c05_gen.History5       wider value pools and the call forms / argument containers / dtypes / matrix formats / file
                            extensions / fingerprint constructors / caller-side aliasing / odd read keys the first lacks
  3. c05_gen.directed_*     every way to derive a database, followed by alternating changes of source and derived database
  4. c05_gen.reads_all_*    every read-only call the model has no operation for, on unsorted / explicit-zero sources and their views
  5. c05_gen.reuse_*        the caller's fingerprint objects added, changed, and added again (same and other database)"""
import core
import dbgen
from props import c05_gen

MUTATORS = ('add', 'add_fault', 'set_prop', 'update_props')


def _snapshot(h):
    if not h.steps:
        return {}, {}
    live = h.steps[-1]['live']
    hs = [x['h'] for x in live]
    return ({lo['h']: (dbgen.db_lit(lo['db']), str(lo['items'])) for lo in live},
            {lo['h']: dict(zip(hs, lo['eq'])) for lo in live})


def check_reads(ctx, h, before, eq_before):
    """reads_do_not_change / reads_keep_eq decided on the implementation directly, for the step just recorded."""
    st = h.steps[-1]
    if st['tag'] in MUTATORS:
        return False
    rf = getattr(h, 'read_fail', None)
    if rf is not None and not getattr(h, 'read_fail_reported', False):
        h.read_fail_reported = True
        ctx.fail('database(s) %s changed by the read-only call %s (outcome: %s) on database %d' % (rf['changed_handles'], rf['member'], rf['outcome'], rf['called_on_handle']),
                 {'ops': dbgen.descs_of(h.steps), 'read': rf, 'last_steps': dbgen.steps_json(h.steps)[-2:]},
                 finding_key='read-mutates:reads:' + rf['member'].split(':')[0])
        return True
    for lo in st['live']:
        if lo['h'] in before and (dbgen.db_lit(lo['db']), str(lo['items'])) != before[lo['h']]:
            ctx.fail('database %d changed by the read-only operation %s' % (lo['h'], st['tag']),
                     {'ops': dbgen.descs_of(h.steps), 'changed_handle': lo['h'], 'last_steps': dbgen.steps_json(h.steps)[-2:]},
                     finding_key='read-mutates:' + st['tag'])
            return True
        if lo['h'] in eq_before:
            now = dict(zip([x['h'] for x in st['live']], lo['eq']))
            if any(g in now and now[g] != v for g, v in eq_before[lo['h']].items()):
                ctx.fail('== between two databases flipped after the read-only operation %s' % st['tag'],
                         {'ops': dbgen.descs_of(h.steps), 'handle': lo['h'], 'last_steps': dbgen.steps_json(h.steps)[-2:]},
                         finding_key='read-flips-eq:' + st['tag'])
                return True
    return False


def check_all_steps(ctx, h):
    """The same direct check over a history that was executed in one go (directed histories)."""
    bad = False
    full = h.steps
    for i in range(1, len(full)):
        if bad:
            break
        h.steps = full[:i]
        before, eq_before = _snapshot(h)
        h.steps = full[:i + 1]
        bad = check_reads(ctx, h, before, eq_before)
    h.steps = full
    return bad


def account(ctx, dist, h, stream):
    dist['histories'] += 1
    dist['by_stream'][stream] = dist['by_stream'].get(stream, 0) + 1
    dist['steps'] += len(h.steps)
    dist['bits'][str(h.bits)] = dist['bits'].get(str(h.bits), 0) + 1
    dist['columns'][len(h.schema)] = dist['columns'].get(len(h.schema), 0) + 1
    for k, v in h.opcount.items():
        dist['ops'][k] = dist['ops'].get(k, 0) + v
    for k, v in getattr(h, 'v5', {}).items():
        dist['new_input_classes'][k] = dist['new_input_classes'].get(k, 0) + v
    for st in h.steps:
        dist['results'][st['res'][0]] += 1
        dist['max_live'] = max(dist['max_live'], len(st['live']))
        ctx.count((st['lit'][:300], len(st['live']), str(st['op'].get('v5', ''))[:200]),
                  st['res'][0] == 'ok' or st['tag'] in ('subset', 'getitem_str', 'getitem_int'))
    last = h.steps[-1]['live']
    for lo in last:
        d = lo['db']
        dist['kinds_of_live_dbs'][d['kind']] = dist['kinds_of_live_dbs'].get(d['kind'], 0) + 1
        if any([j for j, _ in r] != sorted(j for j, _ in r) or any(v == 0 for _, v in r) for r in d['rows']):
            dist['unsorted_or_explicit_zero_rows_seen'] += 1
        if any(v < 0 for r in d['rows'] for _, v in r):
            dist['negative_values_seen'] += 1
        if d['bits'] is not None and not d['rows']:
            dist['zero_row_matrices_seen'] += 1
        if any(n is None for n in d['names']):
            dist['none_names_seen'] += 1
        if len(set(d['names'])) < len(d['names']):
            dist['duplicate_names_seen'] += 1
        dist['max_rows'] = max(dist['max_rows'], len(d['rows']))
    objs = [id(h.pool[g]) for g in h.live]
    if len(set(objs)) < len(objs):
        dist['aliased_handles_seen'] += 1
    return last


def run(ctx):
    ok, res = core.proof_step(ctx)
    dbgen.set_workdir(ctx.workdir)
    rng = ctx.rng
    found_input = False
    hists = {}
    dist = {'histories': 0, 'by_stream': {}, 'steps': 0, 'ops': {}, 'bits': {}, 'kinds_of_live_dbs': {}, 'results': {'ok': 0, 'err': 0},
            'columns': {}, 'max_live': 0, 'max_rows': 0, 'unsorted_or_explicit_zero_rows_seen': 0, 'negative_values_seen': 0, 'zero_row_matrices_seen': 0,
            'none_names_seen': 0, 'duplicate_names_seen': 0, 'aliased_handles_seen': 0, 'new_input_classes': {}}

    def drive(h, key, stream, nsteps):
        nonlocal found_input
        h.warmup()
        for _ in range(nsteps):
            before, eq_before = _snapshot(h)
            h.rand_step()
            if check_reads(ctx, h, before, eq_before):
                found_input = True
                break
        hists[key] = h
        return account(ctx, dist, h, stream)

    # ---- stream 1: the shared generator.  thorough: 1500 histories, 15% of them long (measured: 3000 with 30% long ones needs > 40 min on a loaded 16-core machine)
    nh = ctx.n(200, 1500)
    for i in range(nh):
        h = dbgen.History(rng)
        last = drive(h, 'c05-%d' % i, 'shared', rng.randint(6, 15) if ctx.quick or rng.random() < 0.85 else rng.randint(16, 60))
        if i < 3:
            ctx.sample({'history': 'c05-%d' % i, 'ops': [s['op'].get('op') for s in h.steps], 'results': [s['res'][1] if s['res'][0] == 'err' else 'ok' for s in h.steps],
                        'live_at_end': [lo['h'] for lo in last]})
    # ---- stream 2: wider pools and call forms
    n5 = ctx.n(160, 1200)
    for i in range(n5):
        h = c05_gen.History5(rng)
        last = drive(h, 'c05x-%d' % i, 'extended', rng.randint(6, 15) if ctx.quick or rng.random() < 0.85 else rng.randint(16, 50))
        if i < 2:
            ctx.sample({'history': 'c05x-%d' % i, 'ops': [(s['op'].get('op'), s['op'].get('v5')) for s in h.steps],
                        'results': [s['res'][1] if s['res'][0] == 'err' else 'ok' for s in h.steps], 'live_at_end': [lo['h'] for lo in last]})
    # ---- stream 3: every derivation, then source and derived database changed alternately
    nd = 0
    for rep in range(ctx.n(1, 4)):
        for key, h in c05_gen.directed_histories(rng):
            found_input = check_all_steps(ctx, h) or found_input
            hists['c05d-%d-%s' % (rep, key)] = h
            account(ctx, dist, h, 'directed')
            nd += 1
            if nd == 1:
                ctx.sample({'history': 'c05d-%d-%s' % (rep, key), 'ops': [s['op'].get('op') for s in h.steps]})
    # ---- stream 4: every read-only call without a model operation, on unsorted / explicit-zero sources and on databases sharing buffers with them
    for rep in range(ctx.n(1, 4)):
        for kind in dbgen.KINDS:
            for bits in (16, 1024):
                h = c05_gen.reads_all_history(rng, kind, bits)
                found_input = check_all_steps(ctx, h) or found_input
                hists['c05r-%d-%s-%d' % (rep, kind, bits)] = h
                account(ctx, dist, h, 'reads_all')
    # ---- stream 5: the caller's fingerprint objects added, changed, added again
    for rep in range(ctx.n(2, 8)):
        for kind in dbgen.KINDS:
            for bits in (16, 2 ** 32):
                h = c05_gen.reuse_history(rng, kind, bits)
                hists['c05u-%d-%s-%d' % (rep, kind, bits)] = h
                account(ctx, dist, h, 'reuse')
    nbad = c05_gen.check_histories5(ctx, hists, 'C05 histories', finding_key_of=lambda h, st: 'model-vs-impl:%s' % (st['tag'] if st else 'history'))
    found_input = found_input or nbad > 0
    tot = float(sum(dist['ops'].values()) or 1)
    dist['op_frequencies'] = {k: round(v / tot, 3) for k, v in sorted(dist['ops'].items())}
    print('C05 operation frequencies: ' + ', '.join('%s %.1f%%' % (k, 100 * v) for k, v in dist['op_frequencies'].items()))
    ctx.coverage['rule'] = ('one evaluation = one step of a history (operation + re-observation of every live database on both sides); a step is '
                            'non-trivial when the operation succeeded or is a lookup/subset (absent names raise); distinct by (operation literal, '
                            'number of live databases, call form). %d histories of the shared generator and %d of the extended one, 6-15 (thorough: up to 60) '
                            'operations after a 1-2 database warm-up; %d directed derive-then-alternate histories of 18 operations; %d histories running every member of the read bundle.' % (nh, n5, nd, dist['by_stream'].get('reads_all', 0)))
    ctx.coverage['input_distribution'] = dist
    ctx.assumptions += ['SciPy/NumPy containers (vstack, csr_matrix, np.append, fancy indexing, sum_duplicates, pickle) behave as modelled; exercised by the correspondence only',
                        'model domain: CSR rows given to from_array have no duplicate column (unsorted columns and explicit zeros are covered); counts < 2^16; '
                        'names are None or non-empty strings; property columns keep one dtype kind (an empty column is declared with its dtype); every count handed in is in [0, 2^16) - sums formed by fold may exceed it and wrap, as the model does; concat of only-empty databases (vstack of None blocks) excluded; '
                        'negative float values never meet a uint16 cast (numpy wraps, the model truncates); get_density and similarity of a matrix with zero rows excluded (numpy 0/0)',
                        'reload = savez+load of a .fpz file (also: name given without extension) or the deprecated save+load of a .fps / .fps.gz / .fps.bz2 file in the run work directory; numpy archive / pickle / gzip / bz2 are modelled as lossless (C08 owns the file format)',
                        'similarity calls are executed for their effect on the databases (none); their values belong to C06. Product-based measures '
                        'and unsorted CSR input only for bits <= 4096 (scipy allocates O(bits) work arrays: 32-100 GiB at 2^32)',
                        'buffer sharing of derived databases as measured with np.shares_memory on this tree (header of Model/Db.v); the names list, the '
                        'index dict and the props dict are per object (never shared between distinct objects)',
                        'the `reads` bundle (calls without a model operation: odd keys, str/repr, savetxt, changes to returned fingerprints, derived databases changed and dropped, ...) '
                        'is recorded as `OpLen`: the model states that nothing changes; outcomes of those calls (exception classes) are not compared']
    if not ok:
        core.report_broken_proof(ctx, res, found_input)


def replay(ctx, path):
    import json
    d = json.load(open(path))
    case = d.get('case', {})
    ops = case.get('ops') or [s['op'] for s in case.get('minimal_history', [])]
    print(json.dumps({k: v for k, v in d.items() if k != 'case'}, indent=1))
    if 'read' in case:
        print('read-only member that changed a database:', json.dumps(case['read']))
    if not ops:
        print(json.dumps(case, indent=1)[:4000])
        return 0
    dbgen.set_workdir(ctx.workdir)
    h = c05_gen.replay_descs5(ops)
    for st in h.steps:
        print(st['op'].get('op'), {k: v for k, v in st['op'].items() if k not in ('op', 'fps', 'rows', '_ok', 'members')}, '->', st['res'][1] if st['res'][0] == 'err' else 'ok')
    if h.read_fail:
        print('implementation: read-only call %s changed database(s) %s' % (h.read_fail['member'], h.read_fail['changed_handles']))
    idx, raw = dbgen.first_divergence(ctx, h.steps)
    print('model: first diverging step =', idx)
    bad = idx is None or idx >= 0 or bool(h.read_fail)
    import shutil
    shutil.rmtree(ctx.workdir, ignore_errors=True)
    if bad:
        print('VIOLATION property=%s replay=%s' % (ctx.pid, path))
    return 1 if bad else 0
