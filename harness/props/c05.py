"""C05 - a fingerprint database is a faithful, order-preserving container (model M3: Model/Db.v, Properties/C05.v).

Random histories over a pool of <= 6 live databases; after EVERY step EVERY live database is re-observed on both sides
(CSR buffers walked row by row, db[i] for every i, names, name index incl. empty entries, property arrays with dtype kind,
== against every live database) and compared inside Coq with the model's state (`history_ok`).  Reads are additionally
checked directly on the implementation: an operation other than add / set_prop / update_props must leave every database
that was alive before it observably identical."""
import core
import dbgen

MUTATORS = ('add', 'add_fault', 'set_prop', 'update_props')


def run(ctx):
    ok, res = core.proof_step(ctx)
    dbgen.set_workdir(ctx.workdir)
    rng = ctx.rng
    found_input = False
    hists = {}
    dist = {'histories': 0, 'steps': 0, 'ops': {}, 'bits': {}, 'kinds_of_live_dbs': {}, 'results': {'ok': 0, 'err': 0},
            'columns': {}, 'max_live': 0, 'unsorted_or_explicit_zero_rows_seen': 0, 'none_names_seen': 0, 'duplicate_names_seen': 0,
            'aliased_handles_seen': 0}
    # thorough: 1500 histories, 15% of them long (measured: 3000 with 30% long ones needs > 40 min on a loaded 16-core machine)
    nh = ctx.n(200, 1500)
    for i in range(nh):
        h = dbgen.History(rng)
        h.warmup()
        nsteps = rng.randint(6, 15) if ctx.quick or rng.random() < 0.85 else rng.randint(16, 60)
        for _ in range(nsteps):
            before = {lo['h']: (dbgen.db_lit(lo['db']), str(lo['items'])) for lo in h.steps[-1]['live']} if h.steps else {}
            eq_before = {lo['h']: dict(zip([x['h'] for x in h.steps[-1]['live']], lo['eq'])) for lo in h.steps[-1]['live']} if h.steps else {}
            h.rand_step()
            st = h.steps[-1]
            if st['tag'] not in MUTATORS:
                # reads_do_not_change, decided on the implementation directly
                for lo in st['live']:
                    if lo['h'] in before and (dbgen.db_lit(lo['db']), str(lo['items'])) != before[lo['h']]:
                        found_input = True
                        ctx.fail('database %d changed by the read-only operation %s' % (lo['h'], st['tag']),
                                 {'ops': dbgen.descs_of(h.steps), 'changed_handle': lo['h'], 'last_steps': dbgen.steps_json(h.steps)[-2:]},
                                 finding_key='read-mutates:' + st['tag'])
                        break
                    if lo['h'] in eq_before:
                        now = dict(zip([x['h'] for x in st['live']], lo['eq']))
                        if any(g in now and now[g] != v for g, v in eq_before[lo['h']].items()):
                            found_input = True
                            ctx.fail('== between two databases flipped after the read-only operation %s' % st['tag'],
                                     {'ops': dbgen.descs_of(h.steps), 'handle': lo['h'], 'last_steps': dbgen.steps_json(h.steps)[-2:]},
                                     finding_key='read-flips-eq:' + st['tag'])
                            break
        hists['c05-%d' % i] = h
        dist['histories'] += 1
        dist['steps'] += len(h.steps)
        dist['bits'][str(h.bits)] = dist['bits'].get(str(h.bits), 0) + 1
        dist['columns'][len(h.schema)] = dist['columns'].get(len(h.schema), 0) + 1
        for k, v in h.opcount.items():
            dist['ops'][k] = dist['ops'].get(k, 0) + v
        for st in h.steps:
            dist['results'][st['res'][0]] += 1
            dist['max_live'] = max(dist['max_live'], len(st['live']))
            ctx.count((st['lit'][:300], len(st['live'])), st['res'][0] == 'ok' or st['tag'] in ('subset', 'getitem_str', 'getitem_int'))
        last = h.steps[-1]['live']
        for lo in last:
            d = lo['db']
            dist['kinds_of_live_dbs'][d['kind']] = dist['kinds_of_live_dbs'].get(d['kind'], 0) + 1
            if any([j for j, _ in r] != sorted(j for j, _ in r) or any(v == 0 for _, v in r) for r in d['rows']):
                dist['unsorted_or_explicit_zero_rows_seen'] += 1
            if any(n is None for n in d['names']):
                dist['none_names_seen'] += 1
            if len(set(d['names'])) < len(d['names']):
                dist['duplicate_names_seen'] += 1
        objs = [id(h.pool[g]) for g in h.live]
        if len(set(objs)) < len(objs):
            dist['aliased_handles_seen'] += 1
        if i < 4:
            ctx.sample({'history': 'c05-%d' % i, 'ops': [s['op'].get('op') for s in h.steps], 'results': [s['res'][1] if s['res'][0] == 'err' else 'ok' for s in h.steps],
                        'live_at_end': [lo['h'] for lo in last]})
    nbad = dbgen.check_histories(ctx, hists, 'C05 histories', finding_key_of=lambda h, st: 'model-vs-impl:%s' % (st['tag'] if st else 'history'))
    found_input = found_input or nbad > 0
    tot = float(sum(dist['ops'].values()) or 1)
    dist['op_frequencies'] = {k: round(v / tot, 3) for k, v in sorted(dist['ops'].items())}
    print('C05 operation frequencies: ' + ', '.join('%s %.1f%%' % (k, 100 * v) for k, v in dist['op_frequencies'].items()))
    ctx.coverage['rule'] = ('one evaluation = one step of a history (operation + re-observation of every live database on both sides); a step is '
                            'non-trivial when the operation succeeded or is a lookup/subset (absent names raise); distinct by (operation literal, '
                            'number of live databases). %d histories of 6-15 (thorough: up to 60) operations after a 1-2 database warm-up.' % nh)
    ctx.coverage['input_distribution'] = dist
    ctx.assumptions += ['SciPy/NumPy containers (vstack, csr_matrix, np.append, fancy indexing, sum_duplicates, pickle) behave as modelled; exercised by the correspondence only',
                        'model domain: CSR rows given to from_array have no duplicate column (unsorted columns and explicit zeros are covered); counts < 2^16; '
                        'names are None or non-empty strings; property columns keep one dtype kind (an empty column is declared with its dtype); every count handed in is in [0, 2^16) - sums formed by fold may exceed it and wrap, as the model does; concat of only-empty databases (vstack of None blocks) excluded',
                        'reload = savez+load of a .fpz file or the deprecated save+load of a .fps.bz2 file in the run work directory; numpy archive / pickle / bz2 are modelled as lossless (C08 owns the file format)',
                        'similarity calls are executed for their effect on the databases (none); their values belong to C06. Product-based measures '
                        'and unsorted CSR input only for bits <= 4096 (scipy allocates O(bits) work arrays: 32-100 GiB at 2^32)',
                        'buffer sharing of derived databases as measured with np.shares_memory on this tree (header of Model/Db.v); the names list, the '
                        'index dict and the props dict are per object (never shared between distinct objects)']
    if not ok:
        core.report_broken_proof(ctx, res, found_input)


def replay(ctx, path):
    import props.c16 as c16
    return c16.replay(ctx, path)
