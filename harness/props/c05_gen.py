"""C05 coverage extension (part module of props/c05.py): input classes and call sequences the shared generator
(harness/dbgen.py) does not draw.  Everything here maps onto the EXISTING operations of the model (Model/Db.v) - the new
streams change HOW the implementation is called (argument containers, dtypes, matrix formats, file extensions, constructors
of the added fingerprints, aliasing by the caller, reads with unusual keys), not what the model is asked.

  History5            dbgen.History with wider value pools (bits incl. 1, non-powers of two, 2^31, 2^40; names with punctuation,
                      non-ASCII, long; negative / wide-exponent float values; numpy-scalar property values; larger batches) and
                      additional operations:
        reload_ext        every file extension of save/savez/load (.fpz, name without extension, .fps, .fps.gz, .fps.bz2)
        from_array5       fp_type=None (type inferred from the dtype), source dtypes bool/uint8/uint16/int32/int64/float32/float64,
                          formats csr/dense/coo/csc/lil, zero-row matrices, names as list/tuple/ndarray/iterator, props by
                          keyword/positional/omitted/arrays; the caller changes its own names list and props dict afterwards
        subset5           names as tuple/iterator/ndarray/dict keys, `name=` keyword; caller's list changed afterwards
        concat5           tuple / generator / deprecated append() / `x += y`
        add5              tuple batches, the same fingerprint object twice in a batch, fingerprints that were already added
                          elsewhere, fingerprints built by other constructors (from_vector dense/sparse, from_fingerprint,
                          pickle, name through the setter or through props); the caller changes the fingerprints after the call
        astype_user       from_array(db.array, db.fp_names, ..., props=db.props) written by the user (= as_type(copy=True))
        legacy_state      __setstate__ of a pickle without the "props" entry
        new5 / fold5      positional arguments, numpy integers for level / bits, database names
        metric1           one-argument form of the similarity functions
        reads             a bundle of read-only calls the model has no operation for (recorded as `OpLen`): str/repr/!=,
                          get_prop (absent too), db[key] with numpy ints / None / float / slice / bool / bytes / numpy str keys,
                          get_density with non-int indices, changing the fingerprints returned by db[i] / db[name] / iteration,
                          abandoned and nested iteration, savetxt / savez / save / pickle.dumps without loading, fingerprint-vs-
                          database similarity, reads of db.array, derived databases that are changed and dropped.
                          After EVERY member of the bundle every live database is re-read; the first member that changes one is
                          remembered in `read_fail`.
  directed_histories  derive a database in every way there is, then change source and derived database alternately.
  check_histories5    dbgen.check_histories with a replay function that understands the new operation descriptions."""
import copy
import os
import pickle
import random
import warnings
from fractions import Fraction
import numpy as np
import dbgen
import fpgen
from core import zlit, optlit, strlit, listlit, blit
from dbgen import natlit, okey_lit, row_lit, col_lit, pval_json, pval_lit, KINDS, KIND2TY

BITS5 = [1, 2, 4, 10, 12, 32, 100, 4096, 2 ** 20, 2 ** 31, 2 ** 32, 2 ** 40, 16, 1024]
NAMES5 = dbgen.NAMES + ['A', 'mün-çødé', "it's", 'a/b', 'a,b;c', ' a ', '0', '1e3', 'nan', 'True', 'x' * 60, 'q"uote',
                        'mol-1_2', '[N+](=O)[O-]', 'a\\b', '%s{0}']
STRS5 = dbgen.STRS + ['a longer string', 'ü', 'a,b', '0']
COLS5 = ['p0', '_u', 'data', 'fp_names', 'x y', 'level', 'indices', 'name']
DT5 = {'bool': ('KBit', np.bool_), 'uint8': ('KCount', np.uint8), 'uint16': ('KCount', np.uint16), 'int32': ('KCount', np.int32),
       'int64': ('KCount', np.int64), 'float32': ('KFloat', np.float32), 'float64': ('KFloat', np.float64)}
EXTS = ['.fpz', 'noext-savez', '.fps', '.fps.gz', '.fps.bz2', 'noext-save']
METRICS = ['MTanimoto', 'MDice', 'MCosine', 'MPearson', 'MSoergel']


def _metric_fn(m):
    _, M = dbgen.mods()
    return {'MTanimoto': M.tanimoto, 'MDice': M.dice, 'MCosine': M.cosine, 'MPearson': M.pearson, 'MSoergel': M.soergel}[m]


# --------------------------------------------------------------------------------------------- values
def rand_float(rng, neg=False, wide=True):
    """wide: +-k * 2^e (sums of a few of them are exact in binary64; the model adds rationals).  Not wide: what may meet a uint16
    cast (numpy wraps / refuses values outside [0, 2^16), the model truncates: outside its domain)."""
    if not wide:
        return Fraction(rng.choice([1, 2, 3, 5, 9, 250]), rng.choice([1, 2, 4, 8]))
    v = Fraction(rng.choice([1, 3, 5, 7, 250])) * Fraction(2) ** rng.choice([-10, -3, -1, 0, 0, 1, 4, 20])
    return -v if neg and rng.random() < 0.4 else v


def rand_props5(rng, schema, np_scalars=False):
    out = []
    for k, t in schema:
        if t == 'int':
            v = rng.choice([0, 1, 2, 7, -3, 10 ** 6, 2 ** 40, -2 ** 33])
            v = np.int64(v) if np_scalars else v
        elif t == 'float':
            v = float(rand_float(rng, neg=True))
            v = np.float64(v) if np_scalars else v
        elif t == 'bool':
            v = rng.random() < 0.5
            v = np.bool_(v) if np_scalars else v
        else:
            v = rng.choice(STRS5)
            v = np.str_(v) if np_scalars else v
        out.append((k, v))
    return out


def spec_of(f):
    """The description of an implementation fingerprint as add_fingerprints sees it NOW."""
    return {'fp': f, 'obs': fpgen.obs(f), 'props': [(str(k), v.item() if hasattr(v, 'item') else v) for k, v in f.props.items() if k != 'Name']}


def make_fp5(rng, kind, bits, level, name, props, neg=False, style=None, maxn=6):
    """A fingerprint of `kind` built through one of the constructors; returns spec_of(it)."""
    from scipy.sparse import csr_matrix
    C = fpgen.classes()[kind]
    idx = fpgen.rand_indices(rng, bits, maxn)
    if kind == 'KBit':
        cnt = {int(i): 1 for i in idx}
    elif kind == 'KCount':
        cnt = {int(i): rng.choice([1, 1, 2, 3, 7, 200, 255, 256, 32768, 65535]) for i in idx}
    else:
        cnt = {int(i): float(rand_float(rng, neg=neg, wide=neg)) for i in idx}
    style = style or rng.choice(['ctor', 'ctor', 'vector-sparse', 'vector-dense', 'from_fingerprint', 'pickled', 'name-setter', 'props-name', 'repeats'])
    kw = {'bits': bits, 'level': level, 'props': dict(props)}
    if style == 'props-name' and name:
        kw['props']['Name'] = name
    elif style != 'name-setter' and name:
        kw['name'] = name
    dt = dbgen.DTYPE[kind]
    if style == 'vector-dense' and bits <= 4096:
        vec = np.zeros(bits, dtype=dt)
        for i, v in cnt.items():
            vec[i] = v
        kw.pop('bits')
        f = C.from_vector(vec, **kw)
    elif style == 'vector-sparse':
        vec = csr_matrix((np.array([cnt[i] for i in idx], dtype=dt), (np.zeros(len(idx), dtype=np.int64), np.array(idx, dtype=np.int64))), shape=(1, bits))
        kw.pop('bits')
        f = C.from_vector(vec, **kw)
    elif style == 'repeats' and kind == 'KCount':
        rep = [i for i in idx for _ in range(rng.choice([1, 2, 3]))]
        rng.shuffle(rep)
        f = C.from_indices(np.array(rep, dtype=np.int64), **kw)
    elif kind == 'KBit':
        arr = list(idx) + ([idx[0]] if idx and style == 'repeats' else [])            # a repeated index is one bit
        f = C.from_indices(np.array(arr, dtype=np.int64), **kw)
    else:
        f = C.from_counts(dict(cnt), **kw)
    if style == 'from_fingerprint':
        f = C.from_fingerprint(f)
    elif style == 'pickled':
        f = pickle.loads(pickle.dumps(f))
    elif style == 'name-setter' and name:
        f.name = name
    s = spec_of(f)
    s['style'] = style
    return s


def mutate_fp(f, keep_level=False):
    """What a caller may do with a fingerprint object it owns (one it handed to add_fingerprints or got from db[i])."""
    from e3fp.fingerprint.fprint import CountFingerprint
    f.name = 'MUTATED'
    for k in list(f.props):
        if k != 'Name':
            v = f.props[k]                                           # same dtype kind: a database column keeps one kind (model domain)
            f.props[k] = 'changed' if isinstance(v, str) else (not v) if isinstance(v, (bool, np.bool_)) else v + 1 if isinstance(v, (int, np.integer)) else v + 0.5
    f.set_prop('zz_new', 1)
    if isinstance(f, CountFingerprint):
        keep = list(f.indices)[:-1]
        cnt = f.counts
        f.indices = np.array(keep, dtype=np.int64)
        f.counts = {k: (cnt[k] * 2 + 1 if isinstance(cnt[k], float) else cnt[k] % 1000 + 1) for k in keep}      # counts stay below 2^16 (model domain)
    else:
        f.indices = np.array(list(f.indices)[:-1], dtype=np.int64)
    if len(f.indices) % 2 and not keep_level:
        f.level = 99                                                 # else: still acceptable to the same database later


def has_negative(d):
    """Float data that a cast to uint16 (directly or after the row-wise sums of a fold) would not simply truncate: a negative value,
    or a row whose values add up to 2^16 or more."""
    a = d.array
    if a is None or a.data.dtype.kind != 'f' or a.nnz == 0:
        return False
    return bool((a.data < 0).any()) or float(np.add.reduceat(np.abs(a.data), a.indptr[:-1][np.diff(a.indptr) > 0]).max()) >= 65536


def fp_json(s):
    return {'fp': fpgen.obs_json(s['obs']), 'props': [[k, pval_json(v)] for k, v in s['props']], 'style': s.get('style')}


# --------------------------------------------------------------------------------------------- the history
def fold_sums_in_model_domain(d, nb):
    """The model adds colliding values in the KIND's dtype (bool / uint16 with wrap at 2^16 / float64).  from_array without an
    fp_type keeps the caller's integer dtype (uint8, int32, int64 ...), and scipy then adds collisions in THAT dtype: a sum that
    wraps in one of the two and not in the other is outside the model's documented domain (header of Model/Db.v) - such folds
    are replaced by reads.  (Counts stored in another integer width are an observation, not a C05 matter: what is stored and
    read back is the same either way.)"""
    try:
        arr = d.array
        if arr is None or nb is None or int(nb) <= 0:
            return True
        canon = {'KBit': 'bool', 'KCount': 'uint16', 'KFloat': 'float64'}[dbgen.kind_of_type(d.fp_type)]
        if str(arr.dtype) == canon or arr.dtype.kind not in 'iuf':
            return True
        coo = arr.tocoo()
        if arr.dtype.kind == 'f':
            # float32 / float16 storage: collision sums are rounded in that width; only collision-free folds are in the domain
            seen = set()
            for r, c in zip(coo.row.tolist(), coo.col.tolist()):
                if (r, c % int(nb)) in seen:
                    return False
                seen.add((r, c % int(nb)))
            return True
        lim = min(2 ** 16, int(np.iinfo(arr.dtype).max) + 1)
        sums = {}
        for r, c, v in zip(coo.row.tolist(), coo.col.tolist(), coo.data.tolist()):
            sums[(r, c % int(nb))] = sums.get((r, c % int(nb)), 0) + int(v)
        return all(0 <= v < lim for v in sums.values())
    except Exception:  # noqa
        return True


class History5(dbgen.History):
    def __init__(self, rng, schema=None, bits=None, level='rand', workdir=None):
        bits = bits or rng.choice(BITS5)
        if schema is None:
            schema = [(c, rng.choice(['int', 'float', 'bool', 'str'])) for c in rng.sample(COLS5, rng.choice([0, 1, 2, 3]))]
        dbgen.History.__init__(self, rng, schema=schema, bits=bits, level=level, workdir=workdir)
        self.stash = []           # fingerprint objects that were handed to some database earlier
        self.serials = {}         # id(fingerprint object) -> (serial, object): object identity across steps, kept for replays
        self.by_serial = {}       # replay side: serial -> object
        self.read_fail = None     # first member of a `reads` bundle after which a live database was different
        self.v5 = {}              # counters of the new input classes

    def note(self, key, n=1):
        self.v5[key] = self.v5.get(key, 0) + n

    # ---- wider pools
    def rand_name(self):
        return self.rng.choice(NAMES5 + [None, None, None, 'a', 'a', 'b'])

    def batch(self, h, n, own=True, schema=None, lossy=False):
        d = self.pool[h]
        dk = dbgen.kind_of_type(d.fp_type)
        bits = d.bits if d.bits is not None else self.bits
        schema = self.schema if schema is None else schema
        if d.fp_num > 0 or len(d.props) > 0:
            schema = [(k, KIND2TY.get(np.asarray(v).dtype.kind, 'int')) for k, v in d.props.items()]
        out = []
        for _ in range(n):
            k = dk if own else self.castable_kind(dk, lossy)
            props = rand_props5(self.rng, schema, np_scalars=self.rng.random() < 0.3)
            if self.rng.random() < 0.15 and all(kk != 'extra' for kk, _ in props):
                props = props + [('extra', 1)]
            if self.rng.random() < 0.2:
                self.rng.shuffle(props)                              # the fingerprint's dict order is not the database's
            s = make_fp5(self.rng, k, bits, d.level, self.rand_name(), props, neg=(k == 'KFloat' and dk in ('KFloat', 'KBit')))
            self.note('fp_style:' + s['style'])
            if any(v < 0 or v >= 65536 for _, v in s['obs']['cnt']):
                self.note('negative_or_wide_float_fingerprints')
            out.append(s)
        return out

    # ---- the model's casts are numpy's only for values >= 0: keep negative floats away from uint16
    def op_as_type(self, h, kind, cp):
        if kind == 'KCount' and has_negative(self.pool[h]):
            kind = 'KBit'
        return dbgen.History.op_as_type(self, h, kind, cp)

    def op_fold(self, h, nb, kind=None):
        if kind == 'KCount' and has_negative(self.pool[h]):
            kind = 'KFloat'
        if not fold_sums_in_model_domain(self.pool[h], nb):
            return self.op_reads(h, self.rng.randrange(10 ** 9))
        return dbgen.History.op_fold(self, h, nb, kind)

    def op_density(self, h, idx):
        d = self.pool[h]
        if d.array is not None and d.fp_num == 0:
            return self.op_len(h)                                    # 0/0 in numpy arithmetic: nan and a warning, no exception
        return dbgen.History.op_density(self, h, idx)

    def op_metric(self, m, h1, h2):
        if any(self.pool[g].array is not None and self.pool[g].fp_num == 0 for g in (h1, h2)):
            return self.op_len(h1)                                   # similarity of a matrix without rows: not a subject of the model
        return dbgen.History.op_metric(self, m, h1, h2)

    def op_add(self, h, fps, tag='add'):
        r = dbgen.History.op_add(self, h, fps, tag)
        self.stash = (self.stash + [f['fp'] for f in fps])[-12:]
        return r

    # ---- new operations
    def op_reload_ext(self, h, ext):
        D, _ = dbgen.mods()
        d = self.pool[h]
        if self.workdir is None:
            self.workdir = dbgen.files_dir()
        self.nfiles += 1
        base = os.path.join(self.workdir, 'g%d_%d_%d' % (id(self) % 100000, h, self.nfiles))
        fpz = ext in ('.fpz', 'noext-savez')
        given = base + (ext if ext.startswith('.') else '')
        written = base + '.fpz' if ext == 'noext-savez' else base + '.fps.bz2' if ext == 'noext-save' else given

        def go():
            try:
                with warnings.catch_warnings():
                    warnings.simplefilter('ignore')
                    (d.savez if fpz else d.save)(given)
                    return D.FingerprintDatabase.load(written)
            finally:
                for fn in (given, written):
                    if os.path.exists(fn):
                        os.remove(fn)
        self.note('reload:' + ext)
        return self.run_new('reload', {'op': 'reload', 'h': h, 'fpz': fpz, 'v5': {'ext': ext}}, '(OpReload %s %s)' % (natlit(h), blit(fpz)), go)

    def op_from_array5(self, kind, level, bits, fmt, dtn, mode, rows, names, cols, names_as='list', props_mode='kw', dbname=None, entries=None, coltys=None):
        """rows: per row the (column, Fraction) pairs in the order the format will STORE them (csr: as given; coo/csc/lil: ascending
        columns; dense: every column).  entries: for coo the (row, column, value) triplets in the order handed to scipy."""
        D, _ = dbgen.mods()
        from scipy.sparse import csr_matrix, coo_matrix, csc_matrix, lil_matrix
        src, sdt = DT5[dtn]
        T = fpgen.classes()[kind] if mode == 'given' else None
        conv = float if src == 'KFloat' else int
        n = len(rows)
        colty = dict(coltys) if coltys is not None else {k: dict(self.schema).get(k) or dbgen.ty_of(v) for k, v in cols}

        def matrix():
            if fmt == 'dense':
                arr = np.zeros((n, bits), dtype=sdt)
                for i, r in enumerate(rows):
                    for j, v in r:
                        arr[i, j] = conv(v)
                return arr
            if fmt == 'csr':
                data = np.array([conv(v) for r in rows for _, v in r], dtype=sdt)
                ind = np.array([j for r in rows for j, _ in r], dtype=np.int64)
                ptr = np.cumsum([0] + [len(r) for r in rows]).astype(np.int64)
                return csr_matrix((data, ind, ptr), shape=(n, bits))
            if fmt == 'lil':
                m = lil_matrix((n, bits), dtype=sdt)
                for i, r in enumerate(rows):
                    for j, v in r:
                        m[i, j] = conv(v)
                return m
            trip = entries if entries is not None else [(i, j, v) for i, r in enumerate(rows) for j, v in r]
            data = np.array([conv(v) for _, _, v in trip], dtype=sdt)
            ij = (np.array([i for i, _, _ in trip], dtype=np.int64), np.array([j for _, j, _ in trip], dtype=np.int64))
            return (coo_matrix if fmt == 'coo' else csc_matrix)((data, ij), shape=(n, bits))

        def build():
            arr = matrix()
            nm = list(names)
            given_names = {'list': nm, 'tuple': tuple(nm), 'ndarray': np.array(nm) if nm else np.array([], dtype=object), 'iter': iter(nm),
                           'dictkeys': dict.fromkeys(nm).keys() if len(set(nm)) == len(nm) else nm}[names_as]
            pd = {}
            lists = []
            for k, v in cols:
                v = list(v)
                if not v:
                    pd[k] = dbgen.typed(v, colty.get(k, 'int'))
                elif props_mode == 'arrays':
                    pd[k] = np.array(v)
                elif props_mode == 'tuples':
                    pd[k] = tuple(v)
                else:
                    pd[k] = v
                    lists.append(v)
            if props_mode == 'omit' and not pd:
                db = D.FingerprintDatabase.from_array(arr, given_names, fp_type=T, level=level, name=dbname)
            elif props_mode == 'positional':
                db = D.FingerprintDatabase.from_array(arr, given_names, T, level, dbname, pd)
            else:
                db = D.FingerprintDatabase.from_array(arr, fp_names=given_names, fp_type=T, level=level, name=dbname, props=pd)
            # the caller goes on using what it handed in
            nm.append('LATE')
            pd['late_column'] = [0] * (n + 1)
            for v in lists:
                v.append(v[0])
            return db
        dense = fmt == 'dense'
        lit = '(OpFromArray %s %s %s %s %s %s %s)' % (kind, optlit(level), zlit(bits), blit(dense), listlit([row_lit(r) for r in rows]),
                                                      listlit([okey_lit(x) for x in names]), listlit([col_lit(k, v) for k, v in cols]))
        desc = {'op': 'from_array', 'kind': kind, 'level': level, 'bits': bits, 'dense': dense, 'src_dtype': src,
                'rows': [[[j, str(v)] for j, v in r] for r in rows], 'names': list(names), 'props': [[k, [pval_json(x) for x in v]] for k, v in cols],
                'v5': {'fmt': fmt, 'dtype': dtn, 'mode': mode, 'names_as': names_as, 'props_mode': props_mode, 'dbname': dbname,
                       'entries': None if entries is None else [[i, j, str(v)] for i, j, v in entries], 'coltys': colty}}
        for k in ('fmt:' + fmt, 'dtype:' + dtn, 'fp_type:' + mode, 'names_as:' + names_as, 'props:' + props_mode):
            self.note('from_array:' + k)
        if n == 0:
            self.note('from_array:zero_rows')
        return self.run_new('from_array', desc, lit, build)

    def rand_from_array5(self):
        rng = self.rng
        dtn = rng.choice(list(DT5))
        src, _ = DT5[dtn]
        mode = rng.choice(['given', 'given', 'none'])
        kind = src if mode == 'none' else rng.choice(KINDS)
        bits = self.bits if rng.random() < 0.8 else rng.choice(BITS5)
        fmt = rng.choice(['csr', 'csr', 'dense', 'coo', 'csc', 'lil'])
        if fmt == 'dense' and bits > 64:
            fmt = 'csr'
        if fmt in ('csc', 'lil') and bits > 4096:
            fmt = 'coo'
        if fmt == 'coo' and bits > 2 ** 20:
            fmt = 'csr'
        n = rng.choice([0, 1, 2, 3, 4, 4, 7])
        if n == 0 and bits >= 2 ** 31:
            n = 1             # scipy gives a 0 x bits matrix int32 index arrays; its binary operators (`==` of the database) then refuse bits >= 2^31
        neg = src == 'KFloat' and kind in ('KFloat', 'KBit')
        rows, entries = [], []
        for i in range(n):
            idx = fpgen.rand_indices(rng, bits, 5)
            if src == 'KBit':
                vals = [Fraction(1)] * len(idx)
            elif src == 'KCount':
                pool = [1, 2, 3, 9, 200, 255] + ([256, 40000, 65535] if dtn != 'uint8' else [])
                vals = [Fraction(rng.choice(pool)) for _ in idx]
            else:
                vals = [rand_float(rng, neg=neg, wide=neg) for _ in idx]
            r = list(zip(idx, vals))
            if fmt == 'dense':
                m = dict(r)
                r = [(j, m.get(j, Fraction(0))) for j in range(bits)]
            else:
                if fmt != 'lil' and r and rng.random() < 0.3:
                    j = rng.randrange(len(r))
                    r[j] = (r[j][0], Fraction(0))                    # explicit zero
                if fmt == 'csr' and bits <= 4096 and rng.random() < 0.5:
                    rng.shuffle(r)
            rows.append(r)
            entries += [(i, j, v) for j, v in r]
        if fmt == 'coo':
            rng.shuffle(entries)                                     # scipy sorts on conversion
        else:
            entries = None
        names = [self.rand_name() for _ in range(n)]
        if rng.random() < 0.08:
            names = names[:-1] if (names and rng.random() < 0.5) else names + ['a']
        cols = [(k, [rand_props5(rng, [(k, t)])[0][1] for _ in range(n)]) for k, t in self.schema if rng.random() < 0.8]
        level = self.level if rng.random() < 0.85 else rng.choice([-1, 5, None])
        return self.op_from_array5(kind, level, bits, fmt, dtn, mode, rows, names, cols,
                                   names_as=rng.choice(['list', 'tuple', 'ndarray', 'iter', 'dictkeys']),
                                   props_mode=rng.choice(['kw', 'omit', 'positional', 'arrays', 'tuples']),
                                   dbname=rng.choice([None, 'my db']), entries=entries)

    def op_subset5(self, h, names, names_as, dbname=None):
        d = self.pool[h]

        def go():
            nm = list(names)
            given = {'list': nm, 'tuple': tuple(nm), 'iter': iter(nm), 'ndarray': np.array(nm, dtype=object),
                     'dictkeys': dict.fromkeys(nm).keys() if len(set(nm)) == len(nm) else nm}[names_as]
            out = d.get_subset(given, name=dbname) if dbname else d.get_subset(given)
            nm.append('LATE')
            return out
        self.note('subset:names_as:' + names_as)
        lit = '(OpSubset %s %s)' % (natlit(h), listlit([okey_lit(x) for x in names]))
        return self.run_new('subset', {'op': 'subset', 'h': h, 'names': list(names), 'v5': {'names_as': names_as, 'dbname': dbname}}, lit, go)

    def op_concat5(self, hs, how):
        D, _ = dbgen.mods()
        ds = [self.pool[g] for g in hs]

        def go():
            with warnings.catch_warnings():
                warnings.simplefilter('ignore')
                if how == 'tuple':
                    return D.concat(tuple(ds))
                if how == 'iter':
                    return D.concat(x for x in ds)
                if how == 'append':
                    return D.append(ds)
                if how == 'iadd' and len(ds) == 2:
                    x = ds[0]
                    x += ds[1]                                       # no __iadd__: a new database, ds[0] must stay as it is
                    if x is ds[0]:
                        raise RuntimeError('x += y returned x itself')
                    return x
                return D.concat(ds)
        self.note('concat:' + how)
        return self.run_new('concat', {'op': 'concat', 'hs': list(hs), 'plus': how == 'iadd', 'v5': {'how': how}},
                            '(OpConcat %s)' % listlit([natlit(g) for g in hs]), go)

    def serial(self, f):
        if id(f) not in self.serials:
            self.serials[id(f)] = (len(self.serials), f)
            self.by_serial[len(self.serials) - 1] = f
        return self.serials[id(f)][0]

    def op_add5(self, h, fps, how='list', mutate_after=False):
        """mutate_after: False | True | 'keep-level' (the changed objects stay acceptable to the same database)."""
        d = self.pool[h]
        fps = [spec_of(s['fp']) if s.get('refresh') else s for s in fps]
        lit = '(OpAdd %s %s)' % (natlit(h), listlit([dbgen.fpin_lit(f) for f in fps]))
        objs = [f['fp'] for f in fps]
        ids = [self.serial(f) for f in objs]

        def go():
            d.add_fingerprints(tuple(objs) if how == 'tuple' else list(objs))
            if mutate_after:
                for f in {id(x): x for x in objs}.values():
                    mutate_fp(f, keep_level=(mutate_after == 'keep-level'))
        self.note('add:container:' + how)
        if mutate_after:
            self.note('add:fingerprints_changed_by_caller_afterwards')
        if len(set(id(x) for x in objs)) < len(objs):
            self.note('add:same_object_twice_in_batch')
        r = self.run_unit('add', {'op': 'add', 'h': h, 'fps': [fp_json(f) for f in fps], 'v5': {'how': how, 'mutate_after': mutate_after,
                                                                                                'same': [[id(x) for x in objs].index(id(x)) for x in objs], 'ids': ids}}, lit, go)
        self.stash = (self.stash + objs)[-12:]                       # also the changed ones: a later addition must see their NEW value
        return r

    def op_astype_user(self, h, kind, infer=False):
        D, _ = dbgen.mods()
        d = self.pool[h]
        dk = dbgen.kind_of_type(d.fp_type)
        if infer:
            kind = dk                                                # fp_type=None: inferred from the matrix dtype
        if kind == 'KCount' and has_negative(d):
            kind = 'KBit'
        T = None if infer else fpgen.classes()[kind]
        self.note('astype_user:' + ('inferred' if infer else 'given'))
        return self.run_new('as_type', {'op': 'as_type', 'h': h, 'kind': kind, 'copy': True, 'v5': {'user': True, 'infer': infer}},
                            '(OpAsType %s %s true)' % (natlit(h), kind),
                            lambda: D.FingerprintDatabase.from_array(d.array, d.fp_names, fp_type=T, level=d.level, name=d.name, props=d.props))

    def op_legacy_state(self, h):
        """A pickle written before databases had property columns: the state has no "props" entry."""
        D, _ = dbgen.mods()
        d = self.pool[h]

        def go():
            st = pickle.loads(pickle.dumps(d.__getstate__()))
            st.pop('props', None)
            n = D.FingerprintDatabase.__new__(D.FingerprintDatabase)
            n.__setstate__(st)
            return n
        self.note('legacy_setstate')
        return self.run_new('pickle', {'op': 'pickle', 'h': h, 'v5': {'legacy': True}}, '(OpPickle %s)' % natlit(h), go)

    def op_new5(self, kind, level, style):
        D, _ = dbgen.mods()
        T = fpgen.classes()[kind]

        def go():
            if style == 'positional':
                return D.FingerprintDatabase(T, level, 'a name')
            if style == 'np-level' and level is not None:
                return D.FingerprintDatabase(fp_type=T, level=np.int64(level), name=None)
            if style == 'default' and kind == 'KBit' and level == -1:
                return D.FingerprintDatabase()
            return D.FingerprintDatabase(fp_type=T, level=level)
        self.note('new:' + style)
        return self.run_new('new', {'op': 'new', 'kind': kind, 'level': level, 'v5': {'style': style}}, '(OpNew %s %s)' % (kind, optlit(level)), go)

    def op_fold5(self, h, nb, kind, style):
        d = self.pool[h]
        if kind == 'KCount' and has_negative(d):
            kind = 'KFloat'
        if not fold_sums_in_model_domain(d, nb):
            return self.op_reads(h, self.rng.randrange(10 ** 9))
        T = fpgen.classes()[kind] if kind else None
        lit = '(OpFold %s %s %s)' % (natlit(h), zlit(nb), 'None' if kind is None else '(Some %s)' % kind)

        def go():
            if style == 'np-bits':
                return d.fold(np.int64(nb), fp_type=T)
            if style == 'positional':
                return d.fold(nb, T, 'folded db')
            return d.fold(bits=nb, fp_type=T, name=None)
        self.note('fold:' + style)
        return self.run_new('fold', {'op': 'fold', 'h': h, 'bits': nb, 'kind': kind, 'v5': {'style': style}}, lit, go)

    def op_metric1(self, m, h):
        d = self.pool[h]
        f = _metric_fn(m)
        self.note('metric:one_argument')
        return self.run_unit('metric', {'op': 'metric', 'm': m, 'h1': h, 'h2': h, 'v5': {'one': True}}, '(OpMetric %s %s %s)' % (m, natlit(h), natlit(h)),
                             lambda: f(d))

    # ---- reads the model has no operation for
    def read_members(self, h, r):
        """[(name, thunk)]: read-only calls on database h (deterministic in the random source r and the current state)."""
        D, M = dbgen.mods()
        d = self.pool[h]
        n, bits = d.fp_num, d.bits
        small = bits is not None and bits <= 4096
        names = [k for k in dict.keys(d.fp_names_to_indices) if k is not None]
        other = self.pool[r.choice(self.live)]
        wd = self.workdir or dbgen.files_dir()
        fn = os.path.join(wd, 'r%d_%d' % (id(self) % 100000, r.randrange(10 ** 6)))
        C = fpgen.classes()

        def rm(*fs):
            for f in fs:
                if os.path.exists(f):
                    os.remove(f)

        def savetxt(with_names, ext):
            if small and n <= 50:
                try:
                    d.savetxt(fn + ext, with_names=with_names)
                finally:
                    rm(fn + ext)

        def write_only(how):
            try:
                with warnings.catch_warnings():
                    warnings.simplefilter('ignore')
                    if how == 'savez':
                        d.savez(fn + '.fpz')
                    elif how == 'save':
                        d.save(fn + '.fps.gz')
                    else:
                        pickle.dumps(d, protocol=r.choice([2, 4, pickle.HIGHEST_PROTOCOL]))
            finally:
                rm(fn + '.fpz', fn + '.fps.gz')

        def mutate_returned(how):
            if n == 0:
                return
            if how == 'int':
                fs = [d[r.randrange(n)], d[-1]]
            elif how == 'name':
                fs = d[r.choice(names)] if names else []
            else:
                fs = list(d)
            for f in fs:
                mutate_fp(f)

        def iter_odd():
            it = iter(d)
            if n:
                next(it)                                             # abandoned
            for a, b in zip(d, d):                                   # nested
                a.name, b.level = 'x', 7
            list(it)

        def metric_with_fp(m, left):
            if bits is None or (not small and m != 'MSoergel'):
                return
            k = r.choice(KINDS)
            f = make_fp5(r, k, bits, d.level, 'probe', [], style='ctor')['fp']
            _metric_fn(m)(f, d) if left else _metric_fn(m)(d, f)

        def metric_one(m):
            if bits is not None and (small or m == 'MSoergel'):
                _metric_fn(m)(d)

        def array_reads():
            # what a caller may do with the matrix without changing it (scipy's own sum()/max()/has_canonical_format canonicalise an
            # unsorted matrix IN PLACE: those are the caller's writes, not reads)
            a = d.array
            if a is None:
                return
            a.nnz, a.shape, a.dtype, a.copy(), a.astype(float), a.data.sum(), a.indices.max() if a.nnz else None
            if n:
                a.getrow(0), a[0, :], a[n - 1]
            if small:
                a.toarray(), a.todense()

        def derive_change_drop(how):
            if d.array is None or n == 0:
                return
            if how == 'copy':
                x = copy.copy(d)
            elif how == 'as_type_same':
                x = d.as_type(d.fp_type, copy=True)
            elif how == 'as_type_bit':
                x = d.as_type(C['KBit'], copy=True)
            elif how == 'as_type_float':
                x = d.as_type(C['KFloat'], copy=True)
            elif how == 'fold':
                x = d.fold(bits)
            elif how == 'fold_half':
                if bits < 2 or bits % 2:
                    return
                x = d.fold(bits // 2)
            elif how == 'subset':
                x = d.get_subset(list(dict.keys(d.fp_names_to_indices)))
            elif how == 'concat':
                x = D.concat([d, d])
            else:
                x = pickle.loads(pickle.dumps(d))
            x.add_fingerprints([x[0], x[-1]])
            x.set_prop('zz_new', list(range(x.fp_num)))
            for k in list(x.props):
                x.update_props({k: x.props[k][::-1]})
            if names:
                x[names[0]] if names[0] in x.fp_names_to_indices else None
            x.fold(x.bits)

        mem = [
            ('str_repr', lambda: (str(d), repr(d), '%s' % d)),
            ('ne', lambda: (d != other, d != d, other != d)),
            ('attrs', lambda: (d.fp_num, d.bits, len(d), d.level, d.fp_type, d.name, d.array is None)),
            ('get_prop_absent', lambda: d.get_prop('no such column')),
            ('get_prop', lambda: [d.get_prop(k) for k in d.props]),
            ('getitem_np_int', lambda: d[np.int64(0)]),
            ('getitem_np_int32', lambda: d[np.int32(-1)]),
            ('getitem_none', lambda: d[None]),
            ('getitem_float', lambda: d[0.0]),
            ('getitem_slice', lambda: d[0:1]),
            ('getitem_bool', lambda: d[True]),
            ('getitem_bytes', lambda: d[b'a']),
            ('getitem_tuple', lambda: d[(0, 0)]),
            ('getitem_np_str', lambda: d[np.str_(r.choice(names) if names else 'a')]),
            ('getitem_np_str_absent', lambda: d[np.str_('no such name')]),
            ('contains_absent', lambda: ('no such name' in d.fp_names_to_indices, d.fp_names_to_indices.get('no such name'), 'no such name' in d.fp_names)),
            ('density_np_int', lambda: d.get_density(np.int64(0))),
            ('density_bool', lambda: d.get_density(True)),
            ('density_str', lambda: d.get_density('a')),
            ('density_float', lambda: d.get_density(1.0)),
            ('density_kw', lambda: d.get_density(index=0) if n else None),
            ('mutate_returned_int', lambda: mutate_returned('int')),
            ('mutate_returned_name', lambda: mutate_returned('name')),
            ('mutate_iterated', lambda: mutate_returned('iter')),
            ('iter_abandoned_nested', iter_odd),
            ('savetxt_names', lambda: savetxt(True, '.txt')),
            ('savetxt_plain_gz', lambda: savetxt(False, '.txt.gz')),
            ('savez_only', lambda: write_only('savez')),
            ('save_only', lambda: write_only('save')),
            ('pickle_dumps', lambda: write_only('dumps')),
            ('array_reads', array_reads),
        ]
        for m in METRICS:
            mem.append(('metric_one:' + m, lambda m=m: metric_one(m)))
            mem.append(('metric_fp_db:' + m, lambda m=m: metric_with_fp(m, True)))
            mem.append(('metric_db_fp:' + m, lambda m=m: metric_with_fp(m, False)))
        for how in ('copy', 'as_type_same', 'as_type_bit', 'as_type_float', 'fold', 'fold_half', 'subset', 'concat', 'pickle'):
            mem.append(('derive_change_drop:' + how, lambda how=how: derive_change_drop(how)))
        return mem

    def op_reads(self, h, seed, k=10):
        d = self.pool[h]
        r = random.Random(seed)
        mem = self.read_members(h, r)
        chosen = r.sample(mem, min(k, len(mem)))
        log = []

        def state():
            # the stored content and what db[i] returns for every row (a changed answer of db[i] is a changed database too)
            return [(dbgen.db_lit(dbgen.obs_db(self.pool[g])), str(dbgen.attempt(lambda: dbgen.obs_items(self.pool[g])))) for g in self.live]

        def go():
            base = state()
            for name, f in chosen:
                try:
                    with warnings.catch_warnings():
                        warnings.simplefilter('ignore')
                        f()
                    out = 'ok'
                except MemoryError:
                    out = 'MemoryError'
                except Exception as e:  # noqa - the outcome of a read is not the subject; what it leaves behind is
                    out = type(e).__name__
                log.append([name, out])
                self.note('reads:' + name)
                now = state()
                if now != base:
                    if self.read_fail is None:
                        self.read_fail = {'member': name, 'outcome': out, 'called_on_handle': h,
                                          'changed_handles': [g for g, a, b in zip(self.live, base, now) if a != b], 'step': len(self.steps)}
                    base = now
            return len(d)
        return self.run_val('reads', {'op': 'reads', 'h': h, 'seed': seed, 'k': k, 'members': log, 'v5': {}}, '(OpLen %s)' % natlit(h), go,
                            lambda v: '(OZ %s)' % zlit(v))

    # ---- random steps
    W5 = [('reload_ext', 6), ('from_array5', 8), ('subset5', 4), ('concat5', 4), ('add5', 9), ('astype_user', 3), ('legacy', 1), ('reads', 9),
          ('new5', 1), ('fold5', 3), ('metric1', 2), ('big_add', 1)]

    def rand_step(self):
        rng = self.rng
        if not self.live or rng.random() < 0.5:
            return dbgen.History.rand_step(self)
        names, ws = zip(*self.W5)
        what = rng.choices(names, ws)[0]
        h = rng.choice(self.live)
        d = self.pool[h]
        if what == 'reload_ext':
            return self.op_reload_ext(h, rng.choice(EXTS))
        if what == 'from_array5':
            return self.rand_from_array5()
        if what == 'subset5':
            present = list(dict.keys(d.fp_names_to_indices))
            if present and rng.random() < 0.85:
                nm = [rng.choice(present) for _ in range(rng.choice([1, 2, 3, 5]))]
            else:
                nm = [rng.choice(present + ['absent'])] + ['absent']
            return self.op_subset5(h, nm, rng.choice(['tuple', 'iter', 'ndarray', 'dictkeys', 'list']), rng.choice([None, 'sub set']))
        if what == 'concat5':
            how = rng.choice(['tuple', 'iter', 'append', 'iadd'])
            same = [g for g in self.live if self.pool[g].fp_type is d.fp_type and self.pool[g].bits == d.bits and self.pool[g].level == d.level]
            n = 2 if how == 'iadd' else rng.choice([1, 2, 2, 3])
            hs = [h] + [rng.choice(same if rng.random() < 0.85 else self.live) for _ in range(n - 1)]
            if all(self.pool[g].array is None for g in hs):
                return self.op_len(h)
            return self.op_concat5(hs, how)
        if what in ('add5', 'big_add'):
            empties = [g for g in self.live if self.pool[g].fp_num == 0]
            if empties and rng.random() < 0.4:
                h = rng.choice(empties)
                d = self.pool[h]
            dk = dbgen.kind_of_type(d.fp_type)
            if what == 'big_add':
                self.note('add:batch_of_8_to_24')
                return self.op_add5(h, self.batch(h, rng.randint(8, 24), own=rng.random() < 0.6), how=rng.choice(['list', 'tuple']))
            fps = self.batch(h, rng.choice([1, 1, 2, 3, 4]), own=rng.random() < 0.6)
            mode = rng.choice(['plain', 'twice', 'again', 'mutate', 'mutate'])
            if mode == 'twice':
                fps = fps + [rng.choice(fps)] + ([fps[0]] if rng.random() < 0.3 else [])
                rng.shuffle(fps)
            elif mode == 'again':
                # objects some database got before (any level / bits / columns: refusals are part of the model); no negative value into uint16
                old = [f for f in self.stash if not (dk == 'KCount' and any(v < 0 or v >= 65536 for v in f.counts.values()))]
                if old:
                    fps = fps + [{'fp': f, 'refresh': True} for f in rng.sample(old, min(len(old), rng.choice([1, 2])))]
                    rng.shuffle(fps)
                    self.note('add:object_added_before')
            return self.op_add5(h, fps, how=rng.choice(['list', 'tuple']), mutate_after=(mode == 'mutate'))
        if what == 'astype_user':
            return self.op_astype_user(h, rng.choice(KINDS), infer=rng.random() < 0.3)
        if what == 'legacy':
            cands = [g for g in self.live if not self.pool[g].props]
            if not cands:
                return self.op_reads(h, rng.randrange(10 ** 9))
            return self.op_legacy_state(rng.choice(cands))
        if what == 'reads':
            return self.op_reads(h, rng.randrange(10 ** 9))
        if what == 'new5':
            return self.op_new5(rng.choice(KINDS), self.level, rng.choice(['positional', 'np-level', 'default', 'kw']))
        if what == 'fold5':
            b = d.bits
            if b is None:
                return self.op_reads(h, rng.randrange(10 ** 9))
            cands = [b >> s for s in range(0, 41) if (b >> s) >= 1]
            nb = rng.choice(cands[:1] + cands[1:4] * 2 + cands[-3:] + [3, 5, b + 1])
            return self.op_fold5(h, nb, rng.choice([None, None] + list(KINDS)), rng.choice(['np-bits', 'positional', 'kw']))
        if what == 'metric1':
            if d.array is None or d.fp_num == 0:
                return self.op_reads(h, rng.randrange(10 ** 9))
            return self.op_metric1(rng.choice(METRICS if (d.bits or 0) <= 4096 else ['MSoergel']), h)
        raise AssertionError(what)

    def warmup(self):
        rng = self.rng
        for _ in range(rng.choice([1, 2])):
            if rng.random() < 0.35:
                self.rand_from_array5()
            else:
                self.op_new5(rng.choice(KINDS), self.level, rng.choice(['positional', 'np-level', 'kw']))
                h = self.live[-1]
                self.op_add5(h, self.batch(h, rng.choice([1, 2, 3, 4]), own=rng.random() < 0.7), how=rng.choice(['list', 'tuple']))


# --------------------------------------------------------------------------------------------- directed aliasing histories
def derivations(kind):
    out = [('copy',), ('deepcopy',), ('pickle',), ('legacy',), ('subset',), ('concat', 'list', 1), ('concat', 'list', 2), ('concat', 'plus', 2),
           ('concat', 'iadd', 2), ('concat', 'append', 2), ('astype_user', kind, False), ('astype_user', kind, True),
           ('fold', 1, None), ('fold', 2, None), ('fold', 1, [k for k in KINDS if k != kind][0]), ('fold', 4, 'KFloat')]
    out += [('as_type', k, cp) for k in KINDS for cp in (False, True)]
    out += [('reload', e) for e in EXTS]
    return out


def directed_history(rng, kind, der, bits=16):
    """Source S with duplicate and missing names and property columns; X derived from it by `der`; then S and X are changed and
    read alternately (every live database is re-observed after each step by History.record)."""
    schema = [] if der[0] == 'legacy' else [('_u', rng.choice(['int', 'float', 'str'])), ('data', 'bool')][:rng.choice([1, 2])]
    A, B, C = rng.choice(NAME_SETS)
    h = History5(rng, schema=schema, bits=bits, level=rng.choice([-1, 5, None]))
    h.MAX_LIVE = 10

    def fps(hh, names):
        d = h.pool[hh]
        dk = dbgen.kind_of_type(d.fp_type)
        sch = [(k, KIND2TY.get(np.asarray(v).dtype.kind, 'int')) for k, v in d.props.items()] if (d.fp_num or d.props) else schema
        return [make_fp5(rng, rng.choice([dk, dk, 'KBit']), d.bits or bits, d.level, nm, rand_props5(rng, sch), style='ctor') for nm in names]

    h.op_new(kind, h.level)
    S = h.live[-1]
    h.op_add(S, fps(S, [A, None, A, B]))
    n0 = len(h.pool)
    if der[0] == 'copy':
        h.op_copy(S)
    elif der[0] == 'deepcopy':
        h.op_pickle(S, deep=True)
    elif der[0] == 'pickle':
        h.op_pickle(S)
    elif der[0] == 'legacy':
        h.op_legacy_state(S)
    elif der[0] == 'subset':
        h.op_subset(S, [A, None, B])
    elif der[0] == 'concat':
        if der[1] == 'list':
            h.op_concat([S] * der[2])
        elif der[1] == 'plus':
            h.op_concat([S, S], plus=True)
        else:
            h.op_concat5([S, S], der[1])
    elif der[0] == 'astype_user':
        h.op_astype_user(S, der[1], infer=der[2])
    elif der[0] == 'fold':
        h.op_fold(S, bits // der[1], der[2])
    elif der[0] == 'as_type':
        h.op_as_type(S, der[1], der[2])
    elif der[0] == 'reload':
        h.op_reload_ext(S, der[1])
    if len(h.pool) == n0:
        return h                                                     # the derivation was refused (recorded; nothing to alternate)
    X = len(h.pool) - 1
    col = schema[0][0] if schema else 'w'
    ty = dict(schema).get(col, 'int')
    h.op_add(S, fps(S, [A]))
    h.op_getname(X, A)
    h.op_getint(X, -1)
    h.op_add(X, fps(X, [None, C]))
    h.op_getname(S, A)
    h.op_getname(S, C)
    h.op_set_prop(S, col, [rand_props5(rng, [(col, ty)])[0][1] for _ in range(h.pool[S].fp_num)], ty=ty)
    h.op_iter(X)
    h.op_update_props(X, [(col, [rand_props5(rng, [(col, ty)])[0][1] for _ in range(h.pool[X].fp_num)])], tys=[ty])
    h.op_eq(S, X)
    h.op_reads(S, rng.randrange(10 ** 9), k=6)
    if h.pool[S].bits and h.pool[S].bits >= 2:
        h.op_fold(S, h.pool[S].bits // 2)
    h.op_subset(X, [None])
    h.op_add(X, fps(X, [A]))
    h.op_add(S, fps(S, [None]))
    h.op_eq(X, S)
    return h


NAME_SETS = [('a', 'b', 'c'), (' a ', 'b,c', 'a'), ('x' * 60, 'True', 'x' * 59), ('m\u00fcn/1', "it's", ' ')]


def reads_all_history(rng, kind, bits):
    """Every member of the `reads` bundle on a source whose rows are unsorted and hold explicit zeros, on a bit view of it (shares
    indices / indptr) and on a copy (shares everything)."""
    h = History5(rng, schema=[('_u', 'int')], bits=bits, level=rng.choice([-1, 5]))
    h.MAX_LIVE = 10
    A, B, C = rng.choice(NAME_SETS)
    rows = []
    for _ in range(4):
        idx = fpgen.rand_indices(rng, bits, 5) or [0]
        r = [(j, Fraction(1) if kind == 'KBit' else Fraction(rng.choice([1, 2, 9, 200])) if kind == 'KCount' else rand_float(rng, neg=True)) for j in idx]
        if len(r) > 1:
            k = rng.randrange(len(r))
            r[k] = (r[k][0], Fraction(0))                            # explicit zero
            r.reverse()
        rows.append(r)
    dtn = {'KBit': 'bool', 'KCount': 'uint16', 'KFloat': 'float64'}[kind]
    h.op_from_array5(kind, h.level, bits, 'csr', dtn, 'given', rows, [A, None, A, B], [('_u', [3, 1, 4, 1])])
    S = h.live[-1]
    h.op_as_type(S, 'KBit', True)
    h.op_copy(S)
    for g in list(h.live):
        h.op_reads(g, rng.randrange(10 ** 9), k=10 ** 3)
        h.op_getname(g, A)
    return h


def reuse_history(rng, kind, bits):
    """The caller keeps its fingerprint objects: adds them, changes them, adds the SAME objects again - to the same database, to one
    of another type (another dtype of the row vector) - and once more after a second change."""
    h = History5(rng, schema=[], bits=bits, level=rng.choice([-1, 5]))
    h.MAX_LIVE = 10
    h.op_new(kind, h.level)
    S = h.live[-1]
    h.op_new(rng.choice([k for k in KINDS if k != kind] if kind == 'KBit' else ['KBit', kind]), h.level)
    T = h.live[-1]
    fps = [make_fp5(rng, kind, bits, h.level, nm, [], style=rng.choice(['ctor', 'pickled', 'vector-sparse', 'from_fingerprint']), maxn=8)
           for nm in rng.choice(NAME_SETS) + (None,)]
    again = lambda: [{'fp': f['fp'], 'refresh': True} for f in fps]
    h.op_add5(S, fps, mutate_after='keep-level')
    h.op_add5(S, again(), how='tuple')
    h.op_add5(T, again())
    h.op_add5(T, again(), mutate_after='keep-level')
    h.op_add5(T, again())
    h.op_add5(S, again())
    h.op_getname(S, 'MUTATED')
    h.op_iter(T)
    return h


def directed_histories(rng, per_kind=None):
    out = []
    for kind in KINDS:
        ders = derivations(kind)
        if per_kind is not None and per_kind < len(ders):
            ders = rng.sample(ders, per_kind)
        for der in ders:
            out.append(('%s:%s' % (kind, '-'.join(str(x) for x in der)), directed_history(rng, kind, der, bits=rng.choice([16, 16, 1024, 12]))))
    return out


# --------------------------------------------------------------------------------------------- replay / model comparison
def _fp_from_json5(j):
    s = dbgen.fp_from_json(j)
    return spec_of(s['fp'])


def exec_desc5(hist, d):
    v = d.get('v5')
    if v is None:
        return dbgen.exec_desc(hist, d)
    need = [d[k] for k in ('h', 'h1', 'h2') if k in d] + list(d.get('hs', []))
    if any(x >= len(hist.pool) for x in need):
        raise IndexError('handle')
    op = d['op']
    if op == 'reload':
        return hist.op_reload_ext(d['h'], v['ext'])
    if op == 'from_array':
        rows = [[(j, Fraction(x)) for j, x in r] for r in d['rows']]
        ent = None if v.get('entries') is None else [(i, j, Fraction(x)) for i, j, x in v['entries']]
        return hist.op_from_array5(d['kind'], d['level'], d['bits'], v['fmt'], v['dtype'], v['mode'], rows, d['names'], [(k, x) for k, x in d['props']],
                                   names_as=v['names_as'], props_mode=v['props_mode'], dbname=v.get('dbname'), entries=ent, coltys=v.get('coltys'))
    if op == 'subset':
        return hist.op_subset5(d['h'], d['names'], v['names_as'], v.get('dbname'))
    if op == 'concat':
        return hist.op_concat5(d['hs'], v['how'])
    if op == 'add':
        specs = [_fp_from_json5(j) for j in d['fps']]
        same = v.get('same') or list(range(len(specs)))
        specs = [specs[same[i]] if same[i] < len(specs) else specs[i] for i in range(len(specs))]      # the same OBJECT where the batch had it twice
        ids = v.get('ids')
        if ids:
            # the same OBJECT as in earlier steps of this replay (in whatever state the caller's changes left it), if it still exists
            for i, sid in enumerate(ids):
                key = 'replay-%s' % sid
                if key in hist.by_serial:
                    specs[i] = spec_of(hist.by_serial[key])
                else:
                    hist.by_serial[key] = specs[i]['fp']
        return hist.op_add5(d['h'], specs, how=v.get('how', 'list'), mutate_after=v.get('mutate_after', False))
    if op == 'as_type':
        return hist.op_astype_user(d['h'], d['kind'], infer=v.get('infer', False))
    if op == 'pickle':
        return hist.op_legacy_state(d['h'])
    if op == 'new':
        return hist.op_new5(d['kind'], d['level'], v['style'])
    if op == 'fold':
        return hist.op_fold5(d['h'], d['bits'], d['kind'], v['style'])
    if op == 'metric':
        return hist.op_metric1(d['m'], d['h1'])
    if op == 'reads':
        return hist.op_reads(d['h'], d['seed'], k=d.get('k', 10))
    raise ValueError(op)


def replay_descs5(descs, rng=None):
    h = History5(rng or random.Random(0), schema=[], bits=8, level=-1)
    h.MAX_LIVE = 10 ** 6
    for d in descs:
        exec_desc5(h, d)
    return h


def check_histories5(ctx, hists, what, finding_key_of=None, shrink_budget=30):
    """dbgen.check_histories with replay_descs5 (same diagnosis: first diverging step, shrinking, minimal history as payload)."""
    import core
    cases = [(k, dbgen.trace_expr(h.steps)) for k, h in hists.items()]
    if not cases:
        return 0
    shard = max(1, min(40, (len(cases) + core.NCPU - 1) // core.NCPU))
    results, logs = core.coq_eval_bools(cases, dbgen.IMPORTS, os.path.join(ctx.workdir, 'eval_%d' % len(os.listdir(ctx.workdir))), shard=shard)
    bad = [k for k, _ in cases if results.get(k) is not True]
    ctx.coverage['traces_validated_against_impl'] += sum(len(hists[k].steps) for k, _ in cases if results.get(k) is True)
    for n, k in enumerate(bad):
        h = hists[k]
        if n >= 3:
            ctx.fail('%s: model and implementation disagree on history %s' % (what, k), {'history': dbgen.steps_json(h.steps)[:30], 'ops': dbgen.descs_of(h.steps)},
                     finding_key=finding_key_of(h, None) if finding_key_of else None)
            continue
        idx, raw = dbgen.first_divergence(ctx, h.steps)
        if idx is None:
            ctx.fail('%s: model evaluation did not complete for history %s' % (what, k),
                     {'coq_output_tail': raw, 'history': dbgen.steps_json(h.steps)[:30], 'ops': dbgen.descs_of(h.steps)})
            continue
        descs = dbgen.descs_of(h.steps[:idx + 1] if idx >= 0 else h.steps)
        tag0 = h.steps[idx]['tag'] if 0 <= idx < len(h.steps) else None

        def fails(ds):
            hh = replay_descs5(ds)
            i2, _ = dbgen.first_divergence(ctx, hh.steps)
            return i2 is not None and i2 >= 0 and (tag0 is None or hh.steps[i2]['tag'] == tag0)
        try:
            small = dbgen.shrink(descs, fails, budget=shrink_budget)
            hh = replay_descs5(small)
            i2, _ = dbgen.first_divergence(ctx, hh.steps)
            if i2 is None or i2 < 0:
                hh, i2, small = h, idx, descs                         # not reproducible on a fresh pool: report the original history
        except Exception:  # noqa
            hh, i2, small = h, idx, descs
        st = hh.steps[i2] if 0 <= i2 < len(hh.steps) else None
        payload = {'first_diverging_step': i2, 'minimal_history': dbgen.steps_json(hh.steps[:i2 + 1] if i2 >= 0 else hh.steps)[-12:],
                   'ops': dbgen.descs_of(hh.steps[:i2 + 1] if i2 >= 0 else hh.steps),
                   'diverging_op': st['op'] if st else None, 'implementation_result': st['res'][1] if st else None, 'history': k,
                   'original_length': len(h.steps), 'replay': 'ops, in order, on a fresh pool (props/c05_gen.replay_descs5)'}
        ctx.fail('%s: model and implementation disagree at step %s (%s) of a history of %d operation(s) [%s]' %
                 (what, i2, st['op'].get('op') if st else '?', len(hh.steps), k), payload,
                 finding_key=finding_key_of(hh, st) if finding_key_of else None)
    return len(bad)
