"""C06 - similarity measures equal their definitions in every representation (model M4, Properties/C06.v).

Two comparisons per implementation call, both evaluated inside Coq on exact rationals:
  corr : the implementation's float(s) against the *model of the code path* (Model/Metrics.v: dispatch / array_metric /
         fp_metric) - the tie between the theorems and the source;
  prop : the implementation's float(s) against the *definition* (tanimoto_def ... soergel_def of the dense vectors) -
         the property itself, stated directly on the implementation (only for vector lengths <= 128).
Only the exact outcome that `fp_tanimoto_explicit_zero_refuted` / `fp_dice_explicit_zero_refuted` describe (see
zero_count_key) is reported under the known-finding key; everything else is a plain VIOLATION.
`replay(ctx, file)` re-runs the recorded call on both sides (exit 1 + VIOLATION line if it still fails).
"""
import json
import os
import subprocess
import sys
from fractions import Fraction

import core
import fpgen
import metrics_gen as G
from metrics_gen import MEASURES, MCON
from props import c06_cov

IMPORTS = ['From Coq Require Import QArith.', 'From E3FP Require Import Base.Prelude Base.ZSet Model.Fprint Model.Metrics.']
TOL = '(Qmake 1 1000000000)'
PROP_MAX_WIDTH = 128
PEARSON_DB_MAX_BITS = 1024        # the sparse Pearson densifies (rows x bits float64)
PRODUCT_DB_MAX_BITS = 2 ** 20     # X * Y.T and scipy.sparse.linalg.norm allocate O(bits) (32 GiB at 2^32): tanimoto, dice, cosine

# the one input class in which today's code is known (and proved: Properties/C06.v fp_tanimoto_explicit_zero_refuted) to
# leave the definition: fprint_metrics.tanimoto/dice on a count/float fingerprint that holds a stored zero count
FINDING_KEYS = {'explicit_zero': 'fp-tanimoto-dice-explicit-zero-count',
                # found by the coverage extension (findings/repro_cov_c06.py fp_pearson_numpy_int_bits_nan); NOT listed as known
                'numpy_bits_pearson': c06_cov.NUMPY_BITS_KEY}


FP_PAIR_FORMS = ('fm', 'fp,fp', 'fp,None')


def known_zero_value(m, a0, b0):
    """The known wrong value of fingerprint-pair tanimoto/dice: every *stored* position counts as a set bit."""
    A, B = set(a0['idx']), set(b0['idx'])
    i = len(A & B)
    if m == 'tanimoto':
        d = len(A) + len(B) - i
        return Fraction(i, d) if d else Fraction(0)
    d = len(A) + len(B)
    return Fraction(2 * i, d) if d else Fraction(0)


def zero_count_key(form, m, a0, b0, r):
    """finding key for the `prop` comparison of this call, or None.  Only the exact known outcome is keyed:
    fingerprint-pair form, tanimoto/dice, an operand with a stored zero count, and the implementation returned the
    value obtained by counting stored positions as set bits."""
    if form not in FP_PAIR_FORMS or m not in ('tanimoto', 'dice'):
        return None
    b0 = a0 if form == 'fp,None' else b0
    if not (G.fp_has_explicit_zero(a0) or G.fp_has_explicit_zero(b0)):
        return None
    if r[0] != 'ok' or isinstance(r[1], list):
        return None
    if abs(r[1] - known_zero_value(m, a0, b0)) > Fraction(1, 10 ** 9):
        return None
    return FINDING_KEYS['explicit_zero']


def pearson_mask(xs, ys):
    cx = [G.is_const_nonzero(v) for v in xs]
    cy = [G.is_const_nonzero(v) for v in ys]
    return set((i, j) for i in range(len(xs)) for j in range(len(ys)) if cx[i] or cy[j])


def vec1(v):
    return G.vecs_lit([v])[1:-1]


def other_object(okind, bits):
    import numpy as np
    return {'int': 3, 'str': 'abc', 'ndarray': np.zeros((1, min(bits, 64)))}[okind]


def fp_exprs(form, m, a0, b0, da0, db0):
    """(model expression, definition expression or None, Pearson mask or None, skip) for one fingerprint/database form.
    a0, b0: fingerprint observations; da0, db0: database observations (None when the form does not use them)."""
    mc = MCON[m]
    bits = a0['bits'] if a0 is not None else da0['width']
    small = bits <= PROP_MAX_WIDTH
    la = fpgen.lit(a0) if a0 is not None else None
    lb = fpgen.lit(b0) if b0 is not None else None
    lda = G.db_lit(da0) if da0 is not None else None
    ldb = G.db_lit(db0) if db0 is not None else None
    va = G.fp_vec(a0, bits) if small and a0 is not None else None
    vb = G.fp_vec(b0, b0['bits']) if small and b0 is not None and b0['bits'] == bits else None
    vda = G.db_vecs(da0) if small and da0 is not None else None
    vdb = G.db_vecs(db0) if small and db0 is not None and db0['width'] == bits else None
    prop, mask = None, None
    if form == 'fm':
        model = 'Ok (Scalar (fp_metric %s %s %s))' % (mc, la, lb)
        xs, ys, scalar = [va], [vb], True
    elif form == 'fp,fp':
        model = 'dispatch %s (IFp %s) (Some (IFp %s))' % (mc, la, lb)
        xs, ys, scalar = [va], [vb], True
    elif form == 'fp,None':
        model = 'dispatch %s (IFp %s) None' % (mc, la)
        xs, ys, scalar = [va], [va], True
    elif form == 'fp,db':
        model = 'dispatch %s (IFp %s) (Some (IDb %s))' % (mc, la, ldb)
        xs, ys, scalar = [va], vdb, False
    elif form == 'db,fp':
        model = 'dispatch %s (IDb %s) (Some (IFp %s))' % (mc, lda, lb)
        xs, ys, scalar = vda, [vb], False
    elif form == 'db,db':
        model = 'dispatch %s (IDb %s) (Some (IDb %s))' % (mc, lda, ldb)
        xs, ys, scalar = vda, vdb, False
    elif form == 'db,None':
        model = 'dispatch %s (IDb %s) None' % (mc, lda)
        xs, ys, scalar = vda, vda, False
    else:
        raise ValueError(form)
    ok_vecs = small and xs is not None and ys is not None and all(v is not None for v in xs) and all(v is not None for v in ys)
    if ok_vecs:
        prop = ('Ok (def_scalar %s %s %s)' % (mc, vec1(xs[0]), vec1(ys[0]))) if scalar else \
               ('Ok (def_pairwise %s %s %s)' % (mc, G.vecs_lit(xs), G.vecs_lit(ys)))
        if m == 'pearson':
            mask = pearson_mask(xs, ys)
    return model, prop, mask, scalar


def fp_action(form, m, mk_a, mk_b, mk_da, mk_db):
    import e3fp.fingerprint.metrics as M
    from e3fp.fingerprint.metrics import fprint_metrics as FM
    f = getattr(M, m)
    return {'fm': lambda: getattr(FM, m)(mk_a(), mk_b()), 'fp,fp': lambda: f(mk_a(), mk_b()), 'fp,None': lambda: f(mk_a()),
            'fp,db': lambda: f(mk_a(), mk_db()), 'db,fp': lambda: f(mk_da(), mk_b()), 'db,db': lambda: f(mk_da(), mk_db()),
            'db,None': lambda: f(mk_da())}[form]


def arr_exprs(m, X, Y, width_mismatch=False):
    mc = MCON[m]
    xs, ys = G.arr_vecs(X), G.arr_vecs(Y if Y is not None else X)
    model = 'array_metric %s %s %s' % (mc, G.arr_lit(X), 'None' if Y is None else '(Some %s)' % G.arr_lit(Y))
    prop = None if width_mismatch else 'Ok (def_pairwise %s %s %s)' % (mc, G.vecs_lit(xs), G.vecs_lit(ys))
    mask = pearson_mask(xs, ys) if m == 'pearson' and not width_mismatch else None
    return model, prop, mask


def arr_action(m, X, Y):
    from e3fp.fingerprint.metrics import array_metrics as AM
    return lambda: getattr(AM, m)(G.build_arr(X), None if Y is None else G.build_arr(Y))


def case_exprs(r, model, prop, mask):
    """The Coq boolean expressions of one call: [('corr', expr)] + [('prop', expr)]."""
    out = [('corr', 'res_close %s %s (%s)' % (TOL, G.obs_lit(r, mask), model))]
    if prop is not None:
        out.append(('prop', 'res_close %s %s (%s)' % (TOL, G.obs_lit(r, mask), prop)))
    return out


def run(ctx):
    ok, res = core.proof_step(ctx)
    rng = ctx.rng
    cases, payloads, mexpr, fkeys = [], {}, {}, {}
    found_input = False
    dist = {'fp_pair_class': {}, 'fp_kinds': {}, 'bits': {}, 'forms': {}, 'measures': {}, 'array_class': {},
            'array_flags': {'nonbinary': 0, 'dups': 0, 'unsorted': 0, 'explicit_zeros': 0}, 'db_via_array': 0, 'db_rows': {},
            'outcomes': {'value': 0, 'exception': 0, 'nan': 0, 'complex': 0}, 'prop_checks': 0, 'nojit_cases': 0,
            'skipped_tanimoto_dice_on_nonbinary_arrays': 0, 'masked_pearson_entries': 0, 'masked_pearson_entries_by_form': {},
            'masked_pearson_scalar_calls': 0, 'nondyadic_float_calls': 0, 'known_zero_count_outcomes': 0,
            'zero_scores': 0, 'one_scores': 0}
    allow = {}

    def bump(d, k, n=1):
        d[k] = d.get(k, 0) + n

    def record(key, r, model, payload, prop=None, fkey=None, mask=None, nan_key=None):
        """r: observation of the implementation; model: Coq expression of type `result mres`.
        nan_key: finding key of a NaN / inf outcome of exactly this call (c06_cov.numpy_bits_pearson_key), else None."""
        nonlocal found_input
        bump(dist['outcomes'], {'ok': 'value', 'err': 'exception'}.get(r[0], r[0]))
        payload = dict(payload)
        payload['impl'] = G.obs_json(r)
        if r[0] not in ('ok', 'err'):
            # NaN / complex / wrong shape: distinct outcomes the model never produces
            found_input = True
            ctx.fail('%s: implementation returned %s (%s)%s' % (key, r[0], str(r[1])[:120], ' [finding %s]' % nan_key if nan_key else ''),
                     payload, finding_key=nan_key)
            return
        if r[0] == 'ok':
            flat = [r[1]] if not isinstance(r[1], list) else [x for row in r[1] for x in row]
            dist['zero_scores'] += sum(1 for x in flat if x == 0)
            dist['one_scores'] += sum(1 for x in flat if abs(x - 1) < Fraction(1, 10 ** 9))
        if mask:
            dist['masked_pearson_entries'] += len(mask)
            bump(dist['masked_pearson_entries_by_form'], payload.get('form', '?'), len(mask))
        if mask and r[0] == 'ok' and not isinstance(r[1], list):
            # scalar Pearson (fingerprint-pair form) with a constant operand whose value is not exactly representable: 0/0
            dist['masked_pearson_scalar_calls'] += 1
            return
        for which, expr in case_exprs(r, model, prop, mask):
            k = which + '/' + key
            cases.append((k, expr))
            pl_ = dict(payload)
            if which == 'prop':
                pl_['compared_with'] = 'the definition on the dense vectors'
                dist['prop_checks'] += 1
            payloads[k] = pl_
            mexpr[k] = model if which == 'corr' else prop
            fkeys[k] = fkey if which == 'prop' else None

    import e3fp.fingerprint.metrics as M
    from e3fp.fingerprint.metrics import array_metrics as AM

    # ------------------------------------------------------------------ 1. fingerprints and databases
    def fp_forms(tag, cls, sa, sb):
        a0, b0 = fpgen.obs(fpgen.build(sa)), fpgen.obs(fpgen.build(sb))
        bits = a0['bits']
        small = bits <= PROP_MAX_WIDTH
        nondyadic = cls == 'nondyadic_float'
        bump(dist['fp_pair_class'], cls)
        bump(dist['fp_kinds'], a0['kind'] + '/' + b0['kind'])
        bump(dist['bits'], str(bits))
        # databases around the two fingerprints
        ka = a0['kind'] if rng.random() < 0.7 else rng.choice(fpgen.KINDS)
        kb = b0['kind'] if rng.random() < 0.7 else rng.choice(fpgen.KINDS)
        dsa = G.rand_db_spec(rng, ka, bits, include=sa)
        dsb = G.rand_db_spec(rng, kb, bits, include=sb)
        da0, db0 = G.db_obs(G.build_db(dsa)), G.db_obs(G.build_db(dsb))
        for d, s_ in ((da0, dsa), (db0, dsb)):
            bump(dist['db_rows'], str(len(d['rows'])))
            dist['db_via_array'] += s_['via'] == 'array'
        for m in MEASURES:
            base = {'measure': m, 'class': cls, 'a': fpgen.obs_json(a0), 'b': fpgen.obs_json(b0)}
            heavy = (m == 'pearson' and bits > PEARSON_DB_MAX_BITS) or (m != 'soergel' and bits > PRODUCT_DB_MAX_BITS)
            forms = list(FP_PAIR_FORMS) + ([] if heavy else ['fp,db', 'db,fp', 'db,db', 'db,None'])
            for form in forms:
                model, prop, mask, scalar = fp_exprs(form, m, a0, b0, da0 if 'db,' in form else None, db0 if ',db' in form else None)
                if scalar and not nondyadic:
                    mask = None       # exactly representable constants reach the zero-denominator branch: compared
                r = G.observe(fp_action(form, m, lambda: fpgen.build(sa), lambda: fpgen.build(sb),
                                        lambda: G.build_db(dsa), lambda: G.build_db(dsb)))
                pl = dict(base)
                if 'db,' in form:
                    pl['dbA'] = G.db_json(da0)
                if ',db' in form:
                    pl['dbB'] = G.db_json(db0)
                pl['form'] = form
                fk = zero_count_key(form, m, a0, b0, r)
                dist['known_zero_count_outcomes'] += fk is not None
                dist['nondyadic_float_calls'] += nondyadic
                record('%s/%s/%s/%d' % (tag, form, m, len(cases)), r, model, pl, prop=prop, fkey=fk, mask=mask)
                bump(dist['forms'], form)
                bump(dist['measures'], m)
                nontriv = bool(a0['idx']) and bool(b0['idx']) and a0['cnt'] != b0['cnt']
                ctx.count((form, m, str(a0), str(b0), str(da0) if 'db' in form else '', str(db0) if 'db' in form else ''), nontriv)

    for i in range(ctx.n(180, 4000)):
        cls, sa, sb = G.rand_fp_pair(rng, allow)
        fp_forms('p%d' % i, cls, sa, sb)

    # ------------------------------------------------------------------ 2. rejections
    from e3fp.fingerprint.fprint import Fingerprint
    for i in range(ctx.n(20, 200)):
        sa = fpgen.rand_spec(rng, bits=rng.choice([4, 8, 16, 1024]), named=False)
        sb = fpgen.rand_spec(rng, bits=rng.choice([32, 64, 2 ** 32]), named=False)
        if rng.random() < 0.5:
            sa, sb = sb, sa
        a0, b0 = fpgen.obs(fpgen.build(sa)), fpgen.obs(fpgen.build(sb))
        dsb = G.rand_db_spec(rng, b0['kind'], b0['bits'], include=sb)
        db0 = G.db_obs(G.build_db(dsb))
        m = rng.choice(MEASURES)
        mc = MCON[m]
        pl = {'measure': m, 'a': fpgen.obs_json(a0), 'b': fpgen.obs_json(b0), 'class': 'length-mismatch'}
        for form, act, model, extra in (
                ('fp,fp', lambda: getattr(M, m)(fpgen.build(sa), fpgen.build(sb)), fp_exprs('fp,fp', m, a0, b0, None, None)[0], {}),
                ('fp,db', lambda: getattr(M, m)(fpgen.build(sa), G.build_db(dsb)), fp_exprs('fp,db', m, a0, None, None, db0)[0], {'dbB': G.db_json(db0)}),
                ('db,fp', lambda: getattr(M, m)(G.build_db(dsb), fpgen.build(sa)), fp_exprs('db,fp', m, None, a0, db0, None)[0],
                 {'dbA': G.db_json(db0), 'b': fpgen.obs_json(a0)})):
            p_ = dict(pl)
            p_.update(extra)
            p_['form'] = form
            record('rej/%s/%s/%d' % (form, m, len(cases)), G.observe(act), model, p_)
        import numpy as np
        okind = rng.choice(['int', 'str', 'ndarray'])
        other = other_object(okind, a0['bits'])
        pl2 = {'measure': m, 'a': fpgen.obs_json(a0), 'other': okind, 'class': 'non-fingerprint'}
        record('rej/fp,other/%s/%d' % (m, len(cases)), G.observe(lambda: getattr(M, m)(fpgen.build(sa), other)),
               'dispatch %s (IFp %s) (Some IOther)' % (mc, fpgen.lit(a0)), dict(pl2, form='fp,other'))
        record('rej/other,fp/%s/%d' % (m, len(cases)), G.observe(lambda: getattr(M, m)(other, fpgen.build(sa))),
               'dispatch %s IOther (Some (IFp %s))' % (mc, fpgen.lit(a0)), dict(pl2, form='other,fp'))
        ctx.count(('rej', m, str(a0), str(b0)), True, n=5)
        bump(dist['forms'], 'rejections', 5)

    # ------------------------------------------------------------------ 3. raw arrays: dense, CSR, mixed
    nojit_jobs = []
    for i in range(ctx.n(220, 6000)):
        cls, X, Y = G.rand_arr_pair(rng, allow)
        bump(dist['array_class'], cls)
        fl = G.arr_flags(X)
        if Y is not None:
            fy = G.arr_flags(Y)
            fl = {k: fl[k] or fy[k] for k in fl}
        for k in fl:
            dist['array_flags'][k] += bool(fl[k])
        if rng.random() < 0.06 and Y is not None:
            # width mismatch
            Y = dict(Y)
            Y['w'] = Y['w'] + 1
            Y['rows'] = [r + ([Fraction(0)] if Y['t'] == 'dense' else []) for r in Y['rows']]
            cls += '/width-mismatch'
        xs = G.arr_vecs(X)
        wm = 'width-mismatch' in cls
        dist['nondyadic_float_calls'] += 5 * cls.startswith('floatx')
        for m in MEASURES:
            fk = None
            if m in ('tanimoto', 'dice') and fl['nonbinary']:
                # array_metrics.tanimoto/dice: "Data must be binary. This is not checked." - outside their contract
                bump(dist, 'skipped_tanimoto_dice_on_nonbinary_arrays')
                continue
            model, prop, mask = arr_exprs(m, X, Y, wm)
            r = G.observe(arr_action(m, X, Y))
            pl = {'measure': m, 'class': cls, 'X': G.arr_json(X), 'Y': None if Y is None else G.arr_json(Y), 'form': 'array', 'flags': fl}
            record('a%d/%s/%d' % (i, m, len(cases)), r, model, pl, prop=prop, fkey=fk, mask=mask)
            bump(dist['forms'], 'array:' + cls.split('/')[1])
            bump(dist['measures'], m)
            ctx.count(('arr', m, str(X), str(Y)), any(any(v != 0 for v in r_) for r_ in xs))
            if m == 'soergel' and len(nojit_jobs) < ctx.n(100, 1500):
                nojit_jobs.append(({'m': m, 'X': G.arr_json(X), 'Y': None if Y is None else G.arr_json(Y)}, model, prop, fk, pl, mask))

    # ------------------------------------------------------------------ 4. the same Soergel kernels without numba (pure Python)
    if nojit_jobs:
        inp, outp = os.path.join(ctx.workdir, 'nojit_in.json'), os.path.join(ctx.workdir, 'nojit_out.json')
        json.dump([j[0] for j in nojit_jobs], open(inp, 'w'))
        env = dict(os.environ)
        env['NUMBA_DISABLE_JIT'] = '1'
        env['VERIF_REPO'] = core.REPO
        p = subprocess.run([sys.executable, '-B', os.path.join(core.VERIF, 'harness', 'metrics_gen.py'), inp, outp], env=env,
                           stdout=subprocess.PIPE, stderr=subprocess.STDOUT, text=True, timeout=900)
        if p.returncode or not os.path.exists(outp):
            ctx.fail('pure-Python (NUMBA_DISABLE_JIT=1) worker failed: ' + p.stdout[-800:], {'log': p.stdout[-3000:]}, no_input=True, kind='harness-error')
        else:
            out = json.load(open(outp))
            ctx.notes.append('NUMBA_DISABLE_JIT worker: jit_disabled=%s, %d soergel calls' % (out['jit_disabled'], len(out['results'])))
            if not out['jit_disabled']:
                ctx.fail('the worker did not run with the JIT disabled', {}, no_input=True, kind='harness-error')
            for (job, model, prop, fk, pl, mask), r in zip(nojit_jobs, out['results']):
                r = tuple(r)
                if r[0] == 'ok':
                    r = ('ok', [[Fraction(x) for x in row] for row in r[1]])
                pl = dict(pl)
                pl['form'] = 'array (NUMBA_DISABLE_JIT=1)'
                record('nojit/%s/%d' % (job['m'], len(cases)), r, model, pl, prop=prop, fkey=fk, mask=mask)
                dist['nojit_cases'] += 1
                ctx.count(('nojit', str(job)), True)
        import numba
        jitted = hasattr(AM._sparse_soergel, 'py_func') and not numba.config.DISABLE_JIT
        ctx.notes.append('in-process Soergel kernels are numba-compiled: %s' % jitted)

    # ------------------------------------------------------------------ 5. coverage extension (props/c06_cov.py): other
    # constructors / dtypes / layouts / calling styles, aliased operands, assume_binary, call sequences on reused operands
    c06_cov.run_ext(ctx, {'record': record, 'dist': dist, 'bump': bump, 'fp_exprs': fp_exprs, 'arr_exprs': arr_exprs,
                          'zero_count_key': zero_count_key, 'ncases': lambda: len(cases)})

    for k in cases[:2] + cases[len(cases) // 3:len(cases) // 3 + 2] + cases[-2:]:
        ctx.sample({'case': k[0], 'input_and_implementation_result': payloads[k[0]], 'check': k[1][:500]})
    nbad = core.compare_cases(ctx, cases, IMPORTS, 'C06 similarity measures', payloads, model_expr=mexpr,
                              finding_key_of=lambda k, pl: fkeys.get(k))
    found_input = found_input or nbad > 0
    ctx.coverage['rule'] = (
        'every generated input is run through every measure and every calling form that applies (fprint_metrics, dispatcher on '
        '(fp,fp) (fp,None) (fp,db) (db,fp) (db,db) (db,None), array_metrics on dense / CSR / mixed, Soergel kernels also with '
        'NUMBA_DISABLE_JIT=1); each call gives a `corr` case (implementation vs model of the code path) and, for lengths <= %d, a '
        '`prop` case (implementation vs definition); a case is non-trivial when both operands are non-empty and differ (arrays: some '
        'non-zero entry); distinct by full input, form and measure.  NOT compared (counted in input_distribution): Pearson matrix entries '
        'with a constant non-zero operand (masked_pearson_entries[_by_form], masked_pearson_scalar_calls), Tanimoto/Dice on raw non-0/1 '
        'arrays (skipped_tanimoto_dice_on_nonbinary_arrays).  Float rounding is exercised by the non-dyadic streams (fingerprint class '
        'nondyadic_float and array class floatx: values 0.1, 1/3, 2.7, 0.3, 1.7, 1e-3, 12.75, 0.7, 1000.1; nondyadic_float_calls); all '
        'other float inputs are dyadic with small numerators, where only the divisions and means round.  Coverage extension '
        '(props/c06_cov.py, counters under input_distribution.ext): fpx = fingerprint/database forms with all ordered kind pairs, lengths '
        '1,2,3,5,7,10,100,1000, counts up to 65535, float values below one, named fingerprints, constructors from NumPy scalars / '
        'unsorted repeated index lists / from_vector, databases filled in two batches / copied / with named rows, keyword call styles, the '
        'same object as both operands; rejx = two databases of different length; arrx = raw arrays in int8..uint64/float32, Fortran / '
        'strided / negatively strided / read-only dense layouts, 64-bit CSR index arrays, zero-row operands, keyword styles, X given twice, a '
        'second operand sharing the first one\'s buffers, cosine(assume_binary=True|False) on 0/1 data; reuse = 12-24 calls in random (form, '
        'measure, style) order on operands built ONCE (fingerprints, databases mostly with non-canonical storage, raw arrays), each result '
        'compared with the model of the initial content' % PROP_MAX_WIDTH)
    ctx.coverage['input_distribution'] = dist
    ctx.assumptions += [
        'array_metrics.tanimoto/dice are called on raw arrays with 0/1 data only (any dtype, explicit zeros, duplicates that add up to 0/1): their docstring states "Data must be binary. This is not checked."; the theorems arr/sp_tanimoto_eq_def carry the hypothesis `binary`',
        'values are non-negative; counts < 2^16 (the uint16 database dtype); float inputs are finite doubles, taken exactly',
        'GENERATOR NARROWING: Pearson with a constant non-zero operand is mathematically 0/0 and the array/database forms decide it by round-off - observed on the current tree: CSR rows [1]*6 against each other give 1.0000000000000002 where the dense form gives 0.0, i.e. the two representations do NOT agree there; those matrix entries are masked in both comparison streams (corr and prop) and counted in input_distribution.masked_pearson_entries; the fingerprint-pair form is compared for exactly representable constants (they reach its zero-denominator branch and score 0) and masked for non-dyadic constants',
        'the known-finding key fp-tanimoto-dice-explicit-zero-count is attached only when the implementation returned exactly the value obtained by counting stored positions as set bits, in a fingerprint-pair form of tanimoto/dice with a stored zero count; any other disagreement on such an input is an unkeyed violation',
        'database forms of Pearson only for bits <= %d and of Tanimoto/Dice/cosine for bits <= 2^20 (the code densifies, resp. SciPy allocates O(bits): 32 GiB at 2^32); Soergel database forms and all fingerprint-pair forms are run up to 2^32' % PEARSON_DB_MAX_BITS,
        'COVERAGE EXTENSION: cosine(assume_binary=True) is called on 0/1 data only (its documented contract) and compared with the model of the general sparse cosine path, which equals it on 0/1 data; dense Pearson of ONE row against an operand WITHOUT rows is skipped and counted (ext.skipped_dense_pearson_one_row_vs_zero_rows): np.corrcoef is 0-d there and the code raises IndexError - comparing with nothing is outside the quantifier (findings/repro_cov_c06.py note_dense_pearson_one_row_vs_zero_rows); an empty FingerprintDatabase (no length) is not generated',
        'finding key %s (NOT listed as known; findings/repro_cov_c06.py fp_pearson_numpy_int_bits_nan) is attached only to the exact outcome: fingerprint-pair form of Pearson returned NaN/inf, an operand was constructed with a NumPy integer `bits`, and an operand has zero variance (empty or constant); counted in ext.numpy_bits_pearson_nan_outcomes' % c06_cov.NUMPY_BITS_KEY,
        'NumPy/SciPy kernels (dot, sparse product, cdist, corrcoef, sparse norm, sorted_indices, nan_to_num) and numba behave as modelled; exercised by the correspondence only',
        'tolerance 1e-9 (relative above 1); rooted values are compared through the monotone signed square, exactly; dyadic inputs exercise it only through / and mean, the non-dyadic streams through every sum and product',
    ]
    if not ok:
        core.report_broken_proof(ctx, res, found_input)


def replay(ctx, path):
    """Re-run the recorded case on both sides (implementation from VERIF_REPO, model and definition inside Coq).
    Exit 1 with a VIOLATION line if it still fails, 0 if it passes now (or reproduces the listed known finding)."""
    d = json.load(open(path))
    c = d.get('case', {})
    form, m = c.get('form'), c.get('measure')
    if not form or m not in MEASURES:
        print('replay: %s does not carry a C06 case (kind=%s): %s' % (path, d.get('kind'), d.get('what', '')[:300]))
        print('VIOLATION property=C06 replay=%s no-failing-input-found' % path)
        return 1
    import e3fp.fingerprint.metrics as M
    fk = None
    if c.get('ext'):
        r, model, prop, mask, fk = c06_cov.replay_ext(ctx, c, {'fp_exprs': fp_exprs, 'arr_exprs': arr_exprs, 'zero_count_key': zero_count_key})
        print('replay: extended stream %s' % json.dumps(c['ext'])[:400])
    elif form.startswith('array'):
        X = G.arr_from_json(c['X'])
        Y = None if c.get('Y') is None else G.arr_from_json(c['Y'])
        wm = Y is not None and Y['w'] != X['w']
        model, prop, mask = arr_exprs(m, X, Y, wm)
        if 'NUMBA_DISABLE_JIT' in form:
            inp, outp = os.path.join(ctx.workdir, 'rp_in.json'), os.path.join(ctx.workdir, 'rp_out.json')
            json.dump([{'m': m, 'X': c['X'], 'Y': c.get('Y')}], open(inp, 'w'))
            env = dict(os.environ, NUMBA_DISABLE_JIT='1', VERIF_REPO=core.REPO)
            subprocess.run([sys.executable, '-B', os.path.join(core.VERIF, 'harness', 'metrics_gen.py'), inp, outp], env=env, timeout=600)
            r = tuple(json.load(open(outp))['results'][0])
            if r[0] == 'ok':
                r = ('ok', [[Fraction(x) for x in row] for row in r[1]])
        else:
            r = G.observe(arr_action(m, X, Y))
    elif 'other' in form:
        sa = G.fp_from_json(c['a'])
        a0 = fpgen.obs(fpgen.build(sa))
        other = other_object(c['other'], a0['bits'])
        prop = mask = None
        if form == 'fp,other':
            model = 'dispatch %s (IFp %s) (Some IOther)' % (MCON[m], fpgen.lit(a0))
            r = G.observe(lambda: getattr(M, m)(fpgen.build(sa), other))
        else:
            model = 'dispatch %s IOther (Some (IFp %s))' % (MCON[m], fpgen.lit(a0))
            r = G.observe(lambda: getattr(M, m)(other, fpgen.build(sa)))
    else:
        sa = G.fp_from_json(c['a']) if 'a' in c else None
        sb = G.fp_from_json(c['b']) if 'b' in c and isinstance(c['b'], dict) else None
        a0 = fpgen.obs(fpgen.build(sa)) if sa and form.startswith(('fm', 'fp')) else None
        b0 = fpgen.obs(fpgen.build(sb)) if sb and (form in ('fm', 'fp,fp') or form.endswith(',fp')) else None
        da0, mk_da = G.db_from_json(c['dbA']) if 'db,' in form else (None, None)
        db0, mk_db = G.db_from_json(c['dbB']) if ',db' in form else (None, None)
        model, prop, mask, scalar = fp_exprs(form, m, a0, b0, da0, db0)
        if scalar and c.get('class') != 'nondyadic_float':
            mask = None
        r = G.observe(fp_action(form, m, lambda: fpgen.build(sa), lambda: fpgen.build(sb), mk_da, mk_db))
        if a0 is not None and (b0 is not None or form == 'fp,None'):
            fk = zero_count_key(form, m, a0, b0, r)
    print('replay: form=%s measure=%s class=%s' % (form, m, c.get('class')))
    print('  implementation now: %s' % json.dumps(G.obs_json(r))[:600])
    print('  implementation then: %s' % json.dumps(c.get('impl'))[:600])
    if r[0] not in ('ok', 'err'):
        nk = c06_cov.numpy_bits_pearson_key_of_case(c, r) if c.get('ext') else None
        if nk is not None and any(f.get('status') == 'known' and f.get('key') == nk for f in ctx.findings):
            print('KNOWN-FINDING: property=C06 %s' % nk)
            return 0
        print('VIOLATION property=C06 replay=%s' % path)
        print('  implementation returned %s%s' % (r[0], ' [finding %s]' % nk if nk else ''))
        return 1
    if mask and r[0] == 'ok' and not isinstance(r[1], list):
        print('replay: scalar Pearson with a constant operand is not compared (0/0)')
        return 0
    exprs = case_exprs(r, model, prop, mask)
    results, logs = core.coq_eval_bools([(w, e) for w, e in exprs], IMPORTS, os.path.join(ctx.workdir, 'replay_eval'))
    bad = [w for w, _ in exprs if results.get(w) is not True]
    for w, e in exprs:
        print('  %s: %s' % (w, {True: 'agrees', False: 'DISAGREES', None: 'model evaluation did not complete'}[results.get(w)]))
    for w in bad:
        out = core.coq_eval_raw(model if w == 'corr' else prop, IMPORTS, os.path.join(ctx.workdir, 'replay_raw'))
        print('  %s expected: %s' % ('model of the code path' if w == 'corr' else 'definition', out[-800:]))
    import shutil
    shutil.rmtree(ctx.workdir, ignore_errors=True)
    if not bad:
        print('replay: the case passes on this tree')
        return 0
    if bad == ['prop'] and fk is not None and any(f.get('status') == 'known' and f.get('key') == fk for f in ctx.findings):
        print('KNOWN-FINDING: property=C06 %s' % fk)
        return 0
    print('VIOLATION property=C06 replay=%s' % path)
    return 1
