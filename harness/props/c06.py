"""C06 - similarity measures equal their definitions in every representation (model M4, Properties/C06.v).

Two comparisons per implementation call, both evaluated inside Coq on exact rationals:
  corr : the implementation's float(s) against the *model of the code path* (Model/Metrics.v: dispatch / array_metric /
         fp_metric) - the tie between the theorems and the source;
  prop : the implementation's float(s) against the *definition* (tanimoto_def ... soergel_def of the dense vectors) -
         the property itself, stated directly on the implementation (only for vector lengths <= 128).
A call whose input lies in a class that a `_refuted` theorem of Properties/C06.v names is reported under that
class's finding key (see FINDING_KEYS); everything else is a plain VIOLATION.
"""
import json
import os
import subprocess
import sys
from fractions import Fraction

import core
import fpgen
import metrics_gen as G
from metrics_gen import MEASURES, MCON

IMPORTS = ['From Coq Require Import QArith.', 'From E3FP Require Import Base.Prelude Base.ZSet Model.Fprint Model.Metrics.']
TOL = '(Qmake 1 1000000000)'
PROP_MAX_WIDTH = 128
PEARSON_DB_MAX_BITS = 1024        # the sparse Pearson densifies (rows x bits float64)
PRODUCT_DB_MAX_BITS = 2 ** 20     # X * Y.T and scipy.sparse.linalg.norm allocate O(bits) (32 GiB at 2^32): tanimoto, dice, cosine

# the one input class in which today's code is known (and proved: Properties/C06.v fp_tanimoto_explicit_zero_refuted) to
# leave the definition: fprint_metrics.tanimoto/dice on a count/float fingerprint that holds a stored zero count
FINDING_KEYS = {'explicit_zero': 'fp-tanimoto-dice-explicit-zero-count'}


def run(ctx):
    ok, res = core.proof_step(ctx)
    rng = ctx.rng
    cases, payloads, mexpr, fkeys = [], {}, {}, {}
    found_input = False
    dist = {'fp_pair_class': {}, 'fp_kinds': {}, 'bits': {}, 'forms': {}, 'measures': {}, 'array_class': {},
            'array_flags': {'nonbinary': 0, 'dups': 0, 'unsorted': 0, 'explicit_zeros': 0}, 'db_via_array': 0, 'db_rows': {},
            'outcomes': {'value': 0, 'exception': 0, 'nan': 0, 'complex': 0}, 'prop_checks': 0, 'nojit_cases': 0,
            'skipped_tanimoto_dice_on_nonbinary_arrays': 0, 'masked_pearson_entries': 0,
            'zero_scores': 0, 'one_scores': 0}
    allow = {}

    def bump(d, k, n=1):
        d[k] = d.get(k, 0) + n

    def record(key, r, model, payload, prop=None, fkey=None, mask=None):
        """r: observation of the implementation; model: Coq expression of type `result mres`."""
        nonlocal found_input
        bump(dist['outcomes'], {'ok': 'value', 'err': 'exception'}.get(r[0], r[0]))
        payload = dict(payload)
        payload['impl'] = G.obs_json(r)
        if r[0] not in ('ok', 'err'):
            # NaN / complex / wrong shape: distinct outcomes the model never produces
            found_input = True
            ctx.fail('%s: implementation returned %s (%s)' % (key, r[0], str(r[1])[:120]), payload, finding_key=None)
            return
        if r[0] == 'ok':
            flat = [r[1]] if not isinstance(r[1], list) else [x for row in r[1] for x in row]
            dist['zero_scores'] += sum(1 for x in flat if x == 0)
            dist['one_scores'] += sum(1 for x in flat if abs(x - 1) < Fraction(1, 10 ** 9))
        k1 = 'corr/' + key
        if mask:
            dist['masked_pearson_entries'] += len(mask)
        cases.append((k1, 'res_close %s %s (%s)' % (TOL, G.obs_lit(r, mask), model)))
        payloads[k1] = payload
        mexpr[k1] = model
        fkeys[k1] = None
        if prop is not None:
            k2 = 'prop/' + key
            cases.append((k2, 'res_close %s %s (%s)' % (TOL, G.obs_lit(r, mask), prop)))
            p2 = dict(payload)
            p2['compared_with'] = 'the definition on the dense vectors'
            payloads[k2] = p2
            mexpr[k2] = prop
            fkeys[k2] = fkey
            dist['prop_checks'] += 1

    def pearson_mask(xs, ys):
        cx = [G.is_const_nonzero(v) for v in xs]
        cy = [G.is_const_nonzero(v) for v in ys]
        return set((i, j) for i in range(len(xs)) for j in range(len(ys)) if cx[i] or cy[j])

    import e3fp.fingerprint.metrics as M
    from e3fp.fingerprint.metrics import fprint_metrics as FM, array_metrics as AM

    # ------------------------------------------------------------------ 1. fingerprints and databases
    def fp_forms(tag, cls, sa, sb):
        a0, b0 = fpgen.obs(fpgen.build(sa)), fpgen.obs(fpgen.build(sb))
        bits = a0['bits']
        la, lb = fpgen.lit(a0), fpgen.lit(b0)
        small = bits <= PROP_MAX_WIDTH
        va, vb = (G.fp_vec(a0, bits), G.fp_vec(b0, bits)) if small else (None, None)
        trig_zero = G.fp_has_explicit_zero(a0) or G.fp_has_explicit_zero(b0)
        bump(dist['fp_pair_class'], cls)
        bump(dist['fp_kinds'], a0['kind'] + '/' + b0['kind'])
        bump(dist['bits'], str(bits))
        # databases around the two fingerprints
        ka = a0['kind'] if rng.random() < 0.7 else rng.choice(fpgen.KINDS)
        kb = b0['kind'] if rng.random() < 0.7 else rng.choice(fpgen.KINDS)
        dsa = G.rand_db_spec(rng, ka, bits, include=sa)
        dsb = G.rand_db_spec(rng, kb, bits, include=sb)
        da0, db0 = G.db_obs(G.build_db(dsa)), G.db_obs(G.build_db(dsb))
        for d, s in ((da0, dsa), (db0, dsb)):
            bump(dist['db_rows'], str(len(d['rows'])))
            dist['db_via_array'] += s['via'] == 'array'
        lda, ldb = G.db_lit(da0), G.db_lit(db0)
        vda, vdb = (G.db_vecs(da0), G.db_vecs(db0)) if small else (None, None)
        db_zero = any(v == 0 for d in (da0, db0) for r in d['rows'] for _, v in r)
        for m in MEASURES:
            mc = MCON[m]
            base = {'measure': m, 'class': cls, 'a': fpgen.obs_json(a0), 'b': fpgen.obs_json(b0)}

            def fkey_fp():
                return FINDING_KEYS['explicit_zero'] if m in ('tanimoto', 'dice') and trig_zero else None
            forms = []
            # fprint_metrics.<m>(a, b) and the dispatcher on two fingerprints
            forms.append(('fm', lambda: getattr(FM, m)(fpgen.build(sa), fpgen.build(sb)),
                          'Ok (Scalar (fp_metric %s %s %s))' % (mc, la, lb),
                          None if not small else 'Ok (def_scalar %s %s %s)' % (mc, G.vecs_lit([va])[1:-1], G.vecs_lit([vb])[1:-1]),
                          fkey_fp(), {}))
            forms.append(('fp,fp', lambda: getattr(M, m)(fpgen.build(sa), fpgen.build(sb)),
                          'dispatch %s (IFp %s) (Some (IFp %s))' % (mc, la, lb),
                          None if not small else 'Ok (def_scalar %s %s %s)' % (mc, G.vecs_lit([va])[1:-1], G.vecs_lit([vb])[1:-1]),
                          fkey_fp(), {}))
            forms.append(('fp,None', lambda: getattr(M, m)(fpgen.build(sa)),
                          'dispatch %s (IFp %s) None' % (mc, la),
                          None if not small else 'Ok (def_scalar %s %s %s)' % (mc, G.vecs_lit([va])[1:-1], G.vecs_lit([va])[1:-1]),
                          FINDING_KEYS['explicit_zero'] if m in ('tanimoto', 'dice') and G.fp_has_explicit_zero(a0) else None, {}))
            heavy = (m == 'pearson' and bits > PEARSON_DB_MAX_BITS) or (m != 'soergel' and bits > PRODUCT_DB_MAX_BITS)
            if not heavy:
                forms.append(('fp,db', lambda: getattr(M, m)(fpgen.build(sa), G.build_db(dsb)),
                              'dispatch %s (IFp %s) (Some (IDb %s))' % (mc, la, ldb),
                              None if not small else 'Ok (def_pairwise %s %s %s)' % (mc, G.vecs_lit([va]), G.vecs_lit(vdb)),
                              None, {'dbB': G.db_json(db0)}))
                forms.append(('db,fp', lambda: getattr(M, m)(G.build_db(dsa), fpgen.build(sb)),
                              'dispatch %s (IDb %s) (Some (IFp %s))' % (mc, lda, lb),
                              None if not small else 'Ok (def_pairwise %s %s %s)' % (mc, G.vecs_lit(vda), G.vecs_lit([vb])),
                              None, {'dbA': G.db_json(da0)}))
                forms.append(('db,db', lambda: getattr(M, m)(G.build_db(dsa), G.build_db(dsb)),
                              'dispatch %s (IDb %s) (Some (IDb %s))' % (mc, lda, ldb),
                              None if not small else 'Ok (def_pairwise %s %s %s)' % (mc, G.vecs_lit(vda), G.vecs_lit(vdb)),
                              None, {'dbA': G.db_json(da0), 'dbB': G.db_json(db0)}))
                forms.append(('db,None', lambda: getattr(M, m)(G.build_db(dsa)),
                              'dispatch %s (IDb %s) None' % (mc, lda),
                              None if not small else 'Ok (def_pairwise %s %s %s)' % (mc, G.vecs_lit(vda), G.vecs_lit(vda)),
                              None, {'dbA': G.db_json(da0)}))
            for form, act, model, prop, fk, extra in forms:
                r = G.observe(act)
                pl = dict(base)
                pl.update(extra)
                pl['form'] = form
                mask = None
                if m == 'pearson' and small and 'db' in form:
                    xs_, ys_ = {'fp,db': ([va], vdb), 'db,fp': (vda, [vb]), 'db,db': (vda, vdb), 'db,None': (vda, vda)}[form]
                    mask = pearson_mask(xs_, ys_)
                record('%s/%s/%s/%d' % (tag, form, m, len(cases)), r, model, pl, prop=prop, fkey=fk, mask=mask)
                bump(dist['forms'], form)
                bump(dist['measures'], m)
                nontriv = bool(a0['idx']) and bool(b0['idx']) and a0['cnt'] != b0['cnt']
                ctx.count((form, m, str(a0), str(b0), str(da0) if 'db' in form else '', str(db0) if 'db' in form else ''), nontriv)

    for i in range(ctx.n(180, 4000)):
        cls, sa, sb = G.rand_fp_pair(rng, allow)
        fp_forms('p%d' % i, cls, sa, sb)

    # ------------------------------------------------------------------ 2. rejections
    from e3fp.fingerprint.fprint import Fingerprint
    for i in range(ctx.n(20, 200)):
        sa = fpgen.rand_spec(rng, bits=rng.choice([4, 8, 16, 1024]), named=False)
        sb = fpgen.rand_spec(rng, bits=rng.choice([32, 64, 2 ** 32]), named=False)
        if rng.random() < 0.5:
            sa, sb = sb, sa
        a0, b0 = fpgen.obs(fpgen.build(sa)), fpgen.obs(fpgen.build(sb))
        dsb = G.rand_db_spec(rng, b0['kind'], b0['bits'], include=sb)
        db0 = G.db_obs(G.build_db(dsb))
        m = rng.choice(MEASURES)
        mc = MCON[m]
        pl = {'measure': m, 'a': fpgen.obs_json(a0), 'b': fpgen.obs_json(b0), 'class': 'length-mismatch'}
        record('rej/fp,fp/%s/%d' % (m, len(cases)), G.observe(lambda: getattr(M, m)(fpgen.build(sa), fpgen.build(sb))),
               'dispatch %s (IFp %s) (Some (IFp %s))' % (mc, fpgen.lit(a0), fpgen.lit(b0)), pl)
        record('rej/fp,db/%s/%d' % (m, len(cases)), G.observe(lambda: getattr(M, m)(fpgen.build(sa), G.build_db(dsb))),
               'dispatch %s (IFp %s) (Some (IDb %s))' % (mc, fpgen.lit(a0), G.db_lit(db0)), pl)
        record('rej/db,fp/%s/%d' % (m, len(cases)), G.observe(lambda: getattr(M, m)(G.build_db(dsb), fpgen.build(sa))),
               'dispatch %s (IDb %s) (Some (IFp %s))' % (mc, G.db_lit(db0), fpgen.lit(a0)), pl)
        import numpy as np
        other = rng.choice([3, 'abc', np.zeros((1, a0['bits']))])
        pl2 = {'measure': m, 'a': fpgen.obs_json(a0), 'b': repr(other), 'class': 'non-fingerprint'}
        record('rej/fp,other/%s/%d' % (m, len(cases)), G.observe(lambda: getattr(M, m)(fpgen.build(sa), other)),
               'dispatch %s (IFp %s) (Some IOther)' % (mc, fpgen.lit(a0)), pl2)
        record('rej/other,fp/%s/%d' % (m, len(cases)), G.observe(lambda: getattr(M, m)(other, fpgen.build(sa))),
               'dispatch %s IOther (Some (IFp %s))' % (mc, fpgen.lit(a0)), pl2)
        ctx.count(('rej', m, str(a0), str(b0)), True, n=5)
        bump(dist['forms'], 'rejections', 5)

    # ------------------------------------------------------------------ 3. raw arrays: dense, CSR, mixed
    nojit_jobs = []
    for i in range(ctx.n(220, 6000)):
        cls, X, Y = G.rand_arr_pair(rng, allow)
        bump(dist['array_class'], cls)
        fl = G.arr_flags(X)
        if Y is not None:
            fy = G.arr_flags(Y)
            fl = {k: fl[k] or fy[k] for k in fl}
        for k in fl:
            dist['array_flags'][k] += bool(fl[k])
        if rng.random() < 0.06 and Y is not None:
            # width mismatch
            Y = dict(Y)
            Y['w'] = Y['w'] + 1
            Y['rows'] = [r + ([Fraction(0)] if Y['t'] == 'dense' else []) for r in Y['rows']]
            cls += '/width-mismatch'
        xs, ys = G.arr_vecs(X), G.arr_vecs(Y if Y is not None else X)
        for m in MEASURES:
            mc = MCON[m]
            fk = None
            if m in ('tanimoto', 'dice') and fl['nonbinary']:
                # array_metrics.tanimoto/dice: "Data must be binary. This is not checked." - outside their contract
                bump(dist, 'skipped_tanimoto_dice_on_nonbinary_arrays')
                continue
            model = 'array_metric %s %s %s' % (mc, G.arr_lit(X), 'None' if Y is None else '(Some %s)' % G.arr_lit(Y))
            prop = None if 'width-mismatch' in cls else 'Ok (def_pairwise %s %s %s)' % (mc, G.vecs_lit(xs), G.vecs_lit(ys))
            r = G.observe(lambda: getattr(AM, m)(G.build_arr(X), None if Y is None else G.build_arr(Y)))
            pl = {'measure': m, 'class': cls, 'X': G.arr_json(X), 'Y': None if Y is None else G.arr_json(Y), 'form': 'array', 'flags': fl}
            mask = pearson_mask(xs, ys) if m == 'pearson' else None
            record('a%d/%s/%d' % (i, m, len(cases)), r, model, pl, prop=prop, fkey=fk, mask=mask)
            bump(dist['forms'], 'array:' + cls.split('/')[1])
            bump(dist['measures'], m)
            ctx.count(('arr', m, str(X), str(Y)), any(any(v != 0 for v in r_) for r_ in xs))
            if m == 'soergel' and len(nojit_jobs) < ctx.n(100, 1500):
                nojit_jobs.append(({'m': m, 'X': G.arr_json(X), 'Y': None if Y is None else G.arr_json(Y)}, model, prop, fk, pl))

    # ------------------------------------------------------------------ 4. the same Soergel kernels without numba (pure Python)
    if nojit_jobs:
        inp, outp = os.path.join(ctx.workdir, 'nojit_in.json'), os.path.join(ctx.workdir, 'nojit_out.json')
        json.dump([j[0] for j in nojit_jobs], open(inp, 'w'))
        env = dict(os.environ)
        env['NUMBA_DISABLE_JIT'] = '1'
        env['VERIF_REPO'] = core.REPO
        p = subprocess.run([sys.executable, '-B', os.path.join(core.VERIF, 'harness', 'metrics_gen.py'), inp, outp], env=env,
                           stdout=subprocess.PIPE, stderr=subprocess.STDOUT, text=True, timeout=900)
        if p.returncode or not os.path.exists(outp):
            ctx.fail('pure-Python (NUMBA_DISABLE_JIT=1) worker failed: ' + p.stdout[-800:], {'log': p.stdout[-3000:]}, no_input=True, kind='harness-error')
        else:
            out = json.load(open(outp))
            ctx.notes.append('NUMBA_DISABLE_JIT worker: jit_disabled=%s, %d soergel calls' % (out['jit_disabled'], len(out['results'])))
            if not out['jit_disabled']:
                ctx.fail('the worker did not run with the JIT disabled', {}, no_input=True, kind='harness-error')
            for (job, model, prop, fk, pl), r in zip(nojit_jobs, out['results']):
                r = tuple(r)
                if r[0] == 'ok':
                    r = ('ok', [[Fraction(x) for x in row] for row in r[1]])
                pl = dict(pl)
                pl['form'] = 'array (NUMBA_DISABLE_JIT=1)'
                record('nojit/%s/%d' % (job['m'], len(cases)), r, model, pl, prop=prop, fkey=fk)
                dist['nojit_cases'] += 1
                ctx.count(('nojit', str(job)), True)
        import numba
        jitted = hasattr(AM._sparse_soergel, 'py_func') and not numba.config.DISABLE_JIT
        ctx.notes.append('in-process Soergel kernels are numba-compiled: %s' % jitted)

    for k in cases[:2] + cases[len(cases) // 3:len(cases) // 3 + 2] + cases[-2:]:
        ctx.sample({'case': k[0], 'input_and_implementation_result': payloads[k[0]], 'check': k[1][:500]})
    nbad = core.compare_cases(ctx, cases, IMPORTS, 'C06 similarity measures', payloads, model_expr=mexpr,
                              finding_key_of=lambda k, pl: fkeys.get(k))
    found_input = found_input or nbad > 0
    ctx.coverage['rule'] = (
        'every generated input is run through every measure and every calling form that applies (fprint_metrics, dispatcher on '
        '(fp,fp) (fp,None) (fp,db) (db,fp) (db,db) (db,None), array_metrics on dense / CSR / mixed, Soergel kernels also with '
        'NUMBA_DISABLE_JIT=1); each call gives a `corr` case (implementation vs model of the code path) and, for lengths <= %d, a '
        '`prop` case (implementation vs definition); a case is non-trivial when both operands are non-empty and differ (arrays: some '
        'non-zero entry); distinct by full input, form and measure' % PROP_MAX_WIDTH)
    ctx.coverage['input_distribution'] = dist
    ctx.assumptions += [
        'array_metrics.tanimoto/dice are called on raw arrays with 0/1 data only (any dtype, explicit zeros, duplicates that add up to 0/1): their docstring states "Data must be binary. This is not checked."; the theorems arr/sp_tanimoto_eq_def carry the hypothesis `binary`',
        'values are non-negative; counts < 2^16 (the uint16 database dtype); float inputs are finite doubles, taken exactly',
        'Pearson with a constant non-zero operand is mathematically 0/0: the array/database forms decide it by round-off (observed: CSR rows [1]*6 against each other give 1.0000000000000002, the dense form 0.0), so those matrix entries are masked; the fingerprint-pair form is compared (exactly representable constants reach its zero-denominator branch and score 0)',
        'database forms of Pearson only for bits <= %d and of Tanimoto/Dice/cosine for bits <= 2^20 (the code densifies, resp. SciPy allocates O(bits): 32 GiB at 2^32); Soergel database forms and all fingerprint-pair forms are run up to 2^32' % PEARSON_DB_MAX_BITS,
        'NumPy/SciPy kernels (dot, sparse product, cdist, corrcoef, sparse norm, sorted_indices, nan_to_num) and numba behave as modelled; exercised by the correspondence only',
        'tolerance 1e-9 (relative above 1); rooted values are compared through the monotone signed square, exactly',
    ]
    if not ok:
        core.report_broken_proof(ctx, res, found_input)


def replay(ctx, path):
    d = json.load(open(path))
    print(json.dumps(d, indent=1)[:6000])
    return 0
