"""C06 - coverage extension of the correspondence/search generators (a part of harness/props/c06.py).

The base streams of c06.py build every operand afresh for every call, from one constructor, with positional arguments, in
three numpy dtypes and C-contiguous storage.  The streams below add the input classes and call sequences that the base
streams never produce (work/coverage_C06.md lists them item by item):

  fpx    fingerprint / database forms with: every ordered pair of kinds, lengths that are not powers of two (1, 2, 3, 5, 7,
         10, 100, 1000), counts up to the uint16 limit, float values below one, named fingerprints, fingerprints built from
         numpy scalars / unsorted and repeated index lists / from_vector (dense and sparse), databases filled in two batches,
         copied with as_type(copy=True) or holding named rows, keyword and mixed keyword/positional calls (A=, B=, fp1=,
         fp2=, explicit None), the SAME object given as both operands;
  rejx   two databases of different length (both orders) - the base stream rejects fp/fp, fp/db and db/fp only;
  arrx   raw arrays in the dtypes int8 ... uint64 / float32, Fortran-ordered, strided (view into a larger array), negatively
         strided and read-only dense arrays, CSR with 64-bit index arrays, zero-row operands, keyword calls (X=, Y=), the same
         object as X and Y, a second operand that shares its buffers with the first, and cosine(assume_binary=True/False,
         keyword and positional) on 0/1 data;
  reuse  call SEQUENCES on operands that are built once: fingerprints, databases (mostly with non-canonical CSR storage) and
         raw arrays go through 12-16 randomly ordered (form, measure) calls; every result is compared with the model of the
         initial content, so a call that canonicalises, casts, caches in or otherwise changes an operand shows in a later call.

Every call gives the same two Coq cases as in c06.py (`corr`: model of the code path, `prop`: the definition on the dense
vectors); the payload carries `ext` (stream, call style, constructors, sequence) and `replay_ext` re-runs it.
"""
import random
from fractions import Fraction

import numpy as np

import core
import fpgen
import metrics_gen as G
from metrics_gen import MEASURES, MCON

# --------------------------------------------------------------------------- dtypes / layouts of raw arrays
NPDT = {'bool': np.bool_, 'int8': np.int8, 'uint8': np.uint8, 'int16': np.int16, 'uint16': np.uint16, 'int32': np.int32,
        'uint32': np.uint32, 'int64': np.int64, 'uint64': np.uint64, 'float32': np.float32, 'float64': np.float64}
# dtypes that hold the values of a base value class exactly (metrics_gen.VALUES: bool 1; int <= 7; float n/d with n <= 250,
# d | 8: exact in float32; floatx: arbitrary doubles)
COMPAT = {'bool': ['bool', 'uint8', 'int8', 'int32', 'float32', 'uint16'],
          'int': ['int8', 'uint8', 'int16', 'uint16', 'int32', 'uint32', 'uint64', 'float32', 'int64'],
          'float': ['float32', 'float32', 'float64'],
          'floatx': ['float64']}
DENSE_ORDERS = ['C', 'F', 'strided', 'negstride', 'readonly']


def build_arr_x(spec):
    """metrics_gen array spec + optional 'npdtype', 'order' (dense), 'idx64' (csr)."""
    from scipy.sparse import csr_matrix
    dt = NPDT[spec.get('npdtype') or {'bool': 'bool', 'int': 'int64', 'float': 'float64'}[spec['dtype']]]
    n, w = len(spec['rows']), spec['w']
    if spec['t'] == 'dense':
        A = np.array([[float(v) for v in r] for r in spec['rows']], dtype=float).reshape(n, w).astype(dt)
        order = spec.get('order', 'C')
        if order == 'F':
            A = np.asfortranarray(A)
        elif order == 'strided':
            big = np.ones((2 * n + 1, 2 * w + 1), dtype=dt)      # the entries around the view are 1, not 0
            big[1::2, 1::2] = A
            A = big[1::2, 1::2]
        elif order == 'negstride':
            A = np.ascontiguousarray(A[::-1, ::-1])[::-1, ::-1]
        elif order == 'readonly':
            A.setflags(write=False)
        return A
    data, indices, indptr = [], [], [0]
    for r in spec['rows']:
        for c, v in r:
            indices.append(c)
            data.append(float(v))
        indptr.append(len(indices))
    it = np.int64 if spec.get('idx64') else np.int32
    M = csr_matrix((np.array(data, dtype=float).astype(dt), np.array(indices, dtype=it), np.array(indptr, dtype=it)), shape=(n, w))
    if spec.get('idx64'):
        M.indices = M.indices.astype(np.int64)
        M.indptr = M.indptr.astype(np.int64)
    return M


def shared_operand(X):
    """A distinct object over the same buffers as X."""
    from scipy.sparse import issparse, csr_matrix
    if issparse(X):
        return csr_matrix((X.data, X.indices, X.indptr), shape=X.shape, copy=False)
    return X[:]


def decorate_arr(rng, vkind, spec):
    """choose a dtype that holds the values exactly, a memory layout / index width; returns a new spec"""
    s = dict(spec)
    s['npdtype'] = rng.choice(COMPAT[{'binfloat': 'bool'}.get(vkind, vkind)])
    if s['t'] == 'dense':
        s['order'] = rng.choice(DENSE_ORDERS)
    else:
        s['idx64'] = rng.random() < 0.5
    return s


def call_arr(m, style, X, Y):
    """one array_metrics call; X, Y: implementation objects (Y None: self comparison)"""
    from e3fp.fingerprint.metrics import array_metrics as AM
    f = getattr(AM, m)
    extra, st = {}, style
    if m == 'cosine' and '+' in style:
        st, ab = style.split('+')
        if ab == 'abpos':
            return f(X, X if st == 'same' else shared_operand(X) if st == 'shared' else Y, True)
        extra = {'assume_binary': ab == 'abT'}
    if st == 'same':
        return f(X, X, **extra)
    if st == 'shared':
        return f(X, shared_operand(X), **extra)
    if Y is None:
        return {'pos': lambda: f(X, **extra), 'kw': lambda: f(X=X, **extra), 'kwY': lambda: f(X, Y=None, **extra)}[st]()
    return {'pos': lambda: f(X, Y, **extra), 'kw': lambda: f(X=X, Y=Y, **extra), 'kwY': lambda: f(X, Y=Y, **extra)}[st]()


def rand_arr_style(rng, m, has_y, binary):
    st = rng.choice(['pos', 'kw', 'kwY']) if has_y else rng.choice(['pos', 'kw', 'kwY', 'same', 'same', 'shared'])
    if m == 'cosine':
        ab = rng.choice(['', 'abF'] + (['abT', 'abT', 'abpos'] if binary else []))
        if ab == 'abpos' and not has_y and st not in ('same', 'shared'):
            st = 'same'
        if ab:
            st += '+' + ab
    return st


def degenerate_corrcoef(X, Y):
    """dense Pearson of ONE row against an operand without rows: np.corrcoef returns a 0-d array and the slicing raises
    IndexError (every other measure and the CSR form return an empty (1, 0) matrix).  Comparing with nothing is outside
    what the property quantifies over; the case is skipped and counted (see findings/repro_cov_c06.py, note_...)."""
    return Y is not None and X['t'] == 'dense' and Y['t'] == 'dense' and len(X['rows']) == 1 and len(Y['rows']) == 0


def zero_row_pair(rng):
    """an operand without rows (dense or CSR) against 0-3 rows"""
    w = rng.choice([1, 3, 4, 8])
    sparse_x, sparse_y = rng.random() < 0.5, rng.random() < 0.5
    ny = rng.choice([0, 1, 2, 3])
    vecs = [[Fraction(rng.choice([0, 1])) for _ in range(w)] for _ in range(ny)]

    def mk(vs, sp):
        if sp:
            return {'t': 'csr', 'dtype': 'float', 'w': w, 'rows': [[(c, x) for c, x in enumerate(v) if x != 0] for v in vs]}
        return {'t': 'dense', 'dtype': 'float', 'w': w, 'rows': vs}
    X, Y = mk([], sparse_x), mk(vecs, sparse_y)
    if rng.random() < 0.5 and ny:
        X, Y = Y, X
    return 'bool', 'zero_rows', X, (None if rng.random() < 0.15 else Y)


# --------------------------------------------------------------------------- fingerprints and databases
FP_CTORS = ['default', 'default', 'numpy', 'vector']


def build_fp_x(spec):
    """fpgen spec + optional 'ctor': 'numpy' (numpy scalars for bits/level/keys/values, unsorted index list with repeats) or
    'vector' (from_vector on a dense or sparse vector; lengths <= 4096 only)."""
    ctor = spec.get('ctor', 'default')
    if ctor == 'default' or (ctor == 'vector' and spec['bits'] > 4096):
        return fpgen.build(spec)
    C = fpgen.classes()[spec['kind']]
    bits, level = spec['bits'], spec.get('level', -1)
    kw = {'name': spec['name']} if spec.get('name') else {}
    counts = None
    if spec['kind'] != 'KBit':
        counts = dict(spec['cnt']) if 'cnt' in spec else {i: spec['idx'].count(i) for i in set(spec['idx'])}
    if ctor == 'numpy':
        lv = level if level is None else np.int64(level)
        if counts is None:
            idx = list(spec['idx']) + list(spec['idx'][:2])
            random.Random(len(idx)).shuffle(idx)
            return C.from_indices([int(i) for i in idx], bits=np.int64(bits), level=lv, **kw)
        vt = np.float64 if spec['kind'] == 'KFloat' else (np.uint16 if all(v < 65536 for v in counts.values()) else np.int64)
        return C.from_counts({np.int64(k): vt(float(v) if spec['kind'] == 'KFloat' else int(v)) for k, v in counts.items()},
                             bits=np.int64(bits), level=lv, **kw)
    # from_vector
    from scipy.sparse import csr_matrix
    v = np.zeros(bits, dtype=C.vector_dtype)
    if counts is None:
        v[np.array(spec['idx'], dtype=np.int64)] = True
    else:
        for k, x in counts.items():
            v[k] = float(x) if spec['kind'] == 'KFloat' else int(x)
    if spec.get('vector_sparse'):
        v = csr_matrix(v.reshape(1, -1))
    return C.from_vector(v, level=level, **kw)


DB_ROUTES = ['plain', 'plain', 'add2', 'copy', 'named']


def build_db_x(spec):
    """metrics_gen database spec + optional 'route': 'add2' (two add_fingerprints batches), 'copy' (as_type(copy=True)),
    'named' (rows carry names, one of them twice)."""
    route = spec.get('route', 'plain')
    if route == 'plain':
        return G.build_db(spec)
    from e3fp.fingerprint.db import FingerprintDatabase
    C = fpgen.classes()[spec['kind']]
    if route == 'copy':
        return G.build_db(spec).as_type(C, copy=True)
    rows = [dict(s) for s in spec['rows']]
    if route == 'named':
        for i, s in enumerate(rows):
            s['name'] = ['mol-1_0', 'x y', 'mol-1_0', 'b.c', 'CHEMBL25_1', 'q'][i % 6]
    fps = [fpgen.build(s) for s in rows]
    db = FingerprintDatabase(fp_type=C, level=spec['level'])
    k = (len(fps) + 1) // 2 if route == 'add2' else len(fps)
    db.add_fingerprints(fps[:k])
    if fps[k:]:
        db.add_fingerprints(fps[k:])
    return db


BIG_COUNTS = [255, 256, 257, 1000, 40000, 65535]
BIG_FLOATS = [Fraction(256), Fraction(2001, 2), Fraction(65536), Fraction(10 ** 6), Fraction(65535)]
SUBUNIT = [Fraction(1, 2), Fraction(1, 4), Fraction(3, 8), Fraction(1, 8), Fraction(7, 8)]
ODD_BITS = [1, 2, 3, 5, 7, 10, 100, 1000]
KIND_PAIRS = [(a, b) for a in fpgen.KINDS for b in fpgen.KINDS if a != b]
NAMES = ['a', 'mol-1_0', 'x y', 'b.c', 'CHEMBL25_1']


def _as_counts(s):
    if 'cnt' not in s:
        s['cnt'] = {i: s['idx'].count(i) for i in set(s['idx'])}
        del s['idx']


def rand_fp_pair_x(rng):
    cls = rng.choice(['mixed_kinds', 'mixed_kinds', 'mixed_kinds', 'oddbits', 'oddbits', 'bigcount', 'named', 'subunit_float', 'ctor'])
    bits = rng.choice([8, 16, 16, 64, 1024])
    ka = rng.choice(fpgen.KINDS)
    kb = ka if rng.random() < 0.6 else rng.choice(fpgen.KINDS)
    if cls == 'mixed_kinds':
        ka, kb = rng.choice(KIND_PAIRS)
    elif cls == 'oddbits':
        bits = rng.choice(ODD_BITS)
    elif cls == 'bigcount':
        ka, kb = rng.choice(['KCount', 'KFloat']), rng.choice(['KCount', 'KFloat', 'KCount', 'KBit'])
    elif cls == 'subunit_float':
        ka, kb = 'KFloat', rng.choice(fpgen.KINDS)
    la, lb = rng.choice([-1, -1, 0, 5, None]), rng.choice([-1, -1, 0, 5, None])
    a = fpgen.rand_spec(rng, kind=ka, bits=bits, level=la, named=False)
    b = None
    while b is None:
        b = fpgen.rand_spec(rng, kind=kb, bits=bits, level=lb, named=False, like=a if rng.random() < 0.75 else None)
    if cls == 'bigcount':
        for s in (a, b):
            if s['kind'] != 'KBit':
                _as_counts(s)
                pool = BIG_COUNTS if s['kind'] == 'KCount' else BIG_FLOATS
                s['cnt'] = {k: (rng.choice(pool) if rng.random() < 0.7 else v) for k, v in s['cnt'].items()}
    elif cls == 'subunit_float':
        for s in (a, b):
            if s['kind'] == 'KFloat':
                s['cnt'] = {k: (rng.choice(SUBUNIT) if rng.random() < 0.7 else v) for k, v in s['cnt'].items()}
    if cls == 'named' or rng.random() < 0.25:
        a['name'] = rng.choice(NAMES)
        if rng.random() < 0.7:
            b['name'] = rng.choice(NAMES)
    for s in (a, b):
        s['ctor'] = rng.choice(FP_CTORS) if cls != 'ctor' else rng.choice(['numpy', 'vector'])
        if s['ctor'] == 'vector':
            s['vector_sparse'] = rng.random() < 0.5
    if rng.random() < 0.5:
        a, b = b, a
    return cls, a, b


def spec_ext(s):
    return {'ctor': s.get('ctor', 'default'), 'vector_sparse': bool(s.get('vector_sparse'))}


def call_fp(form, m, style, A, B, DA, DB):
    """one call of metrics.<m> / fprint_metrics.<m> on the given objects"""
    import e3fp.fingerprint.metrics as M
    from e3fp.fingerprint.metrics import fprint_metrics as FM
    if form == 'fm':
        g = getattr(FM, m)
        return {'pos': lambda: g(A, B), 'kw': lambda: g(fp1=A, fp2=B), 'kwB': lambda: g(A, fp2=B), 'kwrev': lambda: g(fp2=B, fp1=A)}[style]()
    f = getattr(M, m)
    x, y = {'fp,fp': (A, B), 'fp,None': (A, None), 'fp,db': (A, DB), 'db,fp': (DA, B), 'db,db': (DA, DB), 'db,None': (DA, None)}[form]
    if y is None:
        return {'pos': lambda: f(x), 'kw': lambda: f(A=x), 'kwB': lambda: f(x, B=None), 'posNone': lambda: f(x, None)}[style]()
    return {'pos': lambda: f(x, y), 'kw': lambda: f(A=x, B=y), 'kwB': lambda: f(x, B=y), 'kwrev': lambda: f(B=y, A=x)}[style]()


def rand_fp_style(rng, form):
    return rng.choice(['pos', 'kw', 'kwB', 'posNone'] if form.endswith('None') else ['pos', 'kw', 'kwB', 'kwrev'])


# Genuine defect found by this extension (findings/repro_cov_c06.py): fprint_metrics.pearson relies on ZeroDivisionError for
# operands of zero variance; with `bits` stored as a NumPy integer the division is a NumPy one and yields NaN / inf.
NUMPY_BITS_KEY = 'fp-pearson-numpy-int-bits-zero-variance-nan'


def zero_variance(o):
    if o['kind'] == 'KBit':
        return len(o['idx']) in (0, o['bits'])
    vals = [v for _, v in o['cnt'] if v != 0]
    return not vals or (len(vals) == o['bits'] and all(v == vals[0] for v in vals))


def numpy_bits_pearson_key(form, m, ctors, obs, r):
    """The key is attached only to the exact outcome of the defect: fingerprint-pair form of Pearson, NaN/inf returned, an
    operand whose `bits` is a NumPy integer (constructor 'numpy') and an operand of zero variance."""
    if form not in ('fm', 'fp,fp', 'fp,None') or m != 'pearson' or r[0] != 'nan':
        return None
    n = 1 if form == 'fp,None' else 2
    if 'numpy' not in ctors[:n] or not any(zero_variance(o) for o in obs[:n]):
        return None
    return NUMPY_BITS_KEY


def numpy_bits_pearson_key_of_case(c, r):
    """the same decision from a replay payload"""
    e = c.get('ext', {})
    if 'a' not in c or 'b' not in c:
        return None
    a0, b0 = fpgen.obs(fpgen.build(G.fp_from_json(c['a']))), fpgen.obs(fpgen.build(G.fp_from_json(c['b'])))
    cb = e.get('specA' if e.get('alias') else 'specB', {}).get('ctor')
    return numpy_bits_pearson_key(c.get('form'), c.get('measure'), [e.get('specA', {}).get('ctor'), cb], [a0, b0], r)


ALL_FORMS = ('fm', 'fp,fp', 'fp,None', 'fp,db', 'db,fp', 'db,db', 'db,None')
ALIAS_FORMS = ('fm', 'fp,fp', 'db,db')      # forms in which the same object can be given twice


def force_noncanonical(rng, ds, bits):
    if ds['via'] != 'array':
        ds['via'] = 'array'
        ds['perm'] = [rng.randrange(10 ** 6) for _ in ds['rows']]
        ds['zeros'] = [[rng.randrange(0, min(bits, 64)) for _ in range(rng.choice([0, 0, 1, 2]))] for _ in ds['rows']]


# --------------------------------------------------------------------------- the streams
def run_ext(ctx, env):
    """env: record, dist, bump, fp_exprs, arr_exprs, zero_count_key, ncases (callable) of c06.run"""
    rng = ctx.rng
    record, bump = env['record'], env['bump']
    x = env['dist'].setdefault('ext', {})
    for k in ('fpx_class', 'fpx_kinds', 'fpx_bits', 'fpx_ctor', 'fpx_db_route', 'fpx_style', 'fpx_forms', 'arrx_class', 'arrx_dtype',
              'arrx_layout', 'arrx_style', 'reuse_fp_forms', 'reuse_arr_class'):
        x.setdefault(k, {})
    for k in ('fpx_calls', 'fpx_alias_calls', 'fpx_named', 'rejx_calls', 'arrx_calls', 'arrx_assume_binary_true', 'arrx_zero_rows',
              'reuse_fp_sequences', 'reuse_fp_calls', 'reuse_fp_noncanonical_db', 'reuse_arr_sequences', 'reuse_arr_calls',
              'reuse_arr_noncanonical_csr', 'numpy_bits_pearson_nan_outcomes', 'skipped_dense_pearson_one_row_vs_zero_rows'):
        x.setdefault(k, 0)

    def fp_call(tag, cls, form, alias, m, style, objs, obs, pl_extra, nondyadic):
        A, B, DA, DB = objs
        a0, b0, da0, db0 = obs
        if alias and form in ('fm', 'fp,fp'):
            B, b0 = A, a0
        if alias and form == 'db,db':
            DB, db0 = DA, da0
        model, prop, mask, scalar = env['fp_exprs'](form, m, a0, b0, da0 if 'db,' in form else None, db0 if ',db' in form else None)
        if scalar and not nondyadic:
            mask = None
        r = G.observe(lambda: call_fp(form, m, style, A, B, DA, DB))
        pl = {'measure': m, 'class': cls, 'a': fpgen.obs_json(a0), 'b': fpgen.obs_json(b0), 'form': form}
        reuse = pl_extra.get('stream') == 'reuse'       # the whole sequence is replayed: both databases are recorded
        if 'db,' in form or reuse:
            pl['dbA'] = G.db_json(da0)
        if ',db' in form or reuse:
            pl['dbB'] = G.db_json(db0)
        pl['ext'] = dict(pl_extra, style=style, alias=alias)
        fk = env['zero_count_key'](form, m, a0, b0, r)
        cta = pl_extra.get('specA', {}).get('ctor')
        nk = numpy_bits_pearson_key(form, m, [cta, cta if alias else pl_extra.get('specB', {}).get('ctor')], [a0, b0], r)
        x['numpy_bits_pearson_nan_outcomes'] += nk is not None
        record('%s/%s%s/%s/%s/%d' % (tag, form, '=' if alias else '', m, style, env['ncases']()), r, model, pl, prop=prop, fkey=fk, mask=mask,
               nan_key=nk)
        nontriv = bool(a0['idx']) and bool(b0['idx'])
        ctx.count((tag, form, alias, m, style, str(a0), str(b0), str(da0) if 'db' in form else '', str(db0) if 'db' in form else ''), nontriv)

    # ---------------------------------------------------------------- fpx
    for i in range(ctx.n(70, 1500)):
        cls, sa, sb = rand_fp_pair_x(rng)
        a0, b0 = fpgen.obs(build_fp_x(sa)), fpgen.obs(build_fp_x(sb))
        bits = a0['bits']
        bump(x['fpx_class'], cls)
        bump(x['fpx_kinds'], a0['kind'] + '/' + b0['kind'])
        bump(x['fpx_bits'], str(bits))
        bump(x['fpx_ctor'], sa['ctor'])
        bump(x['fpx_ctor'], sb['ctor'])
        x['fpx_named'] += bool(a0['name']) + bool(b0['name'])
        ka = a0['kind'] if rng.random() < 0.6 else rng.choice(fpgen.KINDS)
        kb = b0['kind'] if rng.random() < 0.6 else rng.choice(fpgen.KINDS)
        dsa = G.rand_db_spec(rng, ka, bits, include={k: v for k, v in sa.items() if k not in ('ctor', 'vector_sparse', 'name')})
        dsb = G.rand_db_spec(rng, kb, bits, include={k: v for k, v in sb.items() if k not in ('ctor', 'vector_sparse', 'name')})
        for ds in (dsa, dsb):
            ds['route'] = rng.choice(DB_ROUTES) if ds['via'] == 'add' else rng.choice(['plain', 'plain', 'copy'])
            bump(x['fpx_db_route'], ds['route'] + ('/array' if ds['via'] == 'array' else ''))
        da0, db0 = G.db_obs(build_db_x(dsa)), G.db_obs(build_db_x(dsb))
        ext = {'stream': 'fpx', 'specA': spec_ext(sa), 'specB': spec_ext(sb), 'routeA': dsa['route'], 'routeB': dsb['route']}
        for m in MEASURES:
            for form in ALL_FORMS:
                if rng.random() < 0.45:
                    continue
                alias = form in ALIAS_FORMS and rng.random() < 0.3
                style = rng.choice(['pos', 'kw', 'kwB', 'kwrev']) if form == 'fm' else rand_fp_style(rng, form)
                objs = (build_fp_x(sa), build_fp_x(sb), build_db_x(dsa), build_db_x(dsb))
                fp_call('x%d' % i, cls, form, alias, m, style, objs, (a0, b0, da0, db0), ext, False)
                x['fpx_calls'] += 1
                x['fpx_alias_calls'] += alias
                bump(x['fpx_style'], style)
                bump(x['fpx_forms'], form + ('=' if alias else ''))

    # ---------------------------------------------------------------- rejx: two databases of different length
    import e3fp.fingerprint.metrics as M
    for i in range(ctx.n(12, 150)):
        sa = fpgen.rand_spec(rng, bits=rng.choice([4, 8, 16, 1024]), named=False)
        sb = fpgen.rand_spec(rng, bits=rng.choice([5, 32, 64, 2 ** 20]), named=False)
        if rng.random() < 0.5:
            sa, sb = sb, sa
        dsa = G.rand_db_spec(rng, sa['kind'], sa['bits'], include=sa)
        dsb = G.rand_db_spec(rng, sb['kind'], sb['bits'], include=sb)
        da0, db0 = G.db_obs(G.build_db(dsa)), G.db_obs(G.build_db(dsb))
        m = rng.choice(MEASURES)
        style = rng.choice(['pos', 'kw', 'kwB', 'kwrev'])
        model = env['fp_exprs']('db,db', m, None, None, da0, db0)[0]
        r = G.observe(lambda: call_fp('db,db', m, style, None, None, G.build_db(dsa), G.build_db(dsb)))
        pl = {'measure': m, 'class': 'length-mismatch', 'form': 'db,db', 'dbA': G.db_json(da0), 'dbB': G.db_json(db0),
              'ext': {'stream': 'rejx', 'style': style, 'alias': False}}
        record('rejx/db,db/%s/%d' % (m, env['ncases']()), r, model, pl)
        x['rejx_calls'] += 1
        ctx.count(('rejx', m, str(da0), str(db0)), True)

    # ---------------------------------------------------------------- arrx
    def arr_setup():
        if rng.random() < 0.08:
            vkind, cls, X, Y = zero_row_pair(rng)
            x['arrx_zero_rows'] += 1
        else:
            cls, X, Y = G.rand_arr_pair(rng, {})
            vkind = cls.split('/')[0]
        X = decorate_arr(rng, vkind, X)
        Y = None if Y is None else decorate_arr(rng, vkind, Y)
        fl = G.arr_flags(X)
        if Y is not None:
            fy = G.arr_flags(Y)
            fl = {k: fl[k] or fy[k] for k in fl}
        return cls, X, Y, fl

    def arr_record(tag, cls, m, style, X, Y, fl, r, ext):
        model, prop, mask = env['arr_exprs'](m, X, Y, False)
        pl = {'measure': m, 'class': cls, 'X': G.arr_json(X), 'Y': None if Y is None else G.arr_json(Y), 'form': 'array', 'flags': fl,
              'ext': dict(ext, style=style)}
        record('%s/%s/%s/%d' % (tag, m, style, env['ncases']()), r, model, pl, prop=prop, mask=mask)
        ctx.count((tag, m, style, str(X), str(Y)), any(any(v != 0 for v in r_) for r_ in G.arr_vecs(X)))

    for i in range(ctx.n(110, 3000)):
        cls, X, Y, fl = arr_setup()
        bump(x['arrx_class'], cls)
        for s in (X, Y):
            if s is not None:
                bump(x['arrx_dtype'], s['npdtype'])
                bump(x['arrx_layout'], s.get('order', 'csr-idx64' if s.get('idx64') else 'csr-idx32'))
        for m in MEASURES:
            if m in ('tanimoto', 'dice') and fl['nonbinary']:
                continue
            if m == 'pearson' and degenerate_corrcoef(X, Y):
                x['skipped_dense_pearson_one_row_vs_zero_rows'] += 1
                continue
            style = rand_arr_style(rng, m, Y is not None, not fl['nonbinary'])
            r = G.observe(lambda: call_arr(m, style, build_arr_x(X), None if Y is None else build_arr_x(Y)))
            arr_record('ax%d' % i, cls, m, style, X, Y, fl, r, {'stream': 'arrx'})
            x['arrx_calls'] += 1
            x['arrx_assume_binary_true'] += style.endswith(('abT', 'abpos'))
            bump(x['arrx_style'], style)

    # ---------------------------------------------------------------- reuse: fingerprints and databases built once
    for i in range(ctx.n(28, 500)):
        while True:
            cls, sa, sb = G.rand_fp_pair(rng, {})
            if sa['bits'] <= 1024:
                break
        A, B = fpgen.build(sa), fpgen.build(sb)
        a0, b0 = fpgen.obs(A), fpgen.obs(B)
        bits = a0['bits']
        ka = a0['kind'] if rng.random() < 0.7 else rng.choice(fpgen.KINDS)
        kb = b0['kind'] if rng.random() < 0.7 else rng.choice(fpgen.KINDS)
        dsa, dsb = G.rand_db_spec(rng, ka, bits, include=sa), G.rand_db_spec(rng, kb, bits, include=sb)
        for ds in (dsa, dsb):
            if rng.random() < 0.6:
                force_noncanonical(rng, ds, bits)
            x['reuse_fp_noncanonical_db'] += ds['via'] == 'array'
        DA, DB = G.build_db(dsa), G.build_db(dsb)
        da0, db0 = G.db_obs(DA), G.db_obs(DB)
        seq = []
        for step in range(ctx.n(14, 24)):
            form = rng.choice(ALL_FORMS[3:] + ALL_FORMS)            # database forms twice as often
            m = rng.choice(MEASURES)
            alias = form in ALIAS_FORMS and rng.random() < 0.2
            style = rng.choice(['pos', 'kw', 'kwB', 'kwrev']) if form == 'fm' else rand_fp_style(rng, form)
            seq.append([form, m, style, alias])
            fp_call('ru%d.%d' % (i, step), cls, form, alias, m, style, (A, B, DA, DB), (a0, b0, da0, db0),
                    {'stream': 'reuse', 'sequence': [list(s) for s in seq]}, cls == 'nondyadic_float')
            x['reuse_fp_calls'] += 1
            bump(x['reuse_fp_forms'], form + ('=' if alias else ''))
        x['reuse_fp_sequences'] += 1

    # ---------------------------------------------------------------- reuse: raw arrays built once
    for i in range(ctx.n(28, 500)):
        cls, X, Y, fl = arr_setup()
        XO, YO = build_arr_x(X), (None if Y is None else build_arr_x(Y))
        bump(x['reuse_arr_class'], cls)
        x['reuse_arr_noncanonical_csr'] += bool(fl['unsorted'] or fl['dups'])
        seq = []
        for step in range(ctx.n(12, 20)):
            m = rng.choice([m_ for m_ in MEASURES if not (m_ in ('tanimoto', 'dice') and fl['nonbinary'])
                            and not (m_ == 'pearson' and degenerate_corrcoef(X, Y))])
            style = rand_arr_style(rng, m, Y is not None, not fl['nonbinary'])
            seq.append([m, style])
            r = G.observe(lambda: call_arr(m, style, XO, YO))
            arr_record('ra%d.%d' % (i, step), cls, m, style, X, Y, fl, r, {'stream': 'reuse_arr', 'sequence': [list(s) for s in seq]})
            x['reuse_arr_calls'] += 1
        x['reuse_arr_sequences'] += 1


# --------------------------------------------------------------------------- replay of an `ext` case
def replay_ext(ctx, c, env):
    """Re-run the recorded extended case; returns (r, model, prop, mask, finding key)."""
    e = c['ext']
    m, form = c['measure'], c['form']
    if e['stream'] in ('arrx', 'reuse_arr'):
        X = G.arr_from_json(c['X'])
        Y = None if c.get('Y') is None else G.arr_from_json(c['Y'])
        model, prop, mask = env['arr_exprs'](m, X, Y, False)
        if e['stream'] == 'arrx':
            r = G.observe(lambda: call_arr(m, e['style'], build_arr_x(X), None if Y is None else build_arr_x(Y)))
        else:
            XO, YO = build_arr_x(X), (None if Y is None else build_arr_x(Y))
            r = None
            for m_, style in e['sequence']:
                r = G.observe(lambda: call_arr(m_, style, XO, YO))
        return r, model, prop, mask, None
    sa = G.fp_from_json(c['a']) if 'a' in c else None
    sb = G.fp_from_json(c['b']) if 'b' in c else None
    if sa is not None:
        sa.update(e.get('specA', {}))
    if sb is not None:
        sb.update(e.get('specB', {}))
    mk_a = (lambda: build_fp_x(sa)) if sa else (lambda: None)
    mk_b = (lambda: build_fp_x(sb)) if sb else (lambda: None)
    da0, mk_da = G.db_from_json(c['dbA']) if 'dbA' in c else (None, lambda: None)
    db0, mk_db = G.db_from_json(c['dbB']) if 'dbB' in c else (None, lambda: None)
    a0 = fpgen.obs(mk_a()) if sa else None
    b0 = fpgen.obs(mk_b()) if sb else None

    def one(form_, m_, style, alias, objs):
        A, B, DA, DB = objs
        if alias and form_ in ('fm', 'fp,fp'):
            B = A
        if alias and form_ == 'db,db':
            DB = DA
        return G.observe(lambda: call_fp(form_, m_, style, A, B, DA, DB))
    alias = bool(e.get('alias'))
    if e['stream'] == 'reuse':
        objs = (mk_a(), mk_b(), mk_da(), mk_db())
        r = None
        for form_, m_, style, al in e['sequence']:
            r = one(form_, m_, style, al, objs)
    else:
        r = one(form, m, e['style'], alias, (mk_a(), mk_b(), mk_da(), mk_db()))
    b0m = a0 if alias and form in ('fm', 'fp,fp') else b0
    db0m = da0 if alias and form == 'db,db' else db0
    model, prop, mask, scalar = env['fp_exprs'](form, m, a0 if form.startswith(('fm', 'fp')) else None,
                                                b0m if (form in ('fm', 'fp,fp') or form.endswith(',fp')) else None,
                                                da0 if 'db,' in form else None, db0m if ',db' in form else None)
    if scalar and c.get('class') != 'nondyadic_float':
        mask = None
    fk = None
    if a0 is not None and (b0m is not None or form == 'fp,None'):
        fk = env['zero_count_key'](form, m, a0, b0m, r)
    return r, model, prop, mask, fk
