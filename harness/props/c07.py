"""C07 - folding is index reduction and commutes with every route to a folded result (Properties/C07.v).

This module owns the *fingerprint* part (model M2: fp_fold / fp_fold_cm / unfold_map / folding_map of Model/Fprint.v).
Other routes of the property are separate parts, each a callable `part(ctx) -> found_input(bool)`:
    props/c07_db.py        (FingerprintDatabase.fold: row-wise fold, source rows unchanged)       -- hook point
    props/c07_fprinter.py  (get_fingerprint_at_level(bits=b) = fold of the 2^32 fingerprint)       -- hook point
    props/c07_extra.py     (sources that are copies / conversions / operator results / database rows, attached props and
                            index_id_map, user-supplied reducers, long chains)                      -- coverage extension
They are imported below when present and appended to PARTS; `run` calls every part.
"""
import importlib
import importlib.util
import itertools
from fractions import Fraction
import core
import fpgen
from fpgen import obs, lit, attempt, result_lit, build

IMPORTS = ['From Coq Require Import QArith.', 'From E3FP Require Import Base.Prelude Base.ZSet Model.Fprint.']
TOL = '(Qmake 1 1000000000)'
TOLF = Fraction(1, 10 ** 9)
CM = {'sum': ('CMSum', sum), 'max': ('CMMax', max), 'min': ('CMMin', min)}
KEY_STALE = 'fold-cache:counts_method-rewrites-earlier-result'
FOLD_BITS_DEF = 1024          # documented default of fold(bits=...); compared with the library constant in part_fingerprint


def fold_call(form, nb, method):
    """The documented ways of writing one and the same fold call.  Returns a function of the source object, or None when
    the form cannot express (nb, method) (defaults only stand for their documented values)."""
    import numpy as np
    if form == 'pos':
        return lambda a: a.fold(nb, method)
    if form == 'kw':
        return lambda a: a.fold(bits=nb, method=method)
    if form == 'kw_rev':
        return lambda a: a.fold(method=method, linked=True, bits=nb)
    if form == 'pos_linked':
        return lambda a: a.fold(nb, method, True)
    if form == 'default_method':
        return (lambda a: a.fold(nb)) if method == 0 else None
    if form == 'default_bits':
        return (lambda a: a.fold()) if (nb, method) == (FOLD_BITS_DEF, 0) else None
    if form == 'default_bits_kw_method':
        return (lambda a: a.fold(method=method)) if nb == FOLD_BITS_DEF else None
    if form == 'np64':
        return lambda a: a.fold(np.int64(nb), np.int64(method))
    if form == 'np32':
        return (lambda a: a.fold(np.int32(nb), method)) if -2 ** 31 <= nb < 2 ** 31 else None
    if form == 'npintp':
        return lambda a: a.fold(bits=np.intp(nb), method=np.int8(method) if -128 <= method < 128 else method)
    raise ValueError(form)


FORMS = ('kw', 'kw_rev', 'pos_linked', 'default_method', 'default_bits', 'default_bits_kw_method', 'np64', 'np32', 'npintp')


# --------------------------------------------------------------------------- observation helpers
def umap_obs(d):
    return None if d is None else sorted((int(j), sorted(int(i) for i in s)) for j, s in d.items())


def fmap_obs(d):
    return None if d is None else sorted((int(i), int(j)) for i, j in d.items())


def umap_lit(u):
    return core.listlit(['(%s, %s)' % (core.zlit(j), core.zlist(s)) for j, s in u])


def fmap_lit(f):
    return core.listlit(['(%s, %s)' % (core.zlit(i), core.zlit(j)) for i, j in f])


def exact_sums(oa):
    """True when every sum of the source's values is exact in double precision whatever the order of summation: the values are
    multiples of 2^-k and the sum of their magnitudes stays below 2^(53-k).  Then no tolerance is granted (a result that is
    rounded, truncated or accumulated in lower precision differs), otherwise the relative 1e-9 of the assumptions applies."""
    vals = [v for _, v in oa['cnt']]
    if not vals:
        return True
    k = max(v.denominator for v in vals)            # Fractions of floats: denominators are powers of two
    return k & (k - 1) == 0 and sum(abs(v) for v in vals) * k < 2 ** 53


def tol_of(oa):
    return ('(Qmake 0 1)', Fraction(0)) if exact_sums(oa) else (TOL, TOLF)


def obs_close(o1, o2, tolf=TOLF):
    """Equality of two implementation observations, float counts within tolerance."""
    if any(o1[k] != o2[k] for k in ('kind', 'bits', 'level', 'idx', 'name')):
        return False
    if [k for k, _ in o1['cnt']] != [k for k, _ in o2['cnt']]:
        return False
    for (_, x), (_, y) in zip(o1['cnt'], o2['cnt']):
        if abs(x - y) > tolf * max(1, abs(y)):
            return False
    return True


def chains(bits):
    """all (nb, mid) with nb | mid | bits, the quotients powers of two (nb <= mid <= bits)."""
    lens = []
    b = bits
    while True:
        lens.append(b)
        if b % 2:
            break
        b //= 2
    return [(nb, mid) for mid in lens for nb in lens if nb <= mid]


def small_spec(rng, kind, bits, subset, level, name):
    spec = {'kind': kind, 'bits': bits, 'level': level}
    if name:
        spec['name'] = name
    if kind == 'KBit':
        spec['idx'] = list(subset)
    elif kind == 'KCount':
        spec['cnt'] = {i: rng.choice([1, 1, 2, 3, 7, 200]) for i in subset}
    else:
        spec['cnt'] = {i: Fraction(rng.choice([1, 2, 3, 5, 9, 250]), rng.choice([1, 1, 2, 4, 8, 2 ** 30])) for i in subset}
    return spec


# --------------------------------------------------------------------------- the fingerprint part
class Runner(object):
    """Builds the cases of the fingerprint part (implementation run now, model comparison deferred to `compare`).
    Every payload carries a `replay` entry from which `replay()` re-runs exactly that case."""

    def __init__(self, ctx):
        self.ctx = ctx
        self.cases, self.payloads, self.mexpr = [], {}, {}
        self.found = False
        self.dist = {'fold_cases': 0, 'exhaustive_sources': 0, 'sampled_sources': 0, 'negative_or_large_sources': 0, 'two_step_checks': 0,
                     'rejections': 0, 'option_cases': 0, 'stale_result_checks': 0, 'by_kind': {}, 'by_method': {0: 0, 1: 0},
                     'collisions': 0, 'bits_seen': set(), 'by_form': {}}

    def add_case(self, key, expr, payload, model_out):
        self.cases.append((key, expr))
        self.payloads[key] = payload
        self.mexpr[key] = model_out

    def fail(self, what, payload, key=None):
        self.found = True
        self.ctx.fail(what, payload, finding_key=key)

    def fold_case(self, tag, spec, nb, method, form='pos'):
        """One fold on a fresh source: result, both index maps, source unchanged, repeat call equal."""
        rp = {'type': 'fold', 'tag': tag, 'spec': fpgen.spec_to_json(spec), 'nb': nb, 'method': method, 'form': form}
        return self.fold_obj(tag, build(spec), nb, method, rp, form=form)

    def fold_obj(self, tag, a, nb, method, rp, form='pos', fresh=True, linked_to_source=True):
        """The checks of one fold call on the source object `a` (any fingerprint object; the model gets its observation).
        fresh: `a` has never been folded (then its folding map must be the one of this call and a rejected call must leave no
        trace); linked_to_source: the result must unfold to `a` itself."""
        ctx, dist = self.ctx, self.dist
        call = fold_call(form, nb, method)
        if call is None:
            raise ValueError('call form %r cannot express fold(%r, %r)' % (form, nb, method))
        oa = obs(a)
        cache0 = dict(a.folded_fingerprint)
        fmap0 = fmap_obs(a.get_folding_index_map())
        r = attempt(lambda: call(a))
        pl = {'source': fpgen.obs_json(oa), 'fold_bits': nb, 'method': method, 'call_form': form, 'replay': rp}
        dist['by_form'][form] = dist['by_form'].get(form, 0) + 1
        la = lit(oa)
        key = '%s/fold/%d' % (tag, len(self.cases))
        if form.startswith('np') and nb == 0:
            # numpy scalars divide by zero without raising (inf, then "not a power of two"); a Python 0 raises ZeroDivisionError
            # (the model's EOther).  Both reject; which class is a property of numpy scalar arithmetic, not of fold.
            dist['rejections'] += 1
            ctx.count(('rej-np0', str(oa), method), True)
            if r[0] != 'err' or r[1] not in ('EBits', 'EOther') or obs(a) != oa or dict(a.folded_fingerprint) != cache0:
                self.fail('fold to length 0 (numpy integer) was not rejected cleanly', dict(pl, impl=str(r[1])))
            return None
        if r[0] == 'err' and rp.get('expected_key') and r[1].startswith('EUnexpected_'):
            # an exception class that is no outcome of fold at all, on an input class that has its own finding key
            self.fail('fold raised %s' % r[1][12:], dict(pl, impl=r[1]), key=rp['expected_key'])
            return None
        if r[0] == 'err':
            self.add_case(key, 'result_eqb fp_obs_eqb (fp_fold %s %s %s) (Raises %s)' % (la, core.zlit(nb), core.zlit(method), r[1]),
                          dict(pl, impl=r[1]), 'fp_fold %s %s %s' % (la, core.zlit(nb), core.zlit(method)))
            dist['rejections'] += 1
            ctx.count(('rej', str(oa), nb, method), True)
            if obs(a) != oa:
                self.fail('source changed by a rejected fold', dict(pl, after=fpgen.obs_json(obs(a))))
            if dict(a.folded_fingerprint) != cache0 or any(a.folded_fingerprint[k] is not v for k, v in cache0.items()) \
                    or fmap_obs(a.get_folding_index_map()) != fmap0:
                self.fail('a rejected fold left a trace on the source (folded-fingerprint cache or folding index map changed)',
                          dict(pl, cache_keys_before=sorted(map(str, cache0)), cache_keys_after=sorted(map(str, a.folded_fingerprint)),
                               folding_map_before=fmap0, folding_map_after=fmap_obs(a.get_folding_index_map())))
            return None
        fobj = r[1]
        of = obs(fobj)
        um, fm = umap_obs(fobj.get_unfolding_index_map()), fmap_obs(a.get_folding_index_map())
        pl.update(impl=fpgen.obs_json(of), unfolding_map=um, folding_map=fm)
        if um is None or (fresh and fm is None):
            self.fail('fold did not record its index maps', pl, key=rp.get('expected_key'))
            if rp.get('expected_key'):
                return None
            um, fm = um or [], fm or []
        expr = ('let a := %s in result_eqb (fp_obs_close %s) (fp_fold a %s %s) (Ok %s) && umap_eqb (unfold_map a %s %s) %s'
                % (la, tol_of(oa)[0], core.zlit(nb), core.zlit(method), lit(of), core.zlit(nb), core.zlit(method), umap_lit(um)))
        if fresh:           # the source's own map is the one of the last fold that was not served from its cache
            expr += ' && fmap_eqb (folding_map a %s %s) %s' % (core.zlit(nb), core.zlit(method), fmap_lit(fm))
        self.add_case(key, expr, pl, 'let a := %s in (fp_fold a %s %s, unfold_map a %s %s, folding_map a %s %s)'
                      % (la, core.zlit(nb), core.zlit(method), core.zlit(nb), core.zlit(method), core.zlit(nb), core.zlit(method)))
        collide = len(of['idx']) < len(oa['idx'])
        dist['collisions'] += collide
        dist['fold_cases'] += 1
        dist['by_kind'][oa['kind']] = dist['by_kind'].get(oa['kind'], 0) + 1
        dist['by_method'][method] += 1
        dist['bits_seen'].add(oa['bits'])
        ctx.count(('fold', str(oa), nb, method), collide and nb < oa['bits'])
        # implementation-only parts of the property
        if fobj is a:
            self.fail('fold returned the source object itself', pl)
        if obs(a) != oa:
            self.fail('source fingerprint changed by fold', dict(pl, after=fpgen.obs_json(obs(a))))
        if linked_to_source and fobj.unfold() is not a:
            self.fail('linked fold result does not unfold to its source', pl, key=rp.get('expected_key'))
        if linked_to_source and a.folded_fingerprint.get((nb, method)) is not fobj:
            self.fail('linked fold result is not the one the source keeps for (bits, method)', pl)
        again = attempt(lambda: call(a))
        if again[0] != 'ok' or obs(again[1]) != of or umap_obs(again[1].get_unfolding_index_map()) != um:
            self.fail('second identical fold call returned a different result', dict(pl, second=str(again)))
        if obs(fobj) != of or obs(a) != oa:
            self.fail('first fold result or source changed by the second identical call', pl)
        return a, fobj, of

    def two_step(self, spec, nb, mid, method):
        """fold(mid) then fold(nb) against fold(nb), on the implementation itself (fresh sources)."""
        rp = {'type': 'two_step', 'spec': fpgen.spec_to_json(spec), 'nb': nb, 'mid': mid, 'method': method}
        a1, a2 = build(spec), build(spec)
        o0 = obs(a1)
        r1 = attempt(lambda: obs(a1.fold(mid, method).fold(nb, method)))
        r2 = attempt(lambda: obs(a2.fold(nb, method)))
        self.dist['two_step_checks'] += 1
        self.ctx.count(('2step', str(o0), nb, mid, method), nb < mid < o0['bits'])
        if r1[0] != 'ok' or r2[0] != 'ok' or not obs_close(r1[1], r2[1], tol_of(o0)[1]):
            self.fail('two-step fold differs from one-step fold', {'source': fpgen.obs_json(o0), 'mid': mid, 'fold_bits': nb, 'method': method,
                      'two_step': fpgen.obs_json(r1[1]) if r1[0] == 'ok' else r1[1],
                      'one_step': fpgen.obs_json(r2[1]) if r2[0] == 'ok' else r2[1], 'replay': rp})
        if obs(a1) != o0:
            self.fail('source changed by two-step fold', {'source': fpgen.obs_json(o0), 'mid': mid, 'fold_bits': nb, 'method': method, 'replay': rp})

    def option_cases(self, tag, spec, nb, method):
        """linked=False and counts_method on fresh sources (model: the same fold function / fp_fold_cm)."""
        ctx, dist = self.ctx, self.dist
        rp = {'type': 'options', 'tag': tag, 'spec': fpgen.spec_to_json(spec), 'nb': nb, 'method': method}
        a = build(spec)
        oa = obs(a)
        la = lit(oa)
        r = attempt(lambda: a.fold(nb, method, linked=False))
        pl = {'source': fpgen.obs_json(oa), 'fold_bits': nb, 'method': method, 'option': 'linked=False', 'replay': rp}
        key = '%s/unlinked/%d' % (tag, len(self.cases))
        if r[0] == 'ok':
            u = r[1]
            pl['impl'] = fpgen.obs_json(obs(u))
            if u.unfold() is not None or a.folded_fingerprint:
                self.fail('linked=False still linked the folded fingerprint', pl)
            um = umap_obs(u.get_unfolding_index_map()) or []
            self.add_case(key, 'let a := %s in result_eqb (fp_obs_close %s) (fp_fold a %s %s) (Ok %s) && umap_eqb (unfold_map a %s %s) %s'
                          % (la, tol_of(oa)[0], core.zlit(nb), core.zlit(method), lit(obs(u)), core.zlit(nb), core.zlit(method), umap_lit(um)),
                          pl, 'fp_fold %s %s %s' % (la, core.zlit(nb), core.zlit(method)))
        else:
            pl['impl'] = r[1]
            self.add_case(key, 'result_eqb fp_obs_eqb (fp_fold %s %s %s) (Raises %s)' % (la, core.zlit(nb), core.zlit(method), r[1]),
                          pl, 'fp_fold %s %s %s' % (la, core.zlit(nb), core.zlit(method)))
        if obs(a) != oa:
            self.fail('source changed by fold(linked=False)', pl)
        dist['option_cases'] += 1
        ctx.count(('unlinked', str(oa), nb, method), True)
        for cmname in ('sum', 'max', 'min'):
            cmc, cmf = CM[cmname]
            b = build(spec)
            r = attempt(lambda: b.fold(nb, method, counts_method=cmf))
            pl = {'source': fpgen.obs_json(oa), 'fold_bits': nb, 'method': method, 'option': 'counts_method=' + cmname, 'replay': rp}
            key = '%s/cm-%s/%d' % (tag, cmname, len(self.cases))
            m = 'fp_fold_cm %s %s %s %s' % (cmc, la, core.zlit(nb), core.zlit(method))
            if r[0] == 'ok':
                pl['impl'] = fpgen.obs_json(obs(r[1]))
                self.add_case(key, 'result_eqb (fp_obs_close %s) (%s) (Ok %s)' % (tol_of(oa)[0], m, lit(obs(r[1]))), pl, m)
            else:
                pl['impl'] = r[1]
                self.add_case(key, 'result_eqb fp_obs_eqb (%s) (Raises %s)' % (m, r[1]), pl, m)
            if obs(b) != oa:
                self.fail('source changed by fold(counts_method=%s)' % cmname, pl)
            dist['option_cases'] += 1
            ctx.count(('cm', cmname, str(oa), nb, method), True)
        # the two options together, written with keywords: unlinked AND reduced with max / min
        for cmname in ('max', 'min'):
            cmc, cmf = CM[cmname]
            b = build(spec)
            r = attempt(lambda: b.fold(bits=nb, method=method, counts_method=cmf, linked=False))
            pl = {'source': fpgen.obs_json(oa), 'fold_bits': nb, 'method': method, 'option': 'linked=False, counts_method=' + cmname, 'replay': rp}
            key = '%s/unlinked-cm-%s/%d' % (tag, cmname, len(self.cases))
            m = 'fp_fold_cm %s %s %s %s' % (cmc, la, core.zlit(nb), core.zlit(method))
            if r[0] == 'ok':
                pl['impl'] = fpgen.obs_json(obs(r[1]))
                um = umap_obs(r[1].get_unfolding_index_map())
                self.add_case(key, 'result_eqb (fp_obs_close %s) (%s) (Ok %s) && umap_eqb (unfold_map %s %s %s) %s'
                              % (tol_of(oa)[0], m, lit(obs(r[1])), la, core.zlit(nb), core.zlit(method), umap_lit(um or [])), pl, m)
                if um is None or r[1].unfold() is not None or b.folded_fingerprint:
                    self.fail('fold(linked=False, counts_method=%s) linked its result or recorded no index map' % cmname, pl)
            else:
                pl['impl'] = r[1]
                self.add_case(key, 'result_eqb fp_obs_eqb (%s) (Raises %s)' % (m, r[1]), pl, m)
            if obs(b) != oa:
                self.fail('source changed by fold(linked=False, counts_method=%s)' % cmname, pl)
            dist['option_cases'] += 1
            ctx.count(('ucm', cmname, str(oa), nb, method), True)

    def stale_check(self, spec, nb, method, order_seed):
        """A result handed out earlier must keep its value whatever is folded from the same source afterwards, and every
        later call must give what the same call gives on a fresh copy of the source (the cache returns the same object
        for the same (bits, method) and CountFingerprint.fold re-assigns its counts on every call).

        The known-finding key KEY_STALE is used for exactly one outcome: the object returned by the first call now shows
        the counts of a later call on the same (bits, method) that used a DIFFERENT counts_method than the call that last
        wrote it, that later call's own result being correct (equal to the fresh-source result), and nothing but the
        counts having changed.  Everything else is an unkeyed violation.  All remaining calls are still checked."""
        import random
        rp = {'type': 'stale', 'spec': fpgen.spec_to_json(spec), 'nb': nb, 'method': method, 'order_seed': order_seed}
        a = build(spec)
        oa = obs(a)
        r = attempt(lambda: a.fold(nb, method))
        if r[0] != 'ok':
            return
        first = r[1]
        snap = obs(first)
        um = umap_obs(first.get_unfolding_index_map())
        self.dist['stale_result_checks'] += 1
        self.ctx.count(('stale', str(oa), nb, method, order_seed), True)
        others = sorted(set(c[0] for c in chains(oa['bits'])))
        # (description, reducer that writes the cached (nb, method) object or None, action)
        later = [('fold(%d, %d)' % (b2, m2), 'sum' if (b2, m2) == (nb, method) else None, (lambda src, b2=b2, m2=m2: src.fold(b2, m2)))
                 for b2 in others[-3:] for m2 in (0, 1)]
        later.append(('fold(%d, %d, linked=False)' % (nb, method), 'sum', lambda src: src.fold(nb, method, linked=False)))
        if oa['kind'] != 'KBit':
            later += [('fold(%d, %d, counts_method=%s)' % (nb, method, n), n, (lambda src, f=f: src.fold(nb, method, counts_method=f)))
                      for n, (_, f) in CM.items()]
        # rejected calls in between: they must raise what they raise on a fresh source and leave every earlier result alone
        bits0 = oa['bits']
        for b2, m2 in ((bits0 * 2, method), (3 if bits0 % 3 else 5, method), (nb, 2), (0, 0), (-nb, method)):
            later.append(('fold(%d, %d) [rejected]' % (b2, m2), None, (lambda src, b2=b2, m2=m2: src.fold(b2, m2))))
        random.Random(order_seed).shuffle(later)
        later.append(('fold(%d, %d) [again, last]' % (nb, method), 'sum', lambda src: src.fold(nb, method)))   # a cache hit after all the others
        writer = 'sum'              # reducer of the call that last wrote the cached object's counts
        history = ['fold(%d, %d)' % (nb, method)]
        for what, reducer, act in later:
            trace0 = (dict(a.folded_fingerprint), fmap_obs(a.get_folding_index_map()))
            got = attempt(lambda: obs(act(a)))
            want = attempt(lambda: obs(act(build(spec))))       # history independence: same call on a fresh copy of the source
            history.append(what)
            if what.endswith('[rejected]') and got[0] == 'err':
                trace1 = (dict(a.folded_fingerprint), fmap_obs(a.get_folding_index_map()))
                if set(trace1[0]) != set(trace0[0]) or any(trace1[0][k] is not v for k, v in trace0[0].items()) or trace1[1] != trace0[1]:
                    self.fail('a rejected fold changed what the source keeps from earlier folds (cache entries or folding index map)',
                              {'source': fpgen.obs_json(oa), 'calls_so_far': history[:], 'rejected_call': what, 'replay': rp})
            call_ok = got[0] == want[0] and (obs_close(got[1], want[1], tol_of(oa)[1]) if got[0] == 'ok' else got[1] == want[1])
            if not call_ok:
                self.fail('%s on a source that was folded before differs from the same call on a fresh source' % what,
                          {'source': fpgen.obs_json(oa), 'calls_so_far': history[:], 'call': what,
                           'on_used_source': fpgen.obs_json(got[1]) if got[0] == 'ok' else got[1],
                           'on_fresh_source': fpgen.obs_json(want[1]) if want[0] == 'ok' else want[1], 'replay': rp})
            now = obs(first)
            now_um = umap_obs(first.get_unfolding_index_map())
            if now != snap or now_um != um:
                only_counts = all(now[k] == snap[k] for k in ('kind', 'bits', 'level', 'idx', 'name')) and now_um == um
                known = (reducer is not None and reducer != writer and call_ok and got[0] == 'ok' and only_counts
                         and obs_close(now, got[1]))
                self.fail('a fold result returned earlier changed after a later %s on the same source' % what,
                          {'source': fpgen.obs_json(oa), 'first_call': 'fold(%d, %d)' % (nb, method), 'calls_so_far': history[:],
                           'first_result_before_this_call': fpgen.obs_json(snap), 'later_call': what, 'first_result_now': fpgen.obs_json(now),
                           'reducer_that_last_wrote_it': writer, 'reducer_of_this_call': reducer, 'replay': rp},
                          key=KEY_STALE if known else None)
                snap, um = now, now_um          # judge the remaining calls one by one
            if reducer is not None and got[0] == 'ok':
                writer = reducer
            if obs(a) != oa:
                self.fail('source changed by %s' % what, {'source': fpgen.obs_json(oa), 'calls_so_far': history[:], 'later_call': what, 'replay': rp})
                oa = obs(a)

    def compare(self):
        nbad = core.compare_cases(self.ctx, self.cases, IMPORTS, 'C07 fingerprint fold', self.payloads, model_expr=self.mexpr,
                                  finding_key_of=lambda k, pl: 'fold:%s' % k.split('/')[1])
        self.found = self.found or nbad > 0
        return nbad


def part_fingerprint(ctx):
    rng = ctx.rng
    R = Runner(ctx)
    dist = R.dist

    # 1. exhaustive: every index subset for small lengths (incl. lengths with an odd factor), all kinds, both methods,
    #    every target length of the chain; two-step folds for every chain
    small = ctx.n([1, 2, 3, 4, 6, 8], [1, 2, 3, 4, 6, 8, 12])
    for bits in small:
        subsets = [[i for i in range(bits) if (m >> i) & 1] for m in range(2 ** bits)]
        if bits >= 8 and ctx.quick:
            subsets = subsets[:16] + rng.sample(subsets[16:], 72)
        if bits >= 12:
            subsets = subsets[:16] + rng.sample(subsets[16:], 400)
        for sub in subsets:
            for kind in fpgen.KINDS:
                spec = small_spec(rng, kind, bits, sub, rng.choice([-1, 0, 3, None]), rng.choice([None, None, 'm_1']))
                dist['exhaustive_sources'] += 1
                for method in (0, 1):
                    for nb in sorted(set(c[0] for c in chains(bits))):
                        R.fold_case('ex%d' % bits, spec, nb, method)
                    for nb, mid in chains(bits):
                        R.two_step(spec, nb, mid, method)
                if sub and rng.random() < 0.25:
                    nb = rng.choice(chains(bits))[0]
                    R.option_cases('ex%d' % bits, spec, nb, rng.choice([0, 1]))
                    R.stale_check(spec, nb, rng.choice([0, 1]), rng.randrange(2 ** 30))
    # 2. sampled up to 2^32 (dense in the low range so that collisions happen)
    big = [16, 32, 64, 256, 1024, 1024, 4096, 2 ** 16, 2 ** 20, 2 ** 32, 2 ** 32, 24, 96, 3 * 2 ** 10, 5 * 2 ** 20]
    for n in range(ctx.n(260, 4000)):
        bits = rng.choice(big)
        spec = fpgen.rand_spec(rng, bits=bits)
        if rng.random() < 0.5:
            # force collisions: add positions congruent (method 0) / adjacent (method 1) to existing ones
            base = list(spec.get('idx') or spec.get('cnt', {}).keys())
            ch = chains(bits)
            extra = set()
            for i in base:
                nbx = rng.choice(ch)[0]
                for cand in ((i + nbx * rng.randrange(1, 4)) % bits, i ^ 1, (i // (bits // nbx)) * (bits // nbx)):
                    if 0 <= cand < bits:
                        extra.add(cand)
            if 'idx' in spec:
                spec['idx'] = sorted(set(spec['idx']) | extra)
            else:
                proto = list(spec['cnt'].values()) or [1]
                for e in extra:
                    spec['cnt'].setdefault(e, rng.choice(proto))
        dist['sampled_sources'] += 1
        ch = chains(bits)
        method = rng.choice([0, 1])
        for nb, mid in rng.sample(ch, min(3, len(ch))):
            R.fold_case('s', spec, nb, method)
            R.two_step(spec, nb, mid, method)
        nb = rng.choice(ch)[0]
        if rng.random() < 0.5:
            R.option_cases('s', spec, nb, rng.choice([0, 1]))
        if rng.random() < 0.5:
            R.stale_check(spec, nb, rng.choice([0, 1]), rng.randrange(2 ** 30))
    # 3. negative positions (the constructors reject only positions >= length) and large counts (Python ints / doubles)
    for n in range(ctx.n(80, 800)):
        bits = rng.choice([8, 16, 12, 1024, 2 ** 32])
        kind = rng.choice(fpgen.KINDS)
        pool = sorted(set([-1, -2, -3, -bits, -bits - 1, -bits + 1, -bits // 2, -1000003, 0, 1, bits // 2, bits - 1]
                          + [rng.randrange(-2 * bits, bits) for _ in range(4)]))
        idx = sorted(rng.sample(pool, rng.choice([1, 2, 3, 5, 8])))
        spec = {'kind': kind, 'bits': bits, 'level': rng.choice([-1, 4, None])}
        if kind == 'KBit':
            spec['idx'] = idx
        elif kind == 'KCount':
            spec['cnt'] = {i: rng.choice([1, 3, 65535, 65536, 2 ** 31 - 1, 2 ** 31, 2 ** 40 + 7, 2 ** 63 - 1, 2 ** 64, 10 ** 18 + 3]) for i in idx}
        else:
            spec['cnt'] = {i: rng.choice([Fraction(1, 2), Fraction(3), Fraction(2 ** 40 + 1), Fraction(2 ** 52), Fraction(10 ** 15, 8),
                                          Fraction(1, 2 ** 20)]) for i in idx}
        dist['negative_or_large_sources'] += 1
        ch = chains(bits)
        for method in (0, 1):
            for nb, mid in rng.sample(ch, min(2, len(ch))):
                R.fold_case('neg', spec, nb, method)
                R.two_step(spec, nb, mid, method)
        if rng.random() < 0.4:
            nb = rng.choice(ch)[0]
            R.option_cases('neg', spec, nb, rng.choice([0, 1]))
            R.stale_check(spec, nb, rng.choice([0, 1]), rng.randrange(2 ** 30))
    # 4. rejections: larger than the source, ratio not a power of two, zero / negative length, bad method
    for n in range(ctx.n(60, 600)):
        bits = rng.choice([4, 8, 16, 12, 12, 24, 96, 1024, 3 * 2 ** 10, 2 ** 32])
        spec = fpgen.rand_spec(rng, bits=bits)
        bad = rng.choice([(bits * 2, 0), (bits + 1, 1), (3, 0), (bits - 1, 0), (5, 1), (bits // 2 + 1, 0), (0, 0), (-2, 0), (-bits, 1),
                          (bits // 2, 2), (bits // 4 or 1, -1), (bits, 3), (bits * 2, 2), (7, 5),
                          (bits // 3, 0), (bits // 3, 1), (bits // 6 or 1, 0), (bits // 12 or 1, 1)])   # divisors with an odd quotient
        R.fold_case('rej', spec, bad[0], bad[1], form=rng.choice(('pos', 'pos', 'kw', 'np64')))
    # 5. the documented ways of WRITING the call (keywords, defaults of `method` and `bits`, numpy integers as lengths):
    #    every form must be the same function of (source, length, method) as the positional call the model describes
    import e3fp.fingerprint.fprint as FP
    if FP.FOLD_BITS_DEF != FOLD_BITS_DEF:
        R.fail('the default folded length is %r, the documented default is %d' % (FP.FOLD_BITS_DEF, FOLD_BITS_DEF), {'FOLD_BITS_DEF': FP.FOLD_BITS_DEF})
    for n in range(ctx.n(90, 900)):
        form = FORMS[n % len(FORMS)]
        if form == 'np32':
            # a numpy int32 length on a fingerprint whose own length does not fit int32 is outside the documented input (`bits : int`):
            # NumPy 2 refuses `2**32 // np.int32(8)` (OverflowError, method 1 only); lengths below 2^31 only
            bits = rng.choice([b for b in big if b < 2 ** 31] + [8, 12])
            nb, method = rng.choice(chains(bits))[0], rng.choice([0, 1])
        elif form.startswith('default_bits'):
            bits = rng.choice([1024, 2048, 4096, 2 ** 16, 2 ** 32, 2 ** 32, 3 * 2 ** 10, 5 * 2 ** 20, 512, 16])   # the last two: default length too large -> rejected
            nb, method = FOLD_BITS_DEF, (0 if form == 'default_bits' else rng.choice([0, 1]))
        else:
            bits = rng.choice(big + [8, 12])
            nb, method = rng.choice(chains(bits))[0], (0 if form == 'default_method' else rng.choice([0, 1]))
        spec = fpgen.rand_spec(rng, bits=bits)
        if 'cnt' in spec and rng.random() < 0.5:          # collisions for the chosen target
            for i in list(spec['cnt'])[:3]:
                j = (i + nb) % bits
                spec['cnt'].setdefault(j, spec['cnt'][i])
        dist['call_form_sources'] = dist.get('call_form_sources', 0) + 1
        R.fold_case('form', spec, nb, method, form=form)
        if rng.random() < 0.15:
            R.fold_case('form-rej', spec, rng.choice([bits * 2, 3 if bits % 3 else 5, 0, -nb]), method if form != 'default_method' else 0,
                        form=form if not form.startswith('default_bits') else 'kw')
    # 6. explicit zero and negative values (CountFingerprint/FloatFingerprint accept any number per position; differences of
    #    fingerprints produce them): sums that cancel to zero, max/min over fibres with mixed signs
    for n in range(ctx.n(70, 700)):
        bits = rng.choice([8, 16, 16, 12, 64, 1024, 2 ** 32])
        kind = rng.choice(['KCount', 'KFloat'])
        idx = fpgen.rand_indices(rng, bits, 6)
        ch = chains(bits)
        nb, mid = rng.choice(ch)
        method = rng.choice([0, 1])
        for i in list(idx):                               # partners in the same fibre
            if rng.random() < 0.7:
                j = (i + nb * rng.randrange(1, 3)) % bits if method == 0 else (i ^ 1)
                if 0 <= j < bits:
                    idx.append(j)
        idx = sorted(set(idx))
        if kind == 'KCount':
            vals = [0, 0, 1, 2, -1, -2, -2, 5, -5, 65535, -65536]
            cnt = {i: rng.choice(vals) for i in idx}
        else:
            vals = [Fraction(0), Fraction(0), Fraction(1, 2), Fraction(-1, 2), Fraction(3), Fraction(-3), Fraction(-7, 4), Fraction(7, 4), Fraction(-250),
                    Fraction(1, 2 ** 30), Fraction(-3, 2 ** 34), Fraction(10 ** 6 + 1, 2 ** 20)]
            cnt = {i: rng.choice(vals) for i in idx}
        spec = {'kind': kind, 'bits': bits, 'level': rng.choice([-1, 2, None]), 'cnt': cnt}
        dist['zero_or_negative_value_sources'] = dist.get('zero_or_negative_value_sources', 0) + 1
        R.fold_case('zneg', spec, nb, method)
        R.two_step(spec, nb, mid, method)
        if rng.random() < 0.6:
            R.option_cases('zneg', spec, nb, method)
        if rng.random() < 0.3:
            R.stale_check(spec, nb, method, rng.randrange(2 ** 30))

    cases, payloads = R.cases, R.payloads
    for k in cases[:2] + cases[len(cases) // 2:len(cases) // 2 + 2] + cases[-2:]:
        pl = {kk: v for kk, v in payloads[k[0]].items() if kk != 'replay'}
        ctx.sample({'case': k[0], 'input_and_implementation_result': pl, 'model_check': k[1][:400]})
    R.compare()
    dist['bits_seen'] = sorted(dist['bits_seen'])
    ctx.coverage.setdefault('input_distribution', {})['fingerprint'] = dist
    ctx.coverage['rule'] = (ctx.coverage.get('rule', '') + ' [fingerprint part] every index subset of lengths %s (sampled above 6 in the quick tier) x 3 kinds x 2 methods x '
                            'every target length of the power-of-two chain, two-step vs one-step folds on the implementation for every chain b | a | bits, '
                            'seeded random fingerprints up to 2^32 bits with forced collisions, negative positions and counts up to 2^64 / 2^52, '
                            'options linked=False and counts_method=sum/max/min, histories of folds on one source object (earlier results keep their value, '
                            'every call equals the same call on a fresh source), rejections (too large, non power-of-two ratio, 0, negative, method not in {0,1}); '
                            'a fold case is non-trivial when it really folds (target < length) and at least two positions collide; distinct by full input.' % small)
    ctx.assumptions += ['lengths are at most 2^53 (the code tests the ratio in double precision; e3fp lengths are at most 2^32)',
                        'np.unique, % and // on int64 arrays, dict/set operations behave as modelled; exercised by the correspondence only',
                        'float sums over a fibre are compared exactly whenever every order of summation is exact in double precision (values multiples of 2^-k, magnitudes summing below 2^(53-k): the bulk of the generated values) and with relative tolerance 1e-9 otherwise (summation order over a Python set is not modelled)',
                        'the fold cache is observed through results only: object identity of repeated calls is not part of the model']
    return R.found


def replay_fingerprint(ctx, rp):
    if rp.get('type') not in ('fold', 'two_step', 'options', 'stale'):
        return False
    R = Runner(ctx)
    spec = fpgen.spec_from_json(rp['spec'])
    if rp['type'] == 'fold':
        R.fold_case(rp['tag'], spec, rp['nb'], rp['method'], rp.get('form', 'pos'))
    elif rp['type'] == 'two_step':
        R.two_step(spec, rp['nb'], rp['mid'], rp['method'])
    elif rp['type'] == 'options':
        R.option_cases(rp['tag'], spec, rp['nb'], rp['method'])
    elif rp['type'] == 'stale':
        R.stale_check(spec, rp['nb'], rp['method'], rp['order_seed'])
    else:
        return False
    if R.cases:
        R.compare()
    return True


PARTS = [part_fingerprint]
# hook points: parts built by other builders (database fold, fingerprinter route)
for _name in ('c07_extra', 'c07_db', 'c07_fprinter'):
    PARTS.append(importlib.import_module('props.' + _name).part)          # a missing or broken part fails the check


def run(ctx):
    ok, res = core.proof_step(ctx)
    found_input = False
    for part in PARTS:
        found_input = bool(part(ctx)) or found_input
    if not ok:
        core.report_broken_proof(ctx, res, found_input)


REPLAYERS = [replay_fingerprint]
# parts built by others may expose `replay_case(ctx, rp) -> handled(bool)` next to `part(ctx)`
for _name in ('c07_extra', 'c07_db', 'c07_fprinter'):
    _m = importlib.import_module('props.' + _name)
    if hasattr(_m, 'replay_case'):
        REPLAYERS.append(_m.replay_case)


def replay(ctx, path):
    """Re-run the recorded case on both sides; exit 1 with a VIOLATION line if it still fails."""
    import json
    d = json.load(open(path))
    case = d.get('case', {})
    rp = case.get('replay') if isinstance(case, dict) else None
    print('replaying %s: %s' % (path, d.get('what', '')[:200]))
    if isinstance(case, dict) and ('minimal_history' in case or 'ops' in case):
        importlib.import_module('props.c07_db').replay_history(ctx, case)
        return fpgen.finish_replay(ctx, path, 'database history')
    if isinstance(case, dict) and 'molblock' in case:
        import m1lib
        return m1lib.replay_case(ctx, path)
    if not isinstance(rp, dict):
        rp = None
    if rp is None:
        ok, res = core.proof_step(ctx)
        if not ok:
            core.report_broken_proof(ctx, res, False)
        return fpgen.finish_replay(ctx, path, 'proof obligations of Properties/C07.v re-checked')
    for rep in REPLAYERS:
        if rep(ctx, rp):
            return fpgen.finish_replay(ctx, path, 'case %s' % rp.get('type'))
    print('no part of C07 knows how to replay a case of type %r' % rp.get('type'))
    return 2
