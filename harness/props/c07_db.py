"""C07, database part: FingerprintDatabase.fold = row-wise Fingerprint.fold (Model/Fprint.v fp_fold), for all kinds and
chains b | a | bits, with the source re-read after the fold.  Theorems: Proofs/DbFold.v db_fold_rows, db_fold_values,
db_fold_view, db_fold_frame.  Called by props/c07.py as part(ctx) -> found_input."""
import core
import dbgen
import fpgen


def part(ctx):
    rng = ctx.rng
    found = False
    hists, cases, payloads = {}, [], {}
    over = {'beyond_uint16': 0, 'large_within_uint16': 0}
    for i in range(ctx.n(40, 500)):
        h = dbgen.History(rng, bits=rng.choice([16, 1024, 2 ** 32]))
        if rng.random() < 0.3:
            h.rand_from_array()
        else:
            k0 = rng.choice(dbgen.KINDS)
            h.op_new(k0, h.level)
            if k0 == 'KCount' and rng.random() < 0.6:
                # counts up to 65535 (COUNT_FP_DTYPE is uint16): folded sums both within and beyond the limit; beyond it the
                # database fold wraps modulo 2^16 (model: ksum KCount) while Fingerprint.fold keeps the exact Python integer
                fps = [dbgen.make_fp(rng, 'KCount', h.bits, h.level, h.rand_name(), dbgen.rand_props(rng, h.schema), big=True)
                       for _ in range(rng.choice([1, 2, 3]))]
                h.op_add(h.live[-1], fps)
            else:
                h.op_add(h.live[-1], h.batch(h.live[-1], rng.choice([1, 2, 3, 4]), own=rng.random() < 0.7))
        if not h.live:
            continue
        src = h.live[-1]
        d = h.pool[src]
        if d.fp_num == 0:
            continue
        before = (dbgen.db_lit(dbgen.obs_db(d)), str(dbgen.obs_items(d)))
        b = d.bits
        chain = sorted({b >> s for s in rng.sample(range(0, b.bit_length()), min(3, b.bit_length()))}, reverse=True)
        cur = src
        for nb in chain:
            r = h.op_fold(cur, nb, rng.choice([None, None] + list(dbgen.KINDS)) if nb != chain[-1] or rng.random() < 0.5 else None)
            if r[0] != 'ok':
                break
            direct = h.op_fold(src, nb)                                  # one-step fold of the source to the same length
            new = len(h.pool) - 2
            # row-wise: database fold == fingerprint fold of every source row (same kind route only)
            if direct[0] == 'ok':
                dd = h.pool[len(h.pool) - 1]
                for j in range(d.fp_num):
                    s_o, f_o = fpgen.obs(d[j]), fpgen.obs(dd[j])
                    if s_o['kind'] == 'KCount':
                        sums = {}
                        for col, v in s_o['cnt']:
                            sums[col % nb] = sums.get(col % nb, 0) + v
                        if any(v > 65535 for v in sums.values()):
                            over['beyond_uint16'] += 1            # representability limit: compared with the Db model only (exact wrap)
                            ctx.count(('c07db-overflow', str(s_o), nb), True)
                            continue
                        if any(v > 20000 for v in sums.values()):
                            over['large_within_uint16'] += 1
                    key = 'c07db/%d/%d/%d' % (i, nb, j)
                    cases.append((key, 'result_eqb (fp_obs_close (Qmake 1 1000000000)) (fp_fold %s %s 0) (Ok %s)' % (fpgen.lit(s_o), core.zlit(nb), fpgen.lit(f_o))))
                    payloads[key] = {'source_row': fpgen.obs_json(s_o), 'bits': nb, 'db_fold_row': fpgen.obs_json(f_o)}
                    ctx.count(('c07db', str(s_o), nb), len(s_o['idx']) > 1 and nb < b)
            cur = new
        after = (dbgen.db_lit(dbgen.obs_db(d)), str(dbgen.obs_items(d)))
        if after != before:
            found = True
            ctx.fail('source database changed by fold', {'ops': dbgen.descs_of(h.steps)}, finding_key='dbfold-mutates-source')
        hists['c07db-%d' % i] = h
    nbad = dbgen.check_histories(ctx, hists, 'C07 database fold histories', finding_key_of=lambda h, st: 'dbfold:model-vs-impl')
    nbad += core.compare_cases(ctx, cases, dbgen.IMPORTS, 'C07 database fold row = fingerprint fold', payloads, shard=200)
    ctx.coverage.setdefault('input_distribution', {})['db_fold_count_sums'] = over if isinstance(ctx.coverage.get('input_distribution'), dict) else over
    return found or nbad > 0
