"""C07, database part: FingerprintDatabase.fold = row-wise Fingerprint.fold (Model/Fprint.v fp_fold), for all kinds and
chains b | a | bits, with the source re-read after the fold.  Theorems: Proofs/DbFold.v db_fold_rows, db_fold_values,
db_fold_view, db_fold_frame.  Called by props/c07.py as part(ctx) -> found_input.

Streams (all compared with the database model step by step through dbgen.check_histories, the folded rows additionally with
the fingerprint model fp_fold):
  * sources built by new + add_fingerprints or from_array (unsorted CSR columns, explicit zeros, dense), of lengths with and
    without an odd factor (2, 8, 12, 16, 24, 96, 1024, 3072, 2^32), 1-4 rows and sometimes 12-20 rows;
  * sources that are themselves DERIVED databases (as_type copy, concat with itself, reload through .fpz / .fps, pickle,
    deepcopy, copy, subset): their matrices have other index dtypes / buffer ownership than a freshly filled database;
  * the valid chain of lengths, optionally changing the fingerprint type, chained (fold of a fold) and one-step;
  * REJECTED lengths on the source and on a folded database: larger than the source, zero, negative, quotient odd,
    quotient not an integer whose FLOOR is a power of two (bits/2+1, 3*bits/4, ...);
  * after the folds: fingerprints added to / a column set on the folded database and on the source - every live database
    is re-observed after every step (a fold result that shares a list or buffer with its source shows here);
  * implementation-only: the length handed over as a numpy integer (valid and rejected), the documented `name=` option and its default (the source's name), keyword / positional ways of
    writing the call, db.fold(b)[j] against db[j].fold(b), an empty database (no matrix) is rejected and stays usable."""
import core
import dbgen
import fpgen

BITS = [16, 16, 1024, 1024, 2 ** 32, 2 ** 32, 2 ** 32, 8, 2, 12, 24, 96, 3 * 2 ** 10]


def valid_lengths(b):
    out = [b]
    while out[-1] % 2 == 0:
        out.append(out[-1] // 2)
    return out


def bad_lengths(rng, b):
    """Lengths fold must refuse, in particular those whose floored ratio is a power of two although the exact one is not."""
    c = [2 * b, b + 1, 0, -b, -(b // 2 or 1), b * 4]
    if b > 2:
        c += [b // 2 + 1, b - 1]                         # floor(b / x) = 1
    if b % 4 == 0 and b >= 8:
        c += [3 * (b // 4), 3 * (b // 8) or 3]           # floor = 1, 2
    if b % 3 == 0:
        c += [b // 3]                                    # exact ratio 3
    if b >= 16:
        c += [b // 4 + 1, 5, 7]
    c = [x for x in c if x not in valid_lengths(b)]
    return rng.sample(c, min(len(c), rng.choice([1, 2, 2, 3])))


def make_source(ctx, h, dist):
    """A non-empty database in h; returns its handle or None."""
    rng = h.rng
    if rng.random() < 0.3:
        h.rand_from_array()
        dist['source_from_array'] += 1
    else:
        k0 = rng.choice(dbgen.KINDS)
        h.op_new(k0, h.level)
        many = rng.random() < 0.08
        if k0 == 'KCount' and rng.random() < 0.6 and not many:
            # counts up to 65535 (COUNT_FP_DTYPE is uint16): folded sums both within and beyond the limit; beyond it the
            # database fold wraps modulo 2^16 (model: ksum KCount) while Fingerprint.fold keeps the exact Python integer
            fps = [dbgen.make_fp(rng, 'KCount', h.bits, h.level, h.rand_name(), dbgen.rand_props(rng, h.schema), big=True)
                   for _ in range(rng.choice([1, 2, 3]))]
            h.op_add(h.live[-1], fps)
        else:
            h.op_add(h.live[-1], h.batch(h.live[-1], rng.choice([12, 20]) if many else rng.choice([1, 2, 3, 4]), own=rng.random() < 0.7))
            dist['many_rows'] += many
    if not h.live:
        return None
    src = h.live[-1]
    if h.pool[src].fp_num == 0:
        return None
    if rng.random() < 0.4:
        # a derived database as the source of the fold
        d = h.pool[src]
        way = rng.choice(['as_type', 'concat', 'reload_fpz', 'reload_fps', 'pickle', 'deepcopy', 'copy', 'subset'])
        if way == 'as_type':
            r = h.op_as_type(src, h.castable_kind(dbgen.kind_of_type(d.fp_type)), True)
        elif way == 'concat':
            r = h.op_concat([src, src], plus=rng.random() < 0.5)
        elif way.startswith('reload'):
            r = h.op_reload(src, way == 'reload_fpz')
        elif way in ('pickle', 'deepcopy'):
            r = h.op_pickle(src, deep=(way == 'deepcopy'))
        elif way == 'copy':
            r = h.op_copy(src)
        else:
            present = list(dict.keys(d.fp_names_to_indices))
            r = h.op_subset(src, [rng.choice(present) for _ in range(rng.choice([1, 2, 3]))])
        if r[0] == 'ok' and h.pool[len(h.pool) - 1].fp_num > 0:
            src = len(h.pool) - 1
            dist['source_derived'][way] = dist['source_derived'].get(way, 0) + 1
    return src


def part(ctx):
    rng = ctx.rng
    found = False
    hists, cases, payloads = {}, [], {}
    over = {'beyond_uint16': 0, 'large_within_uint16': 0}
    dist = {'histories': 0, 'source_from_array': 0, 'source_derived': {}, 'many_rows': 0, 'valid_folds': 0, 'rejected_folds': 0,
            'type_changing_folds': 0, 'post_fold_mutations': 0, 'bits': {}, 'row_vs_fingerprint_fold': 0, 'name_option_checks': 0, 'empty_database_checks': 0}
    dbgen.set_workdir(ctx.workdir)
    for i in range(ctx.n(48, 560)):
        h = dbgen.History(rng, bits=rng.choice(BITS))
        h.MAX_LIVE = 9                                      # source, three chained and three one-step folds stay observed
        src = make_source(ctx, h, dist)
        if src is None:
            hists['c07db-%d' % i] = h               # whatever the source construction did is still compared with the model
            dist['source_unusable'] = dist.get('source_unusable', 0) + 1
            continue
        d = h.pool[src]
        before = (dbgen.db_lit(dbgen.obs_db(d)), str(dbgen.obs_items(d)))
        b = d.bits
        dist['histories'] += 1
        dist['bits'][str(b)] = dist['bits'].get(str(b), 0) + 1
        lens = valid_lengths(b)
        # a sum beyond 65535 is modelled for count -> count folds (wraps modulo 2^16); casting an out-of-range float64 to uint16
        # (count -> float -> count with large values) is undefined in C / numpy: no type changes for sources holding large values
        large = any(v > 20000 for r in dbgen.obs_db(d)['rows'] for _, v in r)
        chain = sorted(set(rng.sample(lens, min(3, len(lens)))), reverse=True)
        cur = src
        for nb in chain:
            kind = rng.choice([None, None] + list(dbgen.KINDS)) if nb != chain[-1] or rng.random() < 0.5 else None
            if large:
                kind = None
            r = h.op_fold(cur, nb, kind)
            dist['type_changing_folds'] += kind is not None
            if r[0] != 'ok':
                break
            dist['valid_folds'] += 1
            new = len(h.pool) - 1
            direct = h.op_fold(src, nb)                                  # one-step fold of the source to the same length
            # row-wise: database fold == fingerprint fold of every source row (same kind route only)
            if direct[0] == 'ok':
                dist['valid_folds'] += 1
                dd = h.pool[len(h.pool) - 1]
                for j in range(d.fp_num):
                    s_o, f_o = fpgen.obs(d[j]), fpgen.obs(dd[j])
                    if s_o['kind'] == 'KCount':
                        sums = {}
                        for col, v in s_o['cnt']:
                            sums[col % nb] = sums.get(col % nb, 0) + v
                        if any(v > 65535 for v in sums.values()):
                            over['beyond_uint16'] += 1            # representability limit: compared with the Db model only (exact wrap)
                            ctx.count(('c07db-overflow', str(s_o), nb), True)
                            continue
                        if any(v > 20000 for v in sums.values()):
                            over['large_within_uint16'] += 1
                    key = 'c07db/%d/%d/%d' % (i, nb, j)
                    from props import c07 as base
                    cases.append((key, 'result_eqb (fp_obs_close %s) (fp_fold %s %s 0) (Ok %s)' % (base.tol_of(s_o)[0], fpgen.lit(s_o), core.zlit(nb), fpgen.lit(f_o))))
                    payloads[key] = {'source_row': fpgen.obs_json(s_o), 'bits': nb, 'db_fold_row': fpgen.obs_json(f_o)}
                    ctx.count(('c07db', str(s_o), nb), len(s_o['idx']) > 1 and nb < b)
                    # the two implementation routes against each other: fold the fingerprint taken out of the database
                    if j < 3:
                        rf = fpgen.attempt(lambda: fpgen.obs(d[j].fold(nb)))
                        dist['row_vs_fingerprint_fold'] += 1
                        if rf[0] != 'ok' or rf[1] != f_o:
                            found = True
                            ctx.fail('db.fold(%d)[%d] differs from db[%d].fold(%d)' % (nb, j, j, nb),
                                     {'ops': dbgen.descs_of(h.steps), 'row': j, 'db_fold_row': fpgen.obs_json(f_o),
                                      'fingerprint_fold': fpgen.obs_json(rf[1]) if rf[0] == 'ok' else rf[1]}, finding_key='dbfold:row-vs-fingerprint-fold')
            cur = new
        # rejected lengths, on the source and on the last folded database
        for target in (src, cur):
            if target == cur and cur == src:
                continue
            tb = h.pool[target].bits
            for bad in bad_lengths(rng, tb):
                r = h.op_fold(target, bad, rng.choice([None, None, 'KCount']) if not large else None)
                dist['rejected_folds'] += 1
                ctx.count(('c07db-rej', b, tb, bad), True)
                if r[0] == 'ok':
                    found = True
                    ctx.fail('database of %d bits accepted fold(%d)' % (tb, bad), {'ops': dbgen.descs_of(h.steps)}, finding_key='dbfold:accepts-bad-length')
        after = (dbgen.db_lit(dbgen.obs_db(d)), str(dbgen.obs_items(d)))
        if after != before:
            found = True
            ctx.fail('source database changed by fold', {'ops': dbgen.descs_of(h.steps)}, finding_key='dbfold-mutates-source')
        # writes after the folds: on a folded database and on the source; all live databases are re-observed by every step
        if cur != src and rng.random() < 0.7:
            for target in rng.sample([cur, src], 2):
                if target not in h.live:
                    continue
                t = h.pool[target]
                if rng.random() < 0.7:
                    h.op_add(target, h.batch(target, rng.choice([1, 2]), own=True))
                else:
                    h.op_set_prop(target, 'q', [rng.choice([0, 1, 7]) for _ in range(t.fp_num)], ty='int')
                dist['post_fold_mutations'] += 1
        hists['c07db-%d' % i] = h
    found = direct_checks(ctx, dist) or found
    nbad = dbgen.check_histories(ctx, hists, 'C07 database fold histories', finding_key_of=lambda h, st: 'dbfold:model-vs-impl')
    nbad += core.compare_cases(ctx, cases, dbgen.IMPORTS, 'C07 database fold row = fingerprint fold', payloads, shard=200)
    cov = ctx.coverage.setdefault('input_distribution', {})
    cov['db_fold_count_sums'] = over
    cov['db_fold'] = dist
    ctx.coverage['rule'] = (ctx.coverage.get('rule', '') + ' [database part] histories: source (new+add / from_array / derived by as_type, concat, reload, pickle, copy, subset) of '
                            'lengths %s, up to three chained and one-step folds over the valid chain (type changes), rejected lengths incl. floored '
                            'power-of-two ratios on source and folded database, writes on folded database and source afterwards; every live database compared with the '
                            'model after every step; folded rows against fp_fold; name= option, call forms incl. numpy lengths, db[j].fold, empty database on the implementation.' % sorted(set(BITS)))
    return found or nbad > 0


def direct_checks(ctx, dist):
    """Documented options of FingerprintDatabase.fold the database model does not carry (the database's own name) and ways of
    writing the call; checked on the implementation."""
    import numpy as np
    from e3fp.fingerprint.db import FingerprintDatabase
    rng = ctx.rng
    found = False
    C = fpgen.classes()
    for n in range(ctx.n(30, 300)):
        kind = rng.choice(dbgen.KINDS)
        bits = rng.choice([16, 1024, 2 ** 32, 24])
        level = rng.choice([-1, 5, None])
        own = rng.choice([None, 'src_db', 'x y', ''])
        seed = rng.randrange(2 ** 30)
        nb = rng.choice(valid_lengths(bits))
        given = rng.choice(['folded', 'other name', ''])
        rp = {'type': 'db_direct', 'kind': kind, 'bits': bits, 'level': level, 'db_name': own, 'seed': seed, 'nb': nb, 'name_arg': given}
        found = db_direct_case(ctx, rp) or found
        dist['name_option_checks'] += 1
    for n in range(ctx.n(25, 250)):
        rp = {'type': 'db_signed', 'bits': rng.choice([16, 64, 1024, 2 ** 32, 24]), 'level': rng.choice([-1, 5, None]), 'seed': rng.randrange(2 ** 30)}
        found = db_signed_case(ctx, rp) or found
        dist['signed_float_database_checks'] = dist.get('signed_float_database_checks', 0) + 1
    for n in range(ctx.n(6, 40)):
        kind = rng.choice(dbgen.KINDS)
        e = FingerprintDatabase(fp_type=C[kind], level=rng.choice([-1, 5]))
        r = fpgen.attempt(lambda: e.fold(rng.choice([8, 1024])))
        dist['empty_database_checks'] += 1
        ctx.count(('c07db-empty', kind), True)
        ok_after = fpgen.attempt(lambda: e.add_fingerprints([C[kind].from_indices([1, 9], bits=16, level=e.level, name='a')]) or e.fold(8).bits)
        if r[0] != 'err' or ok_after != ('ok', 8):
            found = True
            ctx.fail('fold of a database without fingerprints: expected a rejection that leaves the database usable',
                     {'kind': kind, 'fold_result': str(r), 'after_add_fold8_bits': str(ok_after)}, finding_key='dbfold:empty-database')
    return found


def db_direct_case(ctx, rp):
    import random
    import numpy as np
    from e3fp.fingerprint.db import FingerprintDatabase
    C = fpgen.classes()
    rng = random.Random(rp['seed'])
    kind, bits, level, nb = rp['kind'], rp['bits'], rp['level'], rp['nb']
    T = C[kind]
    db = FingerprintDatabase(fp_type=T, level=level, name=rp['db_name'])
    db.add_fingerprints([dbgen.make_fp(rng, kind, bits, level, rng.choice(['a', 'b', None]), [])['fp'] for _ in range(rng.choice([1, 2, 3]))])
    before = (dbgen.obs_db(db), db.name)
    other = C[rng.choice([k for k in dbgen.KINDS])]
    forms = {'positional': lambda: db.fold(nb), 'bits=': lambda: db.fold(bits=nb), 'name=': lambda: db.fold(nb, name=rp['name_arg']),
             'all keywords': lambda: db.fold(name=rp['name_arg'], fp_type=T, bits=nb), 'all positional': lambda: db.fold(nb, T, rp['name_arg']),
             'fp_type=None': lambda: db.fold(nb, fp_type=None, name=None),
             'numpy int64': lambda: db.fold(np.int64(nb)), 'numpy int32 keyword': lambda: db.fold(bits=np.int32(nb) if nb < 2 ** 31 else np.int64(nb)),
             'other type positional': lambda: db.fold(nb, other), 'other type keyword': lambda: db.fold(bits=nb, fp_type=other)}
    res = {k: fpgen.attempt(f) for k, f in forms.items()}
    ctx.count(('c07db-direct', str(rp)), True)
    bad = []
    if any(r[0] != 'ok' for r in res.values()):
        bad.append('a valid call raised: %s' % {k: r[1] for k, r in res.items() if r[0] != 'ok'})
    else:
        ref = dbgen.obs_db(res['positional'][1])
        for k in ('bits=', 'name=', 'all keywords', 'all positional', 'fp_type=None', 'numpy int64', 'numpy int32 keyword'):
            if dbgen.obs_db(res[k][1]) != ref or int(res[k][1].bits) != nb:
                bad.append('%s gives other contents than the positional call' % k)
        if dbgen.obs_db(res['other type positional'][1]) != dbgen.obs_db(res['other type keyword'][1]):
            bad.append('fp_type positional and keyword differ')
        for k in ('positional', 'bits=', 'fp_type=None', 'other type positional', 'other type keyword', 'numpy int64', 'numpy int32 keyword'):
            if res[k][1].name != rp['db_name']:
                bad.append('%s: folded database is named %r, the source %r (default: the name of the source)' % (k, res[k][1].name, rp['db_name']))
        for k in ('name=', 'all keywords', 'all positional'):
            if res[k][1].name != rp['name_arg']:
                bad.append('%s: folded database is named %r, requested %r' % (k, res[k][1].name, rp['name_arg']))
        if any(r[1] is db for r in res.values()) or len(set(id(r[1]) for r in res.values())) != len(res):
            bad.append('fold returned the source database or the same object twice')
        if res['positional'][1].bits != nb or res['positional'][1].fp_type is not T or res['other type keyword'][1].fp_type is not other:
            bad.append('length or fingerprint type of the folded database')
    # rejected lengths handed over as numpy integers (0 excluded: numpy scalars divide by zero without raising, the call is
    # still refused but with the other error class)
    for x in bad_lengths(rng, bits):
        if x == 0:
            continue
        r1, r2 = fpgen.attempt(lambda: db.fold(x)), fpgen.attempt(lambda: db.fold(np.int64(x)))
        if r1[0] != 'err' or r2 != r1:
            bad.append('rejected length %d: Python int gives %s, numpy int64 gives %s' % (x, r1[1] if r1[0] == 'err' else 'a database', r2[1] if r2[0] == 'err' else 'a database'))
    if (dbgen.obs_db(db), db.name) != before:
        bad.append('the source database (contents or name) changed')
    for msg in bad:
        ctx.fail('FingerprintDatabase.fold options: ' + msg, {'replay': rp, 'source': dbgen.obs_json(before[0]), 'source_name': before[1]},
                 finding_key='dbfold:options')
    return bool(bad)


def db_signed_case(ctx, rp):
    """Float databases with zero and negative values (means / differences of fingerprints stored in a database).  The database
    model's domain is non-negative values, so this is checked on the implementation: every folded row holds, position by
    position, the sum over the fibre (a position whose values cancel may or may not stay stored: compared by value), the row
    total is conserved, two steps equal one step, the source is unchanged."""
    import random
    from fractions import Fraction
    from e3fp.fingerprint.db import FingerprintDatabase
    F = fpgen.classes()['KFloat']
    rng = random.Random(rp['seed'])
    bits, level = rp['bits'], rp['level']
    lens = valid_lengths(bits)
    nb = rng.choice(lens)
    mid = rng.choice([x for x in lens if x >= nb])
    rows = []
    for _ in range(rng.choice([1, 2, 3])):
        idx = fpgen.rand_indices(rng, bits, 5)
        for i in list(idx):
            if rng.random() < 0.7:
                idx.append((i + nb * rng.randrange(1, 3)) % bits)
        idx = sorted(set(idx))
        vals = {}
        for i in idx:
            partner = [j for j in vals if j % nb == i % nb]
            vals[i] = -vals[partner[0]] if partner and rng.random() < 0.4 else rng.choice([Fraction(1, 2), Fraction(-1, 2), Fraction(3), Fraction(-3), Fraction(-7, 4), Fraction(250), Fraction(0)])
        rows.append(vals)
    db = FingerprintDatabase(fp_type=F, level=level)
    db.add_fingerprints([F.from_counts({int(i): float(v) for i, v in r.items()}, bits=bits, level=level, name='r%d' % k) for k, r in enumerate(rows)])
    before = dbgen.obs_db(db)
    one, two = fpgen.attempt(lambda: db.fold(nb)), fpgen.attempt(lambda: db.fold(mid).fold(nb))
    ctx.count(('c07db-signed', str(rp)), True)
    bad = []
    if one[0] != 'ok' or two[0] != 'ok':
        bad.append('fold raised: %s / %s' % (one[1] if one[0] != 'ok' else 'ok', two[1] if two[0] != 'ok' else 'ok'))
    else:
        for k, r in enumerate(rows):
            want = {}
            for i, v in r.items():
                want[i % nb] = want.get(i % nb, 0) + v
            want = {j: v for j, v in want.items() if v != 0}
            for what, d2 in (('one step', one[1]), ('two steps via %d' % mid, two[1])):
                got = {j: v for j, v in dbgen.obs_db(d2)['rows'][k] if v != 0}
                if got != want:
                    bad.append('row %d, %s: folded values %s, sums over the fibres %s' % (k, what, sorted(got.items()), sorted(want.items())))
                elif sum(got.values()) != sum(r.values()):
                    bad.append('row %d, %s: total not conserved' % (k, what))
            rf = fpgen.attempt(lambda: {j: v for j, v in fpgen.obs(db[k].fold(nb))['cnt'] if v != 0})
            if rf != ('ok', want):
                bad.append('row %d: db[%d].fold(%d) gives %s' % (k, k, nb, rf[1]))
    if dbgen.obs_db(db) != before:
        bad.append('the source database changed')
    for msg in bad[:3]:
        ctx.fail('fold of a float database with zero / negative values: ' + msg, {'replay': rp, 'rows': [[[i, str(v)] for i, v in sorted(r.items())] for r in rows], 'fold_bits': nb},
                 finding_key='dbfold:signed-float-values')
    return bool(bad)


def replay_case(ctx, rp):
    if rp.get('type') == 'db_signed':
        db_signed_case(ctx, rp)
        return True
    if rp.get('type') != 'db_direct':
        return False
    db_direct_case(ctx, rp)
    return True


def replay_history(ctx, case):
    """Replay of a history violation: the recorded operations on a fresh pool; every step compared with the model, and for
    every fold the source database observed before and after the call."""
    import random
    descs = [dict(st['op']) for st in case.get('minimal_history', [])] or [dict(d) for d in case.get('ops', [])]
    for d in descs:
        d.pop('_ok', None)
    dbgen.set_workdir(ctx.workdir)
    h = dbgen.History(random.Random(0), schema=[], bits=8, level=-1)
    h.MAX_LIVE = 10 ** 6
    for d in descs:
        src = h.pool[d['h']] if d['op'] == 'fold' and d['h'] < len(h.pool) else None
        before = None if src is None else (dbgen.db_lit(dbgen.obs_db(src)), str(fpgen.attempt(lambda: dbgen.obs_items(src))))
        r = dbgen.exec_desc(h, d)
        if src is not None:
            if (dbgen.db_lit(dbgen.obs_db(src)), str(fpgen.attempt(lambda: dbgen.obs_items(src)))) != before:
                ctx.fail('source database changed by fold', {'ops': descs}, finding_key='dbfold-mutates-source')
            if r[0] == 'ok' and d['bits'] not in valid_lengths(src.bits):
                ctx.fail('database of %d bits accepted fold(%d)' % (src.bits, d['bits']), {'ops': descs}, finding_key='dbfold:accepts-bad-length')
    dbgen.check_histories(ctx, {'replay': h}, 'C07 database fold histories (replay)', shrink_budget=0)
    return True
