"""C07, database part: FingerprintDatabase.fold = row-wise Fingerprint.fold (Model/Fprint.v fp_fold), for all kinds and
chains b | a | bits, with the source re-read after the fold.  Theorems: Proofs/DbFold.v db_fold_rows, db_fold_values,
db_fold_view, db_fold_frame.  Called by props/c07.py as part(ctx) -> found_input."""
import core
import dbgen
import fpgen


def part(ctx):
    rng = ctx.rng
    found = False
    hists, cases, payloads = {}, [], {}
    for i in range(ctx.n(40, 500)):
        h = dbgen.History(rng, bits=rng.choice([16, 1024, 2 ** 32]))
        if rng.random() < 0.3:
            h.rand_from_array()
        else:
            h.op_new(rng.choice(dbgen.KINDS), h.level)
            h.op_add(h.live[-1], h.batch(h.live[-1], rng.choice([1, 2, 3, 4]), own=rng.random() < 0.7))
        src = h.live[-1]
        d = h.pool[src]
        if d.fp_num == 0:
            continue
        before = (dbgen.db_lit(dbgen.obs_db(d)), str(dbgen.obs_items(d)))
        b = d.bits
        chain = sorted({b >> s for s in rng.sample(range(0, b.bit_length()), min(3, b.bit_length()))}, reverse=True)
        cur = src
        for nb in chain:
            r = h.op_fold(cur, nb, rng.choice([None, None] + list(dbgen.KINDS)) if nb != chain[-1] or rng.random() < 0.5 else None)
            if r[0] != 'ok':
                break
            direct = h.op_fold(src, nb)                                  # one-step fold of the source to the same length
            new = len(h.pool) - 2
            # row-wise: database fold == fingerprint fold of every source row (same kind route only)
            if direct[0] == 'ok':
                dd = h.pool[len(h.pool) - 1]
                for j in range(d.fp_num):
                    s_o, f_o = fpgen.obs(d[j]), fpgen.obs(dd[j])
                    key = 'c07db/%d/%d/%d' % (i, nb, j)
                    cases.append((key, 'result_eqb (fp_obs_close (Qmake 1 1000000000)) (fp_fold %s %s 0) (Ok %s)' % (fpgen.lit(s_o), core.zlit(nb), fpgen.lit(f_o))))
                    payloads[key] = {'source_row': fpgen.obs_json(s_o), 'bits': nb, 'db_fold_row': fpgen.obs_json(f_o)}
                    ctx.count(('c07db', str(s_o), nb), len(s_o['idx']) > 1 and nb < b)
            cur = new
        after = (dbgen.db_lit(dbgen.obs_db(d)), str(dbgen.obs_items(d)))
        if after != before:
            found = True
            ctx.fail('source database changed by fold', {'ops': dbgen.descs_of(h.steps)}, finding_key='dbfold-mutates-source')
        hists['c07db-%d' % i] = h
    nbad = dbgen.check_histories(ctx, hists, 'C07 database fold histories', finding_key_of=lambda h, st: 'dbfold:model-vs-impl')
    nbad += core.compare_cases(ctx, cases, dbgen.IMPORTS, 'C07 database fold row = fingerprint fold', payloads, shard=200)
    return found or nbad > 0
