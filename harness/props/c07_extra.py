"""C07, coverage extension of the fingerprint part (called by props/c07.py as part(ctx) -> found_input).

What the base streams of c07.py do not draw - every source there is built by from_indices / from_counts from a sorted
int64 array and folded once:
  * derived sources: the fingerprint that is folded is a COPY (from_fingerprint, pickle, deepcopy, copy.copy), a scaled /
    divided fingerprint (a * 2, a / 2, a // 2: they start from from_fingerprint), an operator result (a | b, a + b, a - b),
    a conversion (from_vector sparse / dense, from_bitstring, an unsorted Python list with repeats, numpy scalars as dict
    keys and values), a database row (db[i]: uint16 / float64 / bool values), the `unfold()` of a fold result, or a fold
    result itself - each optionally of a source that had been folded BEFORE the copy was taken (the copy routes carry the
    folded-fingerprint cache along).  Compared with the model through props.c07.Runner.fold_obj (the model gets the
    observation of the derived object).
  * attached data: custom props and index_id_map travel with the fold (index_id_map by index reduction: folded position ->
    union over its fibre), the folded object owns its containers (changing one side never shows on the other).
  * user-supplied reducers (counts_method = np.sum, np.max, np.min, len, math.fsum, sum of squares, a constant), also
    unlinked, also in two steps for idempotent reducers: checked against a Python oracle over the fibres.
  * long chains: halving all the way down on ONE object, unlinked intermediate results, one-step and two-step on the same
    source object.
Everything here stays inside the quantifier of C07 (fingerprints of the three kinds, power-of-two chains, both methods,
documented options)."""
import copy
import math
import pickle
import random
from fractions import Fraction
import numpy as np
import core
import fpgen
from fpgen import obs, build, attempt

KEY_COPY = 'fold:copy-of-folded-fingerprint'
COPY_ROUTES = ('from_fingerprint', 'scaled', 'divided', 'floordiv')        # routes that go through from_fingerprint
ROUTES = ('from_fingerprint', 'from_fingerprint', 'pickle', 'deepcopy', 'copy', 'scaled', 'divided', 'floordiv', 'list_unsorted', 'numpy_scalars',
          'from_vector_sparse', 'from_vector_dense', 'from_bitstring', 'db_row', 'operator_or', 'operator_add', 'operator_sub',
          'unfold', 'folded')


class NotApplicable(Exception):
    """The route cannot express this spec (kind / range); counted, never silently dropped."""


def _idx_of(spec):
    return sorted(spec['idx']) if 'idx' in spec and 'cnt' not in spec else sorted(spec['cnt'])


def _cnt_of(spec):
    if 'cnt' in spec:
        return dict(spec['cnt'])
    out = {}
    for i in spec['idx']:
        out[i] = out.get(i, 0) + 1
    return out


def derive(route, spec, prefolds, aux, seed):
    """Build the object that is going to be folded.  Returns (object, fresh, linked): fresh = the object itself has never
    computed a fold and carries no cache (its folding map must then be the one of the checked call); linked = a linked result
    must unfold to the object itself."""
    C = fpgen.classes()
    kind = spec['kind']
    K = C[kind]
    rng = random.Random(seed)
    src = build(spec)
    for nb, m in prefolds:
        src.fold(nb, m)
    kw = {'bits': spec['bits'], 'level': spec.get('level', -1)}
    if spec.get('name'):
        kw['name'] = spec['name']
    idx, cnt = _idx_of(spec), _cnt_of(spec)
    if route == 'from_fingerprint':
        return K.from_fingerprint(src), not prefolds, True
    if route == 'pickle':
        return pickle.loads(pickle.dumps(src)), not prefolds, True
    if route == 'deepcopy':
        return copy.deepcopy(src), not prefolds, True
    if route == 'copy':
        return copy.copy(src), not prefolds, False            # a shallow copy shares the cache dictionary with its original
    if route in ('scaled', 'divided', 'floordiv'):
        if kind == 'KBit':
            raise NotApplicable(route)
        if route == 'scaled':
            return src * rng.choice([2, 3]), not prefolds, True
        if route == 'divided':
            return src / rng.choice([2, 4]), not prefolds, True
        if kind != 'KCount':
            raise NotApplicable(route)
        return src // 2, not prefolds, True
    if route == 'list_unsorted':
        if kind == 'KBit':
            l = [int(i) for i in idx] + [int(i) for i in idx if rng.random() < 0.5]
            rng.shuffle(l)
            return K.from_indices(l, **kw), True, True
        if kind == 'KCount' and cnt and all(isinstance(v, int) and 1 <= v <= 7 for v in cnt.values()):
            l = [int(i) for i, v in cnt.items() for _ in range(v)]
            rng.shuffle(l)
            return K.from_indices(l, **kw), True, True
        items = list(cnt.items())
        rng.shuffle(items)
        d = {int(k): (float(v) if kind == 'KFloat' else int(v)) for k, v in items}
        return K(indices=[int(k) for k in reversed(list(d))], counts=d, **kw), True, True
    if route == 'numpy_scalars':
        if kind == 'KBit':
            return K.from_indices(np.array(idx, dtype=np.int32 if all(-2 ** 31 <= i < 2 ** 31 for i in idx) else np.int64), **kw), True, True
        if kind == 'KCount':
            if not all(0 <= v < 2 ** 16 for v in cnt.values()):
                raise NotApplicable(route)
            return K.from_counts({np.int64(k): np.uint16(v) for k, v in cnt.items()}, **kw), True, True
        return K.from_counts({np.int64(k): np.float64(float(v)) for k, v in cnt.items()}, **kw), True, True
    if route in ('from_vector_sparse', 'from_vector_dense', 'from_bitstring', 'db_row'):
        if any(i < 0 for i in idx) or (kind == 'KCount' and not all(0 < v < 2 ** 16 for v in cnt.values())) \
                or (kind == 'KFloat' and any(v == 0 for v in cnt.values())):
            raise NotApplicable(route)
        dt = {'KBit': np.bool_, 'KCount': np.uint16, 'KFloat': np.float64}[kind]
        vkw = {k: v for k, v in kw.items() if k != 'bits'}
        if route == 'from_vector_sparse':
            from scipy.sparse import csr_matrix
            order = list(idx)
            rng.shuffle(order)                                   # valid CSR, columns not sorted
            data = np.array([True if kind == 'KBit' else (float(cnt[i]) if kind == 'KFloat' else int(cnt[i])) for i in order], dtype=dt)
            v = csr_matrix((data, np.array(order, dtype=np.int64), np.array([0, len(order)], dtype=np.int64)), shape=(1, spec['bits']))
            return K.from_vector(v, **vkw), True, True
        if route == 'from_vector_dense':
            if spec['bits'] > 2 ** 16:
                raise NotApplicable(route)
            v = np.zeros(spec['bits'], dtype=dt)
            for i in idx:
                v[i] = True if kind == 'KBit' else (float(cnt[i]) if kind == 'KFloat' else int(cnt[i]))
            return K.from_vector(v, **vkw), True, True
        if route == 'from_bitstring':
            if kind != 'KBit' or spec['bits'] > 2 ** 16:
                raise NotApplicable(route)
            s = ['0'] * spec['bits']
            for i in idx:
                s[i] = '1'
            return K.from_bitstring(''.join(s), **vkw), True, True
        from e3fp.fingerprint.db import FingerprintDatabase
        db = FingerprintDatabase(fp_type=K, level=spec.get('level', -1))
        db.add_fingerprints([src, build(aux)] if aux['kind'] == kind and aux['bits'] == spec['bits'] and aux.get('level', -1) == spec.get('level', -1) else [src])
        return db[0], True, True
    if route in ('operator_or', 'operator_add', 'operator_sub'):
        if (route == 'operator_or') != (kind == 'KBit'):
            raise NotApplicable(route)
        other = build(aux)
        for nb, m in prefolds:
            other.fold(nb, m)
        if route == 'operator_or':
            return src | other, True, True
        return (src + other if route == 'operator_add' else src - other), True, True
    if route == 'unfold':
        if not prefolds:
            raise NotApplicable(route)
        return src.fold(*prefolds[-1]).unfold(), False, True
    if route == 'folded':
        if not prefolds:
            raise NotApplicable(route)
        return src.fold(*prefolds[-1]), True, True
    raise ValueError(route)


def aux_spec(rng, spec):
    """A second fingerprint of the same kind / length / level, overlapping the first (for the operator routes)."""
    bits = spec['bits']
    base = _idx_of(spec)
    idx = sorted(set([i for i in base if rng.random() < 0.6] + [(i + 1) % bits for i in base if rng.random() < 0.4] + fpgen.rand_indices(rng, bits, 3)))
    out = {'kind': spec['kind'], 'bits': bits, 'level': spec.get('level', -1)}
    if spec['kind'] == 'KBit':
        out['idx'] = idx
    elif spec['kind'] == 'KCount':
        out['cnt'] = {i: rng.choice([1, 1, 2, 3, 7]) for i in idx}
    else:
        out['cnt'] = {i: Fraction(rng.choice([1, 2, 3, 5, 9]), rng.choice([1, 2, 4])) for i in idx}
    return out


def derived_case(R, base, route, spec, prefolds, aux, seed, nb=None, method=None, form='pos', rng=None):
    """One derived-source fold through the model.  nb=None: choose the target from the chain of the derived object."""
    dist = R.dist['derived']
    try:
        a, fresh, linked = derive(route, spec, prefolds, aux, seed)
    except NotApplicable:
        dist['not_applicable'] = dist.get('not_applicable', 0) + 1
        return False
    except Exception as e:  # noqa      the routes fold (prefolds), copy, convert and unfold on the way: a raise there is a failure with its input
        k = 'source_construction_raised:%s:%s' % (route, type(e).__name__)
        dist[k] = dist.get(k, 0) + 1
        R.ctx.fail('building a fold source through route %r raised %s: %s' % (route, type(e).__name__, str(e)[:160]),
                   {'route': route, 'spec': fpgen.spec_to_json(spec) if hasattr(fpgen, 'spec_to_json') else str(spec), 'prefolds': [list(map(str, p)) for p in prefolds], 'seed': seed},
                   finding_key='fold:derived-source-raises')
        return True
    bits = int(a.bits)
    if nb is None:
        hit = [p for p in prefolds if p[0] <= bits and p[0] in [c[0] for c in base.chains(bits)]]
        if hit and route in COPY_ROUTES + ('pickle', 'deepcopy', 'copy', 'unfold') and rng.random() < 0.6:
            nb, method = hit[-1] if rng.random() < 0.7 else rng.choice(hit)         # the cached (bits, method)
        else:
            nb, method = rng.choice(base.chains(bits))[0], rng.choice([0, 1])
    rp = {'type': 'derived', 'route': route, 'spec': fpgen.spec_to_json(spec), 'prefolds': [list(p) for p in prefolds],
          'aux': fpgen.spec_to_json(aux), 'seed': seed, 'nb': nb, 'method': method, 'form': form}
    if route in COPY_ROUTES and [nb, method] in [list(p) for p in prefolds]:
        # from_fingerprint copies the cache entries of its argument without their index maps and links
        rp['expected_key'] = KEY_COPY
    dist['by_route'][route] = dist['by_route'].get(route, 0) + 1
    dist['after_earlier_folds'] += bool(prefolds)
    dist['cached_target'] += [nb, method] in [list(p) for p in prefolds]
    R.fold_obj('derived-' + route, a, nb, method, rp, form=form, fresh=fresh, linked_to_source=linked)
    return True


# --------------------------------------------------------------------------- attached data (implementation only)
def fold_index(bits, nb, method, i):
    return i % nb if method == 0 else i // (bits // nb)


def props_case(R, spec, nb, method, linked, seed):
    rng = random.Random(seed)
    rp = {'type': 'props', 'spec': fpgen.spec_to_json(spec), 'nb': nb, 'method': method, 'linked': linked, 'seed': seed}
    a = build(spec)
    oa = obs(a)
    shared_list = [1, 2, 3]
    a.set_prop('tag', rng.choice(['T', 'x y', '']))
    a.set_prop('num', rng.choice([0, 3.5, -1]))
    a.set_prop('vals', shared_list)
    idx = oa['idx']
    with_map = bool(idx) and rng.random() < 0.75
    iim = None
    if with_map:
        keys = idx if rng.random() < 0.6 else [i for i in idx if rng.random() < 0.6]
        iim = {np.int64(i) if rng.random() < 0.5 else int(i): set(rng.sample(range(100), rng.choice([1, 1, 2, 3]))) for i in keys}
        a.index_id_map = iim
    props0 = {k: v for k, v in a.props.items() if k != 'index_id_map'}
    iim0 = None if iim is None else {int(k): set(v) for k, v in iim.items()}
    pl = {'source': fpgen.obs_json(oa), 'props': {k: repr(v) for k, v in props0.items()}, 'index_id_map': None if iim0 is None else {str(k): sorted(v) for k, v in iim0.items()},
          'fold_bits': nb, 'method': method, 'linked': linked, 'replay': rp}
    kw = {} if linked and rng.random() < 0.5 else {'linked': linked}
    r = attempt(lambda: a.fold(nb, method, **kw))
    R.dist['props_cases'] += 1
    R.ctx.count(('props', str(oa), nb, method, linked, seed), with_map and len(idx) > 1)
    if r[0] != 'ok':
        R.fail('fold of a fingerprint that carries props / an index_id_map raised %s' % r[1], pl)
        return
    f = r[1]
    if f.props is a.props:
        R.fail('the folded fingerprint shares its props dictionary with the source', pl)
    got = {k: v for k, v in f.props.items() if k != 'index_id_map'}
    if set(got) != set(props0) or any(got[k] != props0[k] for k in props0):
        R.fail('props of the source were not carried to the folded fingerprint', dict(pl, folded_props={k: repr(v) for k, v in got.items()}))
    want = None
    if iim0 is not None:
        want = {}
        for i, ids in iim0.items():
            want.setdefault(fold_index(oa['bits'], nb, method, i), set()).update(ids)
    have = f.index_id_map
    have_c = None if have is None else {int(k): set(v) for k, v in have.items()}
    if have_c != want:
        R.fail('index_id_map of the folded fingerprint is not the index reduction of the source map (folded position -> union over its fibre)',
               dict(pl, folded_index_id_map=None if have_c is None else {str(k): sorted(v) for k, v in have_c.items()},
                    expected=None if want is None else {str(k): sorted(v) for k, v in want.items()}))
    # the folded object owns its containers: writes on one side never show on the other
    snap_f = ({k: v for k, v in f.props.items() if k != 'index_id_map'}, copy.deepcopy(have_c), obs(f))
    f.set_prop('tag', 'changed-on-folded')
    f.set_prop('new-key', 1)
    f.name = 'renamed'
    if have is not None:
        for j in list(have):
            have[j].add(-99)
        have[-5] = {1}
    now = {k: v for k, v in a.props.items() if k != 'index_id_map'}
    now_iim = None if a.index_id_map is None else {int(k): set(v) for k, v in a.index_id_map.items()}
    if set(now) != set(props0) or any(now[k] != props0[k] for k in props0) or now_iim != iim0 or obs(a) != oa:
        R.fail('writing props / name / index_id_map of the folded fingerprint changed the source',
               dict(pl, source_props_now={k: repr(v) for k, v in now.items()}, source_index_id_map_now=None if now_iim is None else {str(k): sorted(v) for k, v in now_iim.items()}))
    g = build(spec)
    for k, v in props0.items():
        g.set_prop(k, v)
    if iim is not None:
        g.index_id_map = {k: set(v) for k, v in iim0.items()}
    f2 = g.fold(nb, method, **kw)
    s2 = ({k: v for k, v in f2.props.items() if k != 'index_id_map'}, None if f2.index_id_map is None else {int(k): set(v) for k, v in f2.index_id_map.items()}, obs(f2))
    g.set_prop('tag', 'changed-on-source')
    g.name = 'source-renamed'
    if g.index_id_map is not None:
        for j in list(g.index_id_map):
            g.index_id_map[j].add(-77)
    s3 = ({k: v for k, v in f2.props.items() if k != 'index_id_map'}, None if f2.index_id_map is None else {int(k): set(v) for k, v in f2.index_id_map.items()}, obs(f2))
    if s2 != s3:
        R.fail('writing props / name / index_id_map of the source changed a fold result handed out earlier', dict(pl, before=repr(s2)[:800], after=repr(s3)[:800]))


# --------------------------------------------------------------------------- user-supplied reducers (implementation only)
REDUCERS = {
    'np.sum': (np.sum, sum, False), 'np.max': (np.max, max, True), 'np.min': (np.min, min, True), 'len': (len, len, False),
    'math.fsum': (math.fsum, math.fsum, False), 'sum_of_squares': (lambda l: sum(x * x for x in l), lambda l: sum(x * x for x in l), False),
    'constant_7': (lambda l: 7, lambda l: 7, True), 'builtin_max': (max, max, True), 'sorted_first': (lambda l: sorted(l)[0], min, True),
}                                                              # name -> (function handed to fold, oracle, idempotent under composition)


def oracle_fold(oa, nb, method, red):
    fib = {}
    for i, v in oa['cnt']:
        fib.setdefault(fold_index(oa['bits'], nb, method, i), []).append(v)
    conv = (lambda x: Fraction(int(x))) if oa['kind'] == 'KCount' else (lambda x: Fraction(float(x)))
    vals = {}
    for j, l in fib.items():
        l2 = [int(x) for x in l] if oa['kind'] == 'KCount' else [float(x) for x in l]
        vals[j] = conv(red(l2))
    return {'kind': oa['kind'], 'bits': nb, 'level': oa['level'], 'idx': sorted(fib), 'cnt': sorted(vals.items()), 'name': oa['name']}


def reducer_case(R, base, spec, nb, mid, method, rname, linked):
    fn, orc, idem = REDUCERS[rname]
    rp = {'type': 'reducer', 'spec': fpgen.spec_to_json(spec), 'nb': nb, 'mid': mid, 'method': method, 'reducer': rname, 'linked': linked}
    a = build(spec)
    oa = obs(a)
    pl = {'source': fpgen.obs_json(oa), 'fold_bits': nb, 'method': method, 'counts_method': rname, 'linked': linked, 'replay': rp}
    r = attempt(lambda: a.fold(nb, method, linked=linked, counts_method=fn))
    R.dist['reducer_cases'] += 1
    R.ctx.count(('reducer', str(oa), nb, method, rname, linked), True)
    if oa['kind'] == 'KBit':
        if r != ('err', 'EType'):
            R.fail('Fingerprint.fold accepted counts_method (documented for count fingerprints only) or raised something else', dict(pl, impl=str(r)))
        return
    if r[0] != 'ok':
        R.fail('fold(counts_method=%s) raised %s' % (rname, r[1]), dict(pl, impl=r[1]))
        return
    of, want = obs(r[1]), oracle_fold(oa, nb, method, orc)
    if not base.obs_close(of, want, base.tol_of(oa)[1] if rname not in ('math.fsum', 'np.sum', 'sum_of_squares') else base.TOLF):
        R.fail('fold(counts_method=%s) is not the reducer applied to the values of every fibre' % rname,
               dict(pl, impl=fpgen.obs_json(of), expected=fpgen.obs_json(want)))
    um = base.umap_obs(r[1].get_unfolding_index_map())
    want_um = {}
    for i in oa['idx']:
        want_um.setdefault(fold_index(oa['bits'], nb, method, i), []).append(i)
    if um != sorted((j, sorted(s)) for j, s in want_um.items()):
        R.fail('fold(counts_method=%s) recorded a wrong unfolding map' % rname, dict(pl, unfolding_map=um))
    if (r[1].unfold() is a) != linked or bool(a.folded_fingerprint) != linked:
        R.fail('fold(counts_method=%s, linked=%s): link state of result / source is not the requested one' % (rname, linked), pl)
    if obs(a) != oa:
        R.fail('source changed by fold(counts_method=%s)' % rname, dict(pl, after=fpgen.obs_json(obs(a))))
    if idem and mid is not None:
        b = build(spec)
        r2 = attempt(lambda: obs(b.fold(mid, method, counts_method=fn).fold(nb, method, counts_method=fn)))
        if r2[0] != 'ok' or not base.obs_close(r2[1], of, Fraction(0)):
            R.fail('two-step fold with counts_method=%s differs from the one-step fold' % rname,
                   dict(pl, mid=mid, two_step=fpgen.obs_json(r2[1]) if r2[0] == 'ok' else r2[1], one_step=fpgen.obs_json(of)))


# --------------------------------------------------------------------------- long chains on one object (implementation only)
def chain_case(R, base, spec, method, seed):
    rng = random.Random(seed)
    rp = {'type': 'chain', 'spec': fpgen.spec_to_json(spec), 'method': method, 'seed': seed}
    a = build(spec)
    oa = obs(a)
    lens = sorted(set(c[0] for c in base.chains(oa['bits'])), reverse=True)
    pl = {'source': fpgen.obs_json(oa), 'method': method, 'lengths': lens, 'replay': rp}
    R.dist['chain_cases'] += 1
    R.ctx.count(('chain', str(oa), method, seed), len(lens) > 2)
    cur, steps = a, 0
    for nb in lens[1:]:
        nxt = attempt(lambda: cur.fold(nb, method))
        if nxt[0] != 'ok':
            R.fail('halving chain: fold(%d) of the %d-bit intermediate raised %s' % (nb, cur.bits, nxt[1]), pl)
            return
        cur = nxt[1]
        steps += 1
        if rng.random() < 0.35 or nb == lens[-1]:
            direct = attempt(lambda: obs(build(spec).fold(nb, method)))
            if direct[0] != 'ok' or not base.obs_close(obs(cur), direct[1], base.tol_of(oa)[1]):
                R.fail('folding by halving %d times differs from folding to %d bits at once' % (steps, nb),
                       dict(pl, at=nb, chain=fpgen.obs_json(obs(cur)), one_step=fpgen.obs_json(direct[1]) if direct[0] == 'ok' else direct[1]))
                return
    back = cur
    for _ in range(steps):
        back = back.unfold()
    if back is not a or obs(a) != oa:
        R.fail('halving chain: unfolding %d times does not lead back to the unchanged source' % steps, pl)
    if len(lens) >= 3:
        nb, mid = lens[-1], rng.choice(lens[1:-1])
        # one-step and two-step on the SAME source object, both orders; an unlinked intermediate result
        b = build(spec)
        if rng.random() < 0.5:
            r2, r1 = attempt(lambda: b.fold(mid, method).fold(nb, method)), attempt(lambda: b.fold(nb, method))
        else:
            r1, r2 = attempt(lambda: b.fold(nb, method)), attempt(lambda: b.fold(mid, method).fold(nb, method))
        r3 = attempt(lambda: build(spec).fold(mid, method, linked=False).fold(nb, method))
        r4 = attempt(lambda: build(spec).fold(np.int64(mid), method).fold(bits=nb, method=method))      # the intermediate length is a numpy integer
        if not (r1[0] == r2[0] == r3[0] == r4[0] == 'ok' and base.obs_close(obs(r1[1]), obs(r2[1])) and base.obs_close(obs(r3[1]), obs(r1[1]))
                and base.obs_close(obs(r4[1]), obs(r1[1]))):
            R.fail('one-step, two-step (same source object), two-step through an unlinked intermediate result and through a numpy-length intermediate differ',
                   dict(pl, mid=mid, fold_bits=nb, results=[fpgen.obs_json(obs(x[1])) if x[0] == 'ok' else x[1] for x in (r1, r2, r3, r4)]))
        elif r1[1] is r2[1] or obs(b) != oa:
            R.fail('one-step and two-step fold returned the same object, or the source changed', dict(pl, mid=mid, fold_bits=nb))


# --------------------------------------------------------------------------- the part
def new_runner(ctx):
    from props import c07 as base
    R = base.Runner(ctx)
    R.dist.update({'derived': {'by_route': {}, 'after_earlier_folds': 0, 'cached_target': 0}, 'props_cases': 0, 'reducer_cases': 0, 'chain_cases': 0})
    return base, R


def part(ctx):
    rng = ctx.rng
    base, R = new_runner(ctx)
    BITS = [8, 16, 16, 32, 64, 12, 24, 1024, 1024, 4096, 2 ** 16, 2 ** 32, 2 ** 32, 3 * 2 ** 10]
    # 1. derived sources, every route in turn
    n = 0
    for k in range(ctx.n(230, 2600)):
        route = ROUTES[k % len(ROUTES)]
        kind = None
        if route in ('scaled', 'divided', 'operator_add', 'operator_sub'):
            kind = rng.choice(['KCount', 'KFloat'])
        elif route == 'floordiv':
            kind = 'KCount'
        elif route in ('from_bitstring', 'operator_or'):
            kind = 'KBit'
        bits = rng.choice(BITS if route not in ('from_vector_dense', 'from_bitstring') else [8, 16, 12, 64, 1024, 4096])
        spec = fpgen.rand_spec(rng, kind=kind, bits=bits)
        if route == 'operator_sub' and 'cnt' not in spec:
            spec['cnt'] = _cnt_of(spec)
            spec.pop('idx', None)
        ch = base.chains(bits)
        prefolds = []
        if route in ('unfold', 'folded') or (route in COPY_ROUTES + ('pickle', 'deepcopy', 'copy', 'operator_or', 'operator_add', 'operator_sub') and rng.random() < 0.6):
            prefolds = [(rng.choice(ch)[0], rng.choice([0, 1])) for _ in range(rng.choice([1, 1, 2, 3]))]
        form = 'pos' if rng.random() < 0.7 else rng.choice(('kw', 'np64', 'pos_linked'))
        n += derived_case(R, base, route, spec, prefolds, aux_spec(rng, spec), rng.randrange(2 ** 30), form=form, rng=rng)
    # 2. props and index_id_map
    for k in range(ctx.n(120, 1500)):
        bits = rng.choice(BITS)
        spec = fpgen.rand_spec(rng, bits=bits)
        nb = rng.choice(base.chains(bits))[0]
        if 'cnt' in spec or 'idx' in spec:
            key = 'cnt' if 'cnt' in spec else 'idx'
            for i in list(spec[key])[:3]:                         # make fibres with more than one member
                j = (i + nb) % bits
                if key == 'cnt':
                    spec[key].setdefault(j, spec[key][i])
                elif j not in spec[key]:
                    spec[key] = sorted(spec[key] + [j])
        props_case(R, spec, nb, rng.choice([0, 1]), rng.random() < 0.6, rng.randrange(2 ** 30))
    # 3. user-supplied reducers
    names = sorted(REDUCERS)
    for k in range(ctx.n(140, 1600)):
        bits = rng.choice(BITS)
        spec = fpgen.rand_spec(rng, kind=rng.choice(['KCount', 'KFloat', 'KCount', 'KFloat', 'KBit']), bits=bits)
        nb, mid = rng.choice(base.chains(bits))
        if 'cnt' in spec:
            for i in list(spec['cnt'])[:4]:
                spec['cnt'].setdefault((i + nb) % bits, rng.choice(list(spec['cnt'].values())))
                spec['cnt'].setdefault(i ^ 1 if (i ^ 1) < bits else i, rng.choice(list(spec['cnt'].values())))
        reducer_case(R, base, spec, nb, mid, rng.choice([0, 1]), names[k % len(names)], rng.random() < 0.5)
    # 4. chains
    for k in range(ctx.n(40, 500)):
        bits = rng.choice([16, 64, 1024, 2 ** 20, 2 ** 32, 2 ** 32, 96, 5 * 2 ** 20])
        spec = fpgen.rand_spec(rng, bits=bits)
        chain_case(R, base, spec, rng.choice([0, 1]), rng.randrange(2 ** 30))
    if R.cases:
        R.compare()
    elif n == 0:
        R.fail('C07 derived sources: no case was generated', {})
    R.dist['bits_seen'] = sorted(R.dist['bits_seen'])
    ctx.coverage.setdefault('input_distribution', {})['fingerprint_extra'] = R.dist
    ctx.coverage['rule'] = (ctx.coverage.get('rule', '') + ' [fingerprint part, derived sources] the folded object is a copy (from_fingerprint, pickle, deepcopy, copy.copy), '
                            'a scaled / divided fingerprint, an operator result, a conversion from a sparse / dense vector, a bit string, an unsorted list or numpy scalars, '
                            'a database row, an unfold() or a fold result, in 60% of the copy routes of a source that had been folded before (40% of those towards the cached '
                            '(bits, method)); props and index_id_map carried and owned by the result; 9 user-supplied reducers against a Python oracle; halving chains on one object.')
    ctx.assumptions += ['user-supplied counts_method functions are symmetric in their argument list (the order in which fold lists the values of a fibre is a set order)',
                        'index_id_map keys are positions of the fingerprint (a key that is no position makes fold raise KeyError: not a documented use)']
    return R.found


def replay_case(ctx, rp):
    t = rp.get('type')
    if t not in ('derived', 'props', 'reducer', 'chain'):
        return False
    base, R = new_runner(ctx)
    spec = fpgen.spec_from_json(rp['spec'])
    if t == 'derived':
        derived_case(R, base, rp['route'], spec, [tuple(p) for p in rp['prefolds']], fpgen.spec_from_json(rp['aux']), rp['seed'],
                     nb=rp['nb'], method=rp['method'], form=rp.get('form', 'pos'))
    elif t == 'props':
        props_case(R, spec, rp['nb'], rp['method'], rp['linked'], rp['seed'])
    elif t == 'reducer':
        reducer_case(R, base, spec, rp['nb'], rp.get('mid'), rp['method'], rp['reducer'], rp['linked'])
    else:
        chain_case(R, base, spec, rp['method'], rp['seed'])
    if R.cases:
        R.compare()
    return True
