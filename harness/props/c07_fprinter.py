"""C07, fingerprinter route: Fingerprinter(bits=b) / get_fingerprint_at_level(bits=b) = fold of the 2^32-bit fingerprint to b
= folding in two steps through an intermediate power-of-two length (theorem fprinter_bits_eq_fold; model tie through the M1 queries)."""
import core
import m1lib
import molfacts
import molgen
import fpgen


def part(ctx):
    rng = ctx.rng
    found = False
    cases = []
    n = 0
    for (name, m0, cid) in molgen.pool(rng, ctx.n(25, 400)):
        o = molgen.rand_opts(rng)
        counts = rng.random() < 0.5
        b = rng.choice([2 ** k for k in (3, 5, 8, 10, 12, 16, 20)])
        mid = rng.choice([x for x in (2 ** 12, 2 ** 16, 2 ** 24, 2 ** 31) if x >= b])
        m = molfacts.gridded(m0, conf_ids={cid})
        c = m1lib.Case(name, m, cid, o, bits=b, counts=counts)        # a fingerprinter created WITH bits=b
        if c.unstable:
            continue
        if c.err is not None:
            if c.heavy_retained() and not c.has_offtable_bond():
                found = True
                ctx.fail('Fingerprinter(bits=%d) raised %s' % (b, c.exc), c.payload(), finding_key=None)
            continue
        lv = rng.choice([None, 0, 1, c.k])
        r_direct = m1lib.query_impl(c.f, lv, None, [])                  # bits=None: the constructor's bits
        c.queries.append((lv, b, [], r_direct))
        r_arg = m1lib.query_impl(c.f, lv, b, [])                        # explicit bits argument
        full = c.f.get_fingerprint_at_level(level=lv, bits=2 ** 32)
        one = fpgen.obs(full.fold(b))
        two = fpgen.obs(full.fold(mid).fold(b))
        n += 1
        ctx.count(('fprinter-fold', name, cid, str(o), b, mid, counts, lv), bool(one['idx']))
        if not (r_direct[0] == 'ok' and r_arg[0] == 'ok' and r_direct[1] == r_arg[1] == one == two):
            found = True
            ctx.fail('fingerprinter bits=%d differs from folding the 2^32-bit fingerprint (one step / two steps via %d)' % (b, mid),
                     dict(c.payload(), direct=(fpgen.obs_json(r_direct[1]) if r_direct[0] == 'ok' else r_direct[1]), one_step=fpgen.obs_json(one), two_step=fpgen.obs_json(two)),
                     finding_key='C07:fprinter-route')
        c.queries.append((lv, 2 ** 32, [], ('ok', fpgen.obs(full))))
        cases.append(c)
    ctx.coverage.setdefault('input_distribution', {})['fprinter_route_cases'] = n
    found |= routes_part(ctx)
    found |= m1lib.run_cases(ctx, cases, 'C07 fingerprinter route (model tie)') > 0
    return found


# --------------------------------------------------------------------------- all routes pairwise, on the implementation
# The statement names four routes to a b-bit fingerprint: ask the fingerprinter (length given to the constructor or to
# get_fingerprint_at_level), fold the 2^32-bit fingerprint, fold it in two steps, fold a database of 2^32-bit fingerprints.
# The model tie above runs ~25 molecules with one (b, mid) each; here every route and every way of writing the request is
# compared with fold(b) of the 2^32-bit fingerprint for many lengths (1 ... 2^32), levels (None, -1, 0 ... beyond the last),
# exact=True, atom masks, both fingerprint types, one Fingerprinter object reused over the conformers, and lengths that are
# no power of two (the request must be refused exactly as fold refuses it).
LENGTHS = [1, 2, 8, 32, 64, 256, 1024, 1024, 4096, 2 ** 16, 2 ** 20, 2 ** 24, 2 ** 31, 2 ** 32]
KEY_ROUTES = 'C07:fprinter-route'


def _strip(o):
    return {k: o[k] for k in ('kind', 'bits', 'level', 'idx', 'cnt')}


def make_fprinter(o, bits, counts):
    from e3fp.fingerprint.fprinter import Fingerprinter
    return Fingerprinter(bits=bits, level=o['level'], radius_multiplier=o['mult'], stereo=o['stereo'], counts=counts,
                         include_disconnected=o['incl'], rdkit_invariants=o['rdkit'], exclude_floating=o['exfloat'],
                         remove_duplicate_substructs=o['remdup'])


def routes_case(ctx, name, mol, cids, o, counts, b0, queries, dist):
    """queries: list of (level, exact, mask, [b...], mid).  Returns True if something failed."""
    import numpy as np
    from e3fp.fingerprint.db import FingerprintDatabase
    from rdkit import Chem
    failed = False
    f0 = make_fprinter(o, b0, counts)
    fulls = {}
    for cid in cids:
        try:
            f0.run(cid, mol)                                  # ONE object over all conformers (what the pipeline does)
        except Exception:  # noqa      molecules the fingerprinter refuses are C02's subject
            dist['fingerprinter_refused'] = dist.get('fingerprinter_refused', 0) + 1
            return False
        k = int(f0.current_level)
        for qi, (lv, exact, mask, bs, mid) in enumerate(queries):
            lvv = k + 1 if lv == 'beyond' else (k if lv == 'last' else lv)
            kw = {'level': lvv, 'exact': exact, 'atom_mask': set(mask)}
            rfull = fpgen.attempt(lambda: f0.get_fingerprint_at_level(bits=2 ** 32, **kw))
            if rfull[0] != 'ok':
                # the request itself is refused (exact=True at a level that was never reached): every length must refuse it alike
                dist['refused_requests'] = dist.get('refused_requests', 0) + 1
                for b in bs:
                    rb = fpgen.attempt(lambda: f0.get_fingerprint_at_level(bits=b, **kw))
                    ctx.count(('fprinter-routes-refused', name, cid, str(lvv), exact, b), True)
                    if rb != rfull:
                        failed = True
                        ctx.fail('a request refused at 2^32 bits (%s) is answered differently at %d bits' % (rfull[1], b),
                                 {'name': name, 'conf': cid, 'opts': m1lib.opts_json(o), 'level': lvv, 'exact': exact, 'b': b, 'at_b': str(rb[1])[:200]}, finding_key=KEY_ROUTES)
                continue
            full = rfull[1]
            ofull = fpgen.obs(full)
            fulls.setdefault(qi, []).append((cid, full))
            for b in bs:
                want = fpgen.attempt(lambda: fpgen.obs(full.fold(b)))
                got = {}
                got['bits keyword'] = fpgen.attempt(lambda: fpgen.obs(f0.get_fingerprint_at_level(bits=b, **kw)))
                got['positional'] = fpgen.attempt(lambda: fpgen.obs(f0.get_fingerprint_at_level(lvv, b, exact, set(mask))))
                got['numpy integer'] = fpgen.attempt(lambda: fpgen.obs(f0.get_fingerprint_at_level(bits=np.int64(b), **kw)))
                got['fold(b, 0)'] = fpgen.attempt(lambda: fpgen.obs(f0.get_fingerprint_at_level(bits=2 ** 32, **kw).fold(b, 0)))
                if want[0] == 'ok':
                    fb = make_fprinter(o, b, counts)
                    fb.run(cid, mol)
                    got['constructor, bits omitted'] = fpgen.attempt(lambda: fpgen.obs(fb.get_fingerprint_at_level(**kw)))
                    got['constructor, bits=None'] = fpgen.attempt(lambda: fpgen.obs(fb.get_fingerprint_at_level(bits=None, **kw)))
                    got['constructor, bits=-1'] = fpgen.attempt(lambda: fpgen.obs(fb.get_fingerprint_at_level(lvv, -1, exact, set(mask))))
                    got['constructor, asked for 2^32 then folded'] = fpgen.attempt(lambda: fpgen.obs(fb.get_fingerprint_at_level(bits=2 ** 32, **kw).fold(b)))
                    if mid is not None and b <= mid:
                        got['two steps via %d' % mid] = fpgen.attempt(lambda: fpgen.obs(f0.get_fingerprint_at_level(bits=2 ** 32, **kw).fold(mid).fold(b)))
                        got['asked for %d then folded' % mid] = fpgen.attempt(lambda: fpgen.obs(f0.get_fingerprint_at_level(bits=mid, **kw).fold(b)))
                dist['route_comparisons'] += len(got)
                dist['lengths'][str(b)] = dist['lengths'].get(str(b), 0) + 1
                ctx.count(('fprinter-routes', name, cid, str(o), counts, str(lvv), exact, tuple(mask), b, mid), bool(ofull['idx']), n=len(got))
                badr = {r: v for r, v in got.items() if v != want}
                if badr or fpgen.obs(full) != ofull:
                    failed = True
                    ctx.fail('fingerprinter routes to %d bits differ from fold(%d) of the 2^32-bit fingerprint: %s' % (b, b, sorted(badr) or 'the 2^32-bit fingerprint changed'),
                             {'name': name, 'conf': cid, 'opts': m1lib.opts_json(o), 'counts': counts, 'first_fingerprinter_bits': b0, 'level': lvv, 'exact': exact,
                              'mask': sorted(mask), 'b': b, 'mid': mid,
                              'replay': {'type': 'fprinter_routes', 'name': name, 'opts': m1lib.opts_json(o), 'counts': counts, 'b0': b0, 'level': lvv, 'exact': exact,
                                         'mask': sorted(mask), 'b': b, 'mid': mid, 'molblock': Chem.MolToMolBlock(mol, confId=cid),
                                         'exact_coords_hex': [[float(c).hex() for c in mol.GetConformer(cid).GetAtomPosition(i)] for i in range(mol.GetNumAtoms())]},
                              'fold_of_full': fpgen.obs_json(want[1]) if want[0] == 'ok' else want[1],
                              'differing_routes': {r: (fpgen.obs_json(v[1]) if v[0] == 'ok' else v[1]) for r, v in badr.items()}}, finding_key=KEY_ROUTES)
    # the database route: all conformers' 2^32-bit fingerprints in one database, folded as a whole
    for qi, (lv, exact, mask, bs, mid) in enumerate(queries):
        items = fulls.get(qi, [])
        if not items:
            continue
        items = [it for it in items if it[1].level == items[0][1].level]        # 'last' / 'beyond' resolve per conformer; a database holds one level
        T = type(items[0][1])
        r = fpgen.attempt(lambda: FingerprintDatabase(fp_type=T, level=items[0][1].level))
        db = r[1] if r[0] == 'ok' else None
        r = fpgen.attempt(lambda: db.add_fingerprints([f for _, f in items]))
        if r[0] != 'ok':
            failed = True
            ctx.fail('2^32-bit fingerprints of a fingerprinter could not be stored in a database: %s' % r[1], {'name': name, 'opts': m1lib.opts_json(o), 'level': str(lv)}, finding_key=KEY_ROUTES)
            continue
        for b in bs:
            want = [fpgen.attempt(lambda f=f: _strip(fpgen.obs(f.fold(b)))) for _, f in items]
            chainb = [x for x in (mid,) if x is not None and b <= x]
            got = {'database fold': fpgen.attempt(lambda: db.fold(b))}
            if chainb:
                got['database fold in two steps via %d' % mid] = fpgen.attempt(lambda: db.fold(mid).fold(b))
            for rname, g in got.items():
                dist['route_comparisons'] += 1
                dist['database_route'] += 1
                if all(w[0] == 'ok' for w in want):
                    rows = fpgen.attempt(lambda: [_strip(fpgen.obs(g[1][j])) for j in range(len(items))]) if g[0] == 'ok' else g
                    ok = rows[0] == 'ok' and rows[1] == [w[1] for w in want]
                else:
                    ok = g[0] == 'err' and g[1] == want[0][1]
                    rows = g
                if not ok:
                    failed = True
                    ctx.fail('%s of the 2^32-bit fingerprints to %d bits differs from folding each fingerprint' % (rname, b),
                             {'name': name, 'confs': [c for c, _ in items], 'opts': m1lib.opts_json(o), 'counts': counts, 'level': str(lv), 'exact': exact, 'mask': sorted(mask), 'b': b,
                              'fingerprint_folds': [fpgen.obs_json(dict(w[1], name=None)) if w[0] == 'ok' else w[1] for w in want],
                              'database_rows': [fpgen.obs_json(dict(x, name=None)) for x in rows[1]] if rows[0] == 'ok' else str(rows[1])}, finding_key=KEY_ROUTES)
    return failed


def routes_part(ctx):
    rng = ctx.rng
    dist = {'molecules': 0, 'route_comparisons': 0, 'database_route': 0, 'lengths': {}, 'refused_lengths': 0}
    found = False
    for (name, m0, cid) in molgen.pool(rng, ctx.n(36, 400)):
        o = molgen.rand_opts(rng)
        counts = rng.random() < 0.5
        ids = [c.GetId() for c in m0.GetConformers()]
        cids = [ids[cid]] + ([rng.choice(ids)] if len(ids) > 1 and rng.random() < 0.6 else [])
        heavy = [a.GetIdx() for a in m0.GetAtoms() if a.GetAtomicNum() > 1]
        queries = []
        for lv in rng.sample([None, -1, 0, 1, 2, 'last', 'beyond'], 2):
            mask = rng.sample(heavy, min(len(heavy), rng.choice([1, 2]))) if heavy and rng.random() < 0.3 else []
            queries.append((lv, rng.random() < 0.25, mask, rng.sample(LENGTHS, 2), rng.choice([None, 2 ** 12, 2 ** 16, 2 ** 24, 2 ** 31])))
        dist['molecules'] += 1
        found = routes_case(ctx, name, m0, cids, o, counts, rng.choice([2 ** 32, 2 ** 32, 4096, 1024, 2 ** 20]), queries, dist) or found
    # lengths that fold refuses: the fingerprinter must refuse them the same way (constructor and argument)
    from e3fp.fingerprint.fprinter import Fingerprinter
    for (name, m0, cid) in molgen.pool(rng, ctx.n(10, 80)):
        b = rng.choice([1000, 12, 96, 3 * 2 ** 10, 2 ** 33, 5, 10 ** 6, 2 ** 32 - 1, 2 ** 31 + 2 ** 30])
        counts = rng.random() < 0.5
        ids = [c.GetId() for c in m0.GetConformers()]
        try:
            f = Fingerprinter(bits=b, level=3, counts=counts)
            f.run(ids[cid], m0)
            g = Fingerprinter(level=3, counts=counts)
            g.run(ids[cid], m0)
        except Exception:  # noqa
            continue
        full = g.get_fingerprint_at_level(bits=2 ** 32)
        want = fpgen.attempt(lambda: full.fold(b))
        got = {'constructor': fpgen.attempt(lambda: f.get_fingerprint_at_level()), 'argument': fpgen.attempt(lambda: g.get_fingerprint_at_level(bits=b)),
               'constructor, valid argument': fpgen.attempt(lambda: fpgen.obs(f.get_fingerprint_at_level(bits=1024)))}
        dist['refused_lengths'] += 1
        ctx.count(('fprinter-refused', name, b, counts), True)
        if want[0] != 'err' or got['constructor'] != want or got['argument'] != want or got['constructor, valid argument'] != ('ok', fpgen.obs(full.fold(1024))):
            found = True
            ctx.fail('a length that is not 2^32 divided by a power of two (%d) is not refused by the fingerprinter as fold refuses it' % b,
                     {'name': name, 'b': b, 'counts': counts, 'fold': str(want[1]), 'routes': {k: str(v[1])[:200] for k, v in got.items()}}, finding_key=KEY_ROUTES)
    ctx.coverage.setdefault('input_distribution', {})['fprinter_routes_on_implementation'] = dist
    ctx.coverage['rule'] = (ctx.coverage.get('rule', '') + ' [fingerprinter part] model tie on ~25 molecules; on the implementation every route (constructor bits with bits omitted / None / -1, '
                            'bits argument keyword / positional / numpy, two steps, folding what a b-bit request returned, database fold in one and two steps) against fold(b) of the '
                            '2^32-bit fingerprint for lengths 1 ... 2^32, levels None / -1 / 0 ... beyond the last, exact=True, atom masks, one Fingerprinter reused over conformers; refused lengths.')
    return found


def replay_case(ctx, rp):
    """Re-run one recorded route comparison (single conformer, exact coordinates restored)."""
    if rp.get('type') != 'fprinter_routes':
        return False
    from rdkit import Chem
    from rdkit.Geometry import Point3D
    m = Chem.MolFromMolBlock(rp['molblock'], removeHs=False)
    conf = m.GetConformer()
    for i, xyz in enumerate(rp['exact_coords_hex']):
        conf.SetAtomPosition(i, Point3D(*[float.fromhex(v) for v in xyz]))
    dist = {'molecules': 0, 'route_comparisons': 0, 'database_route': 0, 'lengths': {}, 'refused_lengths': 0}
    routes_case(ctx, rp['name'], m, [conf.GetId()], rp['opts'], rp['counts'], rp['b0'], [(rp['level'], rp['exact'], rp['mask'], [rp['b']], rp['mid'])], dist)
    return True
