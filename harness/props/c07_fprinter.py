"""C07, fingerprinter route: Fingerprinter(bits=b) / get_fingerprint_at_level(bits=b) = fold of the 2^32-bit fingerprint to b
= folding in two steps through an intermediate power-of-two length (theorem fprinter_bits_eq_fold; model tie through the M1 queries)."""
import core
import m1lib
import molfacts
import molgen
import fpgen


def part(ctx):
    rng = ctx.rng
    found = False
    cases = []
    n = 0
    for (name, m0, cid) in molgen.pool(rng, ctx.n(25, 400)):
        o = molgen.rand_opts(rng)
        counts = rng.random() < 0.5
        b = rng.choice([2 ** k for k in (3, 5, 8, 10, 12, 16, 20)])
        mid = rng.choice([x for x in (2 ** 12, 2 ** 16, 2 ** 24, 2 ** 31) if x >= b])
        m = molfacts.gridded(m0, conf_ids={cid})
        c = m1lib.Case(name, m, cid, o, bits=b, counts=counts)        # a fingerprinter created WITH bits=b
        if c.unstable:
            continue
        if c.err is not None:
            if c.heavy_retained() and not c.has_offtable_bond():
                found = True
                ctx.fail('Fingerprinter(bits=%d) raised %s' % (b, c.exc), c.payload(), finding_key=None)
            continue
        lv = rng.choice([None, 0, 1, c.k])
        r_direct = m1lib.query_impl(c.f, lv, None, [])                  # bits=None: the constructor's bits
        c.queries.append((lv, b, [], r_direct))
        r_arg = m1lib.query_impl(c.f, lv, b, [])                        # explicit bits argument
        full = c.f.get_fingerprint_at_level(level=lv, bits=2 ** 32)
        one = fpgen.obs(full.fold(b))
        two = fpgen.obs(full.fold(mid).fold(b))
        n += 1
        ctx.count(('fprinter-fold', name, cid, str(o), b, mid, counts, lv), bool(one['idx']))
        if not (r_direct[0] == 'ok' and r_arg[0] == 'ok' and r_direct[1] == r_arg[1] == one == two):
            found = True
            ctx.fail('fingerprinter bits=%d differs from folding the 2^32-bit fingerprint (one step / two steps via %d)' % (b, mid),
                     dict(c.payload(), direct=(fpgen.obs_json(r_direct[1]) if r_direct[0] == 'ok' else r_direct[1]), one_step=fpgen.obs_json(one), two_step=fpgen.obs_json(two)),
                     finding_key='C07:fprinter-route')
        c.queries.append((lv, 2 ** 32, [], ('ok', fpgen.obs(full))))
        cases.append(c)
    ctx.coverage.setdefault('input_distribution', {})['fprinter_route_cases'] = n
    found |= m1lib.run_cases(ctx, cases, 'C07 fingerprinter route (model tie)') > 0
    return found
