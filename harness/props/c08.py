"""C08 - saving and loading a database is lossless; text export writes one bit string per row
(model Model/DbIO.v, theorems Properties/C08.v).

Per generated database (all three kinds, built by add_fingerprints in batches / from_array on CSR or dense input /
from_array on a non-canonical CSR):
  * the database value satisfies the theorems' hypothesis `wfb` (decided in Coq on the observed value);
  * `.fpz`: savez (with and without the extension), the archive read back *by NumPy alone* equals the model's `savez`
    dictionary (keys in order, dtypes, 0-d flags, values bit-exact); load equals the model's `load` of that dictionary;
    the reloaded database equals the original field by field (decided on the implementation directly); 1-3 cycles;
  * `.fps.bz2`: the deprecated save/load: `__getstate__` equals the model's `getstate`, the reloaded database equals the
    model's `setstate` and the original; 1-3 cycles;
  * binary databases up to 2^14 bits: savetxt with and without names into plain/gz/bz2 files: file content equals the
    model's `savetxt` (or the modelled exception) and, parsed back, one line per row in row order, of length bits, with
    '1' exactly at the row's columns, followed by " " + name.

Coverage extension (specifications and builder in props/c08_cov.py; audit table in work/coverage_C08.md): a second stream of
databases - results of fold / get_subset / as_type / concat / + / copy / deepcopy / reload-then-add, property columns carried by
the fingerprints, NumPy-integer levels, names with control characters / 300 characters / numpy.str_, names handed over as
tuple / ndarray / generator, more integer and float dtypes, colliding key families, bits that are not powers of two, 8-40 rows,
negative / non-finite stored floats - and, per database: every save is followed by a re-observation of the saved database;
`==` and the container types are checked on both formats; file-name classes ('x.fpz.bak', 'x.FPZ', 'x.fpz.fps.bz2', ...),
keyword calls, default file names, paths that are written again and again; a chain alternating the two formats; a pickle state
without 'props'; __setstate__ on a used object; pickle protocols 0-5; deepcopy; text export with default / positional
with_names, into further extensions, above 2^14 bits, and of the reloaded databases."""
import bz2
import gzip
import json
import lzma
import os
import warnings
import core
import dbio_gen as G
from props import c08_cov as C

IMPORTS = ['From E3FP Require Import Base.Prelude Model.DbIO.']
TEXT_EXT = ['.txt', '.txt.gz', '.txt.bz2', '.bits', '', '.gz', '.bz2', '.txt.xz']



def _read_text(fn):
    if fn.endswith('.gz'):
        return gzip.open(fn, 'rb').read().decode('utf-8')
    if fn.endswith('.bz2'):
        return bz2.open(fn, 'rb').read().decode('utf-8')
    if fn.endswith('.xz'):
        return lzma.open(fn, 'rb').read().decode('utf-8')
    return open(fn, 'rb').read().decode('utf-8')


def text_lit(content):
    """Gallina literal of a text file: the lines as plain string literals joined by the model's `nl` (dbio_gen.slit prints a
    string that contains any control character, hence every multi-line text, as a list of byte values - five times longer)."""
    return '(String.concat nl %s)' % core.listlit([G.slit(p) for p in content.split('\n')])


def _err_tag(e):
    from e3fp.fingerprint import util as U
    for cls, tag in ((U.E3FPBitsValueError, 'EBits'), (U.E3FPInvalidFingerprintError, 'EInvalidFp'), (KeyError, 'EKey'),
                     (IndexError, 'EIndex'), (TypeError, 'EType'), (ValueError, 'EValue')):
        if isinstance(e, cls):
            return tag
    return 'EOther'


class Runner(object):
    def __init__(self, ctx):
        self.ctx = ctx
        self.cases, self.payloads, self.mexpr = [], {}, {}
        self.found_input = False
        self.dist = {'kind': {}, 'how': {}, 'bits': {}, 'names_mode': {}, 'level_none': 0, 'level_negative': 0, 'dbname_none': 0,
                     'with_none_name': 0, 'with_duplicate_name': 0, 'props_columns': {}, 'prop_dtypes': {}, 'tricky_prop_keys': 0,
                     'fpz_cycles': 0, 'fps_cycles': 0, 'savez_without_extension': 0, 'text_exports': 0, 'text_by_ext': {},
                     'text_expected_errors': 0, 'noncanonical_csr': 0, 'int64_indices': 0,
                     # coverage extension (c08_cov.py)
                     'extended_specs': 0, 'derived_op': {}, 'level_numpy_int': {}, 'names_container': {}, 'names_numpy_str': 0,
                     'rows': {}, 'all_rows_empty': 0, 'control_char_names': 0, 'long_names': 0, 'prop_input': {},
                     'float_special_data': 0, 'mixed_format_chain_steps': 0, 'savez_name_class': {}, 'save_name_class': {},
                     'reused_path_saves': 0, 'call_form': {}, 'operand_rechecks': 0, 'eq_checks': 0, 'legacy_state_without_props': 0,
                     'setstate_on_used_object': 0, 'pickle_protocol': {}, 'deepcopy': 0, 'default_filename': 0,
                     'text_call_form': {}, 'text_of_reloaded': 0, 'text_large_direct_only': 0, 'text_over_2^14_bits': 0,
                     'second_load_of_same_file': 0, 'direct_checks': 0}
        self.nfile = 0
        self.ndirect = 0
        self.reuse = {}
        self.force_reuse = False     # replay: always write to the paths that earlier databases have written
        self.prev_db = None
        self.subdir = os.path.join(ctx.workdir, 'sub dir é')
        os.makedirs(self.subdir, exist_ok=True)

    def path(self, stem, sub=False):
        self.nfile += 1
        return os.path.join(self.subdir if sub else self.ctx.workdir, 'f%05d_%s' % (self.nfile, stem))

    def reuse_path(self, what, ext):
        """One fixed path per format, written again and again by different databases (overwrite, no stale content, no caching)."""
        if what not in self.reuse:
            self.reuse[what] = os.path.join(self.ctx.workdir, 'reused_%s' % what.replace('.', '_')) + ext
        self.dist['reused_path_saves'] += 1
        return self.reuse[what]

    def add(self, key, expr, payload, model_out):
        self.cases.append((key, expr))
        self.payloads[key] = payload
        self.mexpr[key] = model_out

    def fail(self, what, payload, key):
        self.found_input = True
        self.ctx.fail(what, payload, finding_key=key)

    def bump(self, field, k):
        d = self.dist[field]
        d[str(k)] = d.get(str(k), 0) + 1

    def direct(self, n=1):
        self.ndirect += n
        self.dist['direct_checks'] += n

    def unchanged(self, what, obj, obefore, pl, key):
        """Saving must not modify the database that is saved."""
        self.dist['operand_rechecks'] += 1
        self.direct()
        try:
            d = G.diff_fields(obefore, G.db_obs(obj))
        except Exception as e:
            d = ['unobservable: %r' % (e,)]
        if d:
            self.fail('%s modified the database it saved (fields %s)' % (what, d), pl, key)
        return not d

    def same_shape(self, what, db, nxt, pl, key):
        """Container types of the reloaded database (values are compared through the observations)."""
        self.direct()
        bad = [a for a in ('fp_names', 'fp_names_to_indices', 'props') if type(getattr(nxt, a, None)) is not type(getattr(db, a))]
        if bad:
            self.fail('%s: reloaded database holds %s' % (what, ', '.join('%s as %s' % (a, type(getattr(nxt, a, None)).__name__) for a in bad)), pl, key)

    def check_eq(self, what, db, nxt, o0, spec, pl, key):
        # scipy subtracts non-canonical CSR operands with O(bits) scratch memory: MemoryError at 2^32 columns;
        # a database holding NaN is not == itself (NaN - NaN is stored), so == says nothing there
        if spec['how'] == 'noncanon' and o0['bits'] > 2 ** 16:
            return
        try:
            import math
            has_nan = any(isinstance(v, float) and not math.isfinite(v) for v in (getattr(db.array, 'data', []) if db.array is not None else []).tolist())
            if has_nan:                      # decided from the INPUT: NaN - NaN and inf - inf are NaN, so == says nothing there
                self.dist['eq_skipped_nan_values'] = self.dist.get('eq_skipped_nan_values', 0) + 1
                return
            if not (db == db):
                self.fail('%s: the saved database is not == itself' % what, pl, key)
                return
            self.dist['eq_checks'] += 1
            self.direct()
            if not (db == nxt and nxt == db):
                self.fail('%s: reloaded database is not == the original' % what, pl, key)
        except Exception as e:
            self.fail('%s: == raised %r' % (what, e), pl, key)

    def load_twice(self, what, fn, nxt, onxt, pl, key):
        """A second load of the same file: an equal database that shares nothing with the first one."""
        import numpy as np
        from e3fp.fingerprint.db import FingerprintDatabase
        self.direct()
        self.dist['second_load_of_same_file'] += 1
        try:
            again = FingerprintDatabase.load(fn)
            d = G.diff_fields(onxt, G.db_obs(again))
            shared = [a for a in ('array', 'fp_names', 'fp_names_to_indices', 'props') if getattr(again, a) is getattr(nxt, a)]
            if again is nxt:
                shared = ['the database object itself']
            elif not shared and again.array.nnz and np.shares_memory(again.array.data, nxt.array.data):
                shared = ['array.data buffer']
            if d:
                self.fail('%s: a second load of the same file differs from the first in %s' % (what, d), pl, key + ':second-load')
            elif shared:
                self.fail('%s: two loads of the same file share %s' % (what, ', '.join(shared)), pl, key + ':second-load-aliased')
        except Exception as e:
            self.fail('%s: a second load of the same file raised %r' % (what, e), pl, key + ':second-load')

    # ------------------------------------------------------------------ one save/load step per format
    def step_fpz(self, tag, label, base, spec, db, o0, cur, ocur, model=True):
        """cur.savez -> archive read by NumPy alone -> load; model cases + the property on the implementation.
        Returns (reloaded, observation) or None when the chain cannot go on."""
        import numpy as np
        from e3fp.fingerprint.db import FingerprintDatabase
        ctx = self.ctx
        r = 1.0 if self.force_reuse else ctx.rng.random()
        keep = False
        if r < 0.35:
            cls, arg = 'x.fpz', self.path('db') + '.fpz'
        elif r < 0.62:
            cls, arg = 'x', self.path('db')
        elif r < 0.70:
            cls, arg = 'x.fpz.bak', self.path('db') + '.fpz.bak'
        elif r < 0.75:
            cls, arg = 'x.FPZ', self.path('db') + '.FPZ'
        elif r < 0.80:
            cls, arg = 'x.fps', self.path('db') + '.fps'
        elif r < 0.88:
            cls, arg = 'subdir/x.fpz', self.path('d b', sub=True) + ctx.rng.choice(['.fpz', ''])
        else:
            cls, arg, keep = 'reused', self.reuse_path('fpz', '.fpz'), True
        fn = arg if arg.endswith('.fpz') else arg + '.fpz'
        self.bump('savez_name_class', cls)
        if fn != arg:
            self.dist['savez_without_extension'] += 1
        form = ctx.rng.choice(['pos', 'pos', 'kw'])
        self.bump('call_form', 'savez/load:' + form)
        pl0 = dict(base, step=label, file=os.path.basename(arg))
        try:
            if form == 'kw':
                cur.savez(fn=arg)
            else:
                cur.savez(arg)
            if not os.path.exists(fn) or (fn != arg and os.path.exists(arg)):
                raise IOError('savez(%r) did not write exactly %r' % (os.path.basename(arg), os.path.basename(fn)))
            if not self.unchanged('savez (%s)' % label, cur, ocur, pl0, 'fpz:operand-changed'):
                return None
            dobs = G.npz_obs(fn)
            nxt = FingerprintDatabase.load(fn=fn) if form == 'kw' else FingerprintDatabase.load(fn)
            onxt = G.db_obs(nxt)
            if ctx.rng.random() < 0.25:
                self.load_twice('.fpz %s' % label, fn, nxt, onxt, pl0, 'fpz')
        except Exception as e:
            self.fail('savez/load raised at %s: %r' % (label, e), pl0, 'fpz:exception')
            return None
        finally:
            if not keep:
                for f in (fn, arg):
                    if os.path.exists(f):
                        os.remove(f)
        Lc, Ld, Ln = G.dblit(ocur), G.dictlit(dobs), G.dblit(onxt)
        pl = dict(pl0, archive=dobs, reloaded=G.obs_json(onxt))
        if not model:
            pass
        elif isinstance(cur.level, np.integer):
            # model domain: level is a Python int (np.asanyarray(np.int32(5)) is a 0-d int32 array, the model writes int64);
            # the archive is checked through `load` and through the field comparison
            self.add('%s/%s/load' % (tag, label), 'result_eqb db_eqb (load %s) (Ok %s)' % (Ld, Ln), pl, 'load %s' % Ld)
        else:
            self.add('%s/%s/savez' % (tag, label), 'dict_eqb (savez %s) %s' % (Lc, Ld), pl, 'savez %s' % Lc)
            self.add('%s/%s/load' % (tag, label), 'result_eqb db_eqb (load %s) (Ok %s)' % (Ld, Ln), pl, 'load %s' % Ld)
        self.direct()
        d = G.diff_fields(o0, onxt)
        if d:
            self.fail('.fpz %s: reloaded database differs from the original in %s' % (label, d), pl, 'fpz:field:' + d[0])
        self.same_shape('.fpz %s' % label, db, nxt, pl, 'fpz:container-type')
        try:
            arr = nxt.array
            if arr.nnz and (int(arr.indices.min()) < 0 or int(arr.indices.max()) >= arr.shape[1] or int(arr.indptr[-1]) != arr.nnz):
                # structurally invalid CSR (scipy's C routines would read out of bounds and kill the interpreter)
                self.fail('.fpz %s: the reloaded sparse array is structurally invalid (column indices %d..%d for %d columns)'
                          % (label, int(arr.indices.min()), int(arr.indices.max()), arr.shape[1]), pl, 'fpz:invalid-csr')
                return None
        except Exception as e:
            self.fail('.fpz %s: reloaded array cannot be inspected: %r' % (label, e), pl, 'fpz:eq')
            return None
        self.check_eq('.fpz %s' % label, db, nxt, o0, spec, pl, 'fpz:eq')
        self.dist['fpz_cycles'] += 1
        return nxt, onxt

    def step_fps(self, tag, label, base, spec, db, o0, cur, ocur, model=True):
        from e3fp.fingerprint.db import FingerprintDatabase
        ctx = self.ctx
        keep = False
        r = 1.0 if self.force_reuse else ctx.rng.random()
        if r < 0.88:
            cls = ctx.rng.choice(['x', 'x.fps.bz2', 'x.fps', 'x.fps.gz', 'x.fpz.fps.bz2', 'x.pkl'])
            arg = self.path('db', sub=ctx.rng.random() < 0.1) + cls[1:]
        else:
            cls, arg, keep = 'reused', self.reuse_path('fps', '.fps.bz2'), True
        fn = arg if '.fps' in arg else arg + '.fps.bz2'
        self.bump('save_name_class', cls)
        form = ctx.rng.choice(['pos', 'pos', 'kw'])
        self.bump('call_form', 'save/load:' + form)
        pl0 = dict(base, step=label, file=os.path.basename(arg))
        try:
            with warnings.catch_warnings():
                warnings.simplefilter('ignore')
                st = G.state_obs(cur.__getstate__())
                if form == 'kw':
                    cur.save(fn=arg)
                else:
                    cur.save(arg)
            if not os.path.exists(fn) or (fn != arg and os.path.exists(arg)):
                raise IOError('save(%r) did not write exactly %r' % (os.path.basename(arg), os.path.basename(fn)))
            if not self.unchanged('save (%s)' % label, cur, ocur, pl0, 'fps:operand-changed'):
                return None
            nxt = FingerprintDatabase.load(fn=fn) if form == 'kw' else FingerprintDatabase.load(fn)
            onxt = G.db_obs(nxt)
            if ctx.rng.random() < 0.25:
                self.load_twice('.fps %s' % label, fn, nxt, onxt, pl0, 'fps')
        except Exception as e:
            self.fail('save/load (pickle) raised at %s: %r' % (label, e), pl0, 'fps:exception')
            return None
        finally:
            if not keep:
                for f in (fn, arg):
                    if os.path.exists(f):
                        os.remove(f)
        Lc, Ls, Ln = G.dblit(ocur), G.pstatelit(st), G.dblit(onxt)
        pl = dict(pl0, state=st, reloaded=G.obs_json(onxt))
        if model:
            self.add('%s/%s/getstate' % (tag, label), 'pstate_eqb (getstate %s) %s' % (Lc, Ls), pl, 'getstate %s' % Lc)
            self.add('%s/%s/setstate' % (tag, label), 'db_eqb (setstate %s) %s' % (Ls, Ln), pl, 'setstate %s' % Ls)
        self.direct()
        d = G.diff_fields(o0, onxt)
        if d:
            self.fail('.fps %s: reloaded database differs from the original in %s' % (label, d), pl, 'fps:field:' + d[0])
        self.same_shape('.fps %s' % label, db, nxt, pl, 'fps:container-type')
        self.check_eq('.fps %s' % label, db, nxt, o0, spec, pl, 'fps:eq')
        self.dist['fps_cycles'] += 1
        return nxt, onxt

    # ------------------------------------------------------------------ further ways through __getstate__/__setstate__
    def pickle_extras(self, tag, base, spec, db, o0):
        import copy
        import pickle
        from e3fp.fingerprint.db import FingerprintDatabase
        ctx = self.ctx
        # (a) a pickle written before property columns existed: state without 'props'
        try:
            st = dict(db.__getstate__())
            st.pop('props')
            new = FingerprintDatabase.__new__(FingerprintDatabase)
            new.__setstate__(st)
            sobs, on = G.state_obs(st), G.db_obs(new)
            pl = dict(base, step='legacy-state', state=sobs, reloaded=G.obs_json(on))
            self.add('%s/legacy/setstate' % tag, 'db_eqb (setstate %s) %s' % (G.pstatelit(sobs), G.dblit(on)), pl, 'setstate %s' % G.pstatelit(sobs))
            self.direct()
            d = G.diff_fields(dict(o0, props=[]), on)
            if d:
                self.fail('__setstate__ of a state without props: database differs from the original (props aside) in %s' % d, pl, 'fps:legacy:' + d[0])
            self.dist['legacy_state_without_props'] += 1
        except Exception as e:
            self.fail('__setstate__ of a state without props raised %r' % (e,), dict(base, step='legacy-state'), 'fps:legacy:exception')
        # (b) __setstate__ on an object that already holds another database: nothing of the old one may survive
        if self.prev_db is not None:
            try:
                tgt = copy.deepcopy(self.prev_db)
                tgt.__setstate__(db.__getstate__())
                on = G.db_obs(tgt)
                self.direct()
                d = G.diff_fields(o0, on)
                if d:
                    self.fail('__setstate__ on a used object: fields %s keep content of the previous database' % d,
                              dict(base, step='setstate-on-used', reloaded=G.obs_json(on)), 'fps:setstate-reuse:' + d[0])
                self.dist['setstate_on_used_object'] += 1
            except Exception as e:
                self.fail('__setstate__ on a used object raised %r' % (e,), dict(base, step='setstate-on-used'), 'fps:setstate-reuse:exception')
        # (c) every pickle protocol, and deepcopy (both go through __getstate__/__setstate__)
        proto = ctx.rng.randrange(0, pickle.HIGHEST_PROTOCOL + 1)
        for what, f in (('pickle protocol %d' % proto, lambda: pickle.loads(pickle.dumps(db, protocol=proto))), ('copy.deepcopy', lambda: copy.deepcopy(db))):
            try:
                y = f()
                on = G.db_obs(y)
                self.direct()
                d = G.diff_fields(o0, on)
                pl = dict(base, step=what, reloaded=G.obs_json(on))
                if d:
                    self.fail('%s: copy differs from the original in %s' % (what, d), pl, 'fps:pickle:' + d[0])
                self.same_shape(what, db, y, pl, 'fps:container-type')
                self.check_eq(what, db, y, o0, spec, pl, 'fps:eq')
            except Exception as e:
                self.fail('%s raised %r' % (what, e), dict(base, step=what), 'fps:pickle:exception')
        self.bump('pickle_protocol', proto)
        self.dist['deepcopy'] += 1

    def default_names(self, base, db, o0):
        """savez() / save() without a file name write fingerprints.fpz / fingerprints.fps.bz2 into the working directory."""
        from e3fp.fingerprint.db import FingerprintDatabase
        d = self.path('cwd')
        os.makedirs(d)
        old = os.getcwd()
        try:
            os.chdir(d)
            with warnings.catch_warnings():
                warnings.simplefilter('ignore')
                db.savez()
                db.save()
            got = sorted(os.listdir('.'))
            self.direct(3)
            if got != ['fingerprints.fps.bz2', 'fingerprints.fpz']:
                self.fail('savez()/save() without a file name wrote %s' % got, dict(base, step='default-names'), 'default-names:files')
            else:
                for f in got:
                    dd = G.diff_fields(o0, G.db_obs(FingerprintDatabase.load(f)))
                    if dd:
                        self.fail('%s: reloaded database differs from the original in %s' % (f, dd), dict(base, step='default-names'), 'default-names:field:' + dd[0])
        except Exception as e:
            self.fail('savez()/save() without a file name raised %r' % (e,), dict(base, step='default-names'), 'default-names:exception')
        finally:
            os.chdir(old)
            import shutil
            shutil.rmtree(d, ignore_errors=True)
        self.dist['default_filename'] += 1

    # ------------------------------------------------------------------ text export
    def savetxt_call(self, obj, fn, wn, form):
        with warnings.catch_warnings():
            warnings.simplefilter('ignore')
            if form == 'default':
                obj.savetxt(fn)
            elif form == 'pos':
                obj.savetxt(fn, wn)
            elif form == 'kw-all':
                obj.savetxt(fn=fn, with_names=wn)
            else:
                obj.savetxt(fn, with_names=wn)

    def text_part(self, tag, base, spec, db, o0, L0, reloaded):
        ctx = self.ctx
        for wn in (True, False):
            ext = '.txt' if self.force_reuse else ctx.rng.choice(TEXT_EXT)
            keep = self.force_reuse or ctx.rng.random() < 0.15
            fn = self.reuse_path('txt' + ext, ext) if keep else self.path('bits') + ext
            form = ctx.rng.choice(['kw', 'kw', 'pos', 'kw-all'] + (['default', 'default'] if wn else []))
            self.bump('text_call_form', form)
            try:
                self.savetxt_call(db, fn, wn, form)
                r = ('ok', _read_text(fn))
            except Exception as e:
                r = ('err', _err_tag(e))
                self.dist['text_expected_errors'] += 1
            exp = '(Ok %s)' % text_lit(r[1]) if r[0] == 'ok' else '(Raises %s)' % r[1]
            pl = dict(base, with_names=wn, call=form, file=os.path.basename(fn), content=r[1] if len(r[1]) < 3000 else r[1][:3000] + '...')
            m = 'savetxt %s %s' % (L0, core.blit(wn))
            # too long for a Gallina string literal: the property is then checked on the implementation alone
            big = o0['bits'] > 2 ** 14 or o0['nrows'] * max(o0['bits'], 1) > 100000 or len(r[1]) > 150000
            if not big:
                self.add('%s/txt/%s' % (tag, 'names' if wn else 'plain'), 'result_eqb String.eqb (%s) %s' % (m, exp), pl, m if o0['bits'] <= 64 else 'is_ok (%s)' % m)
            else:
                self.dist['text_large_direct_only'] += 1
            self.dist['text_exports'] += 1
            self.dist['text_over_2^14_bits'] += o0['bits'] > 2 ** 14
            self.bump('text_by_ext', ext)
            self.unchanged('savetxt', db, o0, pl, 'txt:operand-changed')
            canonical = spec['how'] != 'noncanon'
            named = all(n is not None for n in o0['names'])
            if o0['kind'] == 'KBit' and canonical and (named or not wn):
                # the property itself, on the implementation: parse the file back
                self.direct()
                if r[0] != 'ok':
                    self.fail('savetxt raised %s on a binary database with %s' % (r[1], 'all names' if wn else 'names not requested'), pl, 'txt:exception')
                else:
                    bad = self.parse_back(r[1], o0, wn)
                    if bad:
                        self.fail('text export: ' + bad, pl, 'txt:content')
            elif big and o0['kind'] != 'KBit':
                self.direct()
                if r != ('err', 'EInvalidFp'):
                    self.fail('savetxt of a non-binary database: %s instead of E3FPInvalidFingerprintError' % (r[1][:80],), pl, 'txt:exception')
            # a reloaded database exports the same text (names come back as numpy.str_, index arrays may be rebuilt)
            for what, y in reloaded:
                f2 = self.path('bits2') + ext
                try:
                    self.savetxt_call(y, f2, wn, 'kw')
                    r2 = ('ok', _read_text(f2))
                except Exception as e:
                    r2 = ('err', _err_tag(e))
                self.direct()
                self.dist['text_of_reloaded'] += 1
                if r2 != r:
                    self.fail('text export of the database reloaded from %s differs from the text export of the original' % what,
                              dict(pl, reloaded_from=what, reloaded_content=r2[1][:3000]), 'txt:reloaded')
                if os.path.exists(f2):
                    os.remove(f2)
            if os.path.exists(fn) and not keep:
                os.remove(fn)

    # ------------------------------------------------------------------ one database
    def one_db(self, tag, spec, cycles, text, extras=None):
        import numpy as np
        ctx = self.ctx
        sj = G.spec_json(spec)
        try:
            db = C.build(spec, ctx.workdir)
            o0 = G.db_obs(db)
        except Exception as e:  # the generator only asks for databases the API accepts
            self.fail('could not build/observe the database: %r' % (e,), {'spec': sj}, 'build')
            return
        L0 = G.dblit(o0)
        ncase0, ndirect0 = len(self.cases), self.ndirect
        base = {'spec': sj, 'original': G.obs_json(o0)}
        self.add('%s/wf' % tag, 'wfb %s' % L0, base, 'wfb %s' % L0)
        if extras is None:
            extras = bool(spec.get('ext')) or ctx.rng.random() < 0.35
        reloaded = []

        # ---- .fpz, .fps.bz2 (deprecated pickle path): 1-3 cycles each, then a chain that alternates the two formats
        for fmt, step in (('fpz', self.step_fpz), ('fps', self.step_fps)):
            cur, ocur = db, o0
            for c in range(cycles):
                r = step(tag, '%s%d' % (fmt, c + 1), base, spec, db, o0, cur, ocur)
                if r is None:
                    break
                cur, ocur = r
            if cur is not db:
                reloaded.append(('.' + fmt, cur))
        if extras:
            cur, ocur = db, o0
            fmt = ctx.rng.choice(['fpz', 'fps'])
            for c in range(ctx.rng.choice([2, 3, 4])):
                # (every step compared with the original on the implementation; the model comparisons are those of the cycles above)
                r = (self.step_fpz if fmt == 'fpz' else self.step_fps)(tag, 'mix%d%s' % (c + 1, fmt), base, spec, db, o0, cur, ocur, model=False)
                if r is None:
                    break
                cur, ocur = r
                self.dist['mixed_format_chain_steps'] += 1
                fmt = 'fps' if fmt == 'fpz' else ('fpz' if ctx.rng.random() < 0.8 else 'fps')
            self.pickle_extras(tag, base, spec, db, o0)
            if ctx.rng.random() < 0.06:
                self.default_names(base, db, o0)
            self.unchanged('the whole sequence of saves', db, o0, base, 'operand-changed')

        # ---- text export
        if text:
            self.text_part(tag, base, spec, db, o0, L0, reloaded)
        self.prev_db = db

        # ---- bookkeeping
        names = o0['names']
        dup = len(set(names)) < len(names)
        self.bump('kind', o0['kind'])
        self.bump('how', spec['how'])
        self.bump('bits', o0['bits'])
        self.bump('names_mode', spec.get('names_mode'))
        self.bump('props_columns', len(o0['props']))
        self.bump('rows', '1' if o0['nrows'] == 1 else '2-6' if o0['nrows'] <= 6 else '7-20' if o0['nrows'] <= 20 else '>20')
        for p in spec['props']:
            self.bump('prop_dtypes', p['dtype'])
            if 'input' in p:
                self.bump('prop_input', p['input'] if spec['how'] != 'add_fpprops' else 'fingerprint-props')
        self.dist['tricky_prop_keys'] += sum(1 for k, _ in o0['props'] if k.startswith('_') or k in ('data', 'shape', 'indices', 'indptr', 'fp_names', 'level', 'name', 'fp_type', ''))
        self.dist['level_none'] += o0['level'] is None
        self.dist['level_negative'] += o0['level'] is not None and o0['level'] < 0
        self.dist['dbname_none'] += o0['name'] is None
        self.dist['with_none_name'] += None in names
        self.dist['with_duplicate_name'] += dup
        self.dist['noncanonical_csr'] += spec['how'] == 'noncanon'
        self.dist['int64_indices'] += o0['idxw'] == 8
        self.dist['all_rows_empty'] += len(o0['indices']) == 0
        self.dist['control_char_names'] += any(n is not None and any(ord(ch) < 32 or ord(ch) == 127 for ch in n) for n in names)
        self.dist['long_names'] += any(n is not None and len(n) > 64 for n in names)
        if spec.get('ext'):
            self.dist['extended_specs'] += 1
            if spec.get('op'):
                self.bump('derived_op', spec['op'])
            if isinstance(db.level, np.integer):
                self.bump('level_numpy_int', type(db.level).__name__)
            if spec['how'].startswith('from_'):
                self.bump('names_container', spec.get('names_container'))
            self.dist['names_numpy_str'] += spec.get('names_type') == 'npstr'
            self.dist['float_special_data'] += o0['kind'] == 'KFloat' and any(v < 0 or (v >> 52) == 0x7ff for v in o0['data'])
        nontrivial = len(o0['indices']) > 0 and (len(names) > 1 or bool(o0['props']))
        ctx.count(json.dumps([o0[f] for f in G.FIELDS], sort_keys=True, default=str), nontrivial,
                  n=len(self.cases) - ncase0 + self.ndirect - ndirect0)

    @staticmethod
    def parse_back(content, o0, wn):
        if not content.endswith('\n') and content:
            return 'file does not end with a newline'
        lines = content.split('\n')[:-1]
        # names may contain anything but a line break here (the generator has none)
        if len(lines) != o0['nrows']:
            return '%d lines for %d rows' % (len(lines), o0['nrows'])
        bits = o0['bits']
        for i, line in enumerate(lines):
            row = o0['indices'][o0['indptr'][i]:o0['indptr'][i + 1]]
            bs, rest = line[:bits], line[bits:]
            if len(bs) != bits or set(bs) - set('01'):
                return 'row %d: bit string %r... is not %d characters of 0/1' % (i, bs[:40], bits)
            if [j for j, ch in enumerate(bs) if ch == '1'] != sorted(set(row)):
                return 'row %d: set positions differ from the matrix row' % i
            want = (' ' + o0['names'][i]) if wn else ''
            if rest != want:
                return 'row %d: %r follows the bit string, expected %r' % (i, rest[:60], want)
        return None


def witnesses(R):
    """Replay on the implementation the witnesses of the `_refuted` theorems of Properties/C08.v (inputs outside the
    theorems' hypotheses): the model must predict exactly what the implementation does with them."""
    import numpy as np
    from scipy.sparse import csr_matrix
    from e3fp.fingerprint.db import FingerprintDatabase
    from e3fp.fingerprint.fprint import Fingerprint
    ctx = R.ctx
    # (1) unsorted / duplicate column indices in a binary database handed to from_array: savetxt writes garbage
    for rows, bits in (([[5, 1]], 8), ([[3, 3]], 8), ([[1, 3], [7, 0, 2]], 8)):
        data = np.ones(sum(len(r) for r in rows), dtype=bool)
        m = csr_matrix((data, np.array([i for r in rows for i in r]), np.cumsum([0] + [len(r) for r in rows])), shape=(len(rows), bits))
        db = FingerprintDatabase.from_array(m, ['r%d' % i for i in range(len(rows))], fp_type=Fingerprint, level=2)
        o = G.db_obs(db)
        fn = R.path('w') + '.txt'
        db.savetxt(fn, with_names=False)
        txt = _read_text(fn)
        key = 'witness/savetxt-unsorted/%s' % rows
        R.add(key, 'result_eqb String.eqb (savetxt %s false) (Ok %s)' % (G.dblit(o), G.slit(txt)), {'rows': rows, 'bits': bits, 'content': txt},
              'savetxt %s false' % G.dblit(o))
        lens = [len(l) for l in txt.split('\n')[:-1]]
        ctx.notes.append('savetxt on unsorted/duplicate CSR columns %s (bits %d) writes lines of length %s (outside the property: rows of databases built by add_fingerprints/fold are sorted)' % (rows, bits, lens))
        ctx.count(key, True)
    # (2) a name ending in NUL does not survive the <U array of savez
    db = FingerprintDatabase(fp_type=Fingerprint, level=5, name='n')
    db.add_fingerprints([Fingerprint.from_indices([1], bits=8, level=5, name='a\x00'), Fingerprint.from_indices([2], bits=8, level=5, name='b')])
    o0 = G.db_obs(db)
    fn = R.path('w') + '.fpz'
    db.savez(fn)
    dobs = G.npz_obs(fn)
    o1 = G.db_obs(FingerprintDatabase.load(fn))
    R.add('witness/nul-name/savez', 'dict_eqb (savez %s) %s' % (G.dblit(o0), G.dictlit(dobs)), {'names': o0['names'], 'archive': dobs}, 'savez %s' % G.dblit(o0))
    R.add('witness/nul-name/load', 'result_eqb db_eqb (load %s) (Ok %s)' % (G.dictlit(dobs), G.dblit(o1)), {'names': o0['names'], 'reloaded': o1['names']}, 'load %s' % G.dictlit(dobs))
    R.add('witness/nul-name/not-wf', 'negb (wfb %s)' % G.dblit(o0), {'names': o0['names']}, 'wfb %s' % G.dblit(o0))
    lost = G.diff_fields(o0, o1)
    msg = 'fingerprint name %r reloads from .fpz as %r (fields changed: %s)' % (o0['names'][0], o1['names'][0], lost)
    recorded_outcome = o1['names'] == ['a', 'b'] and set(lost) <= {'names', 'index'}        # exactly: the trailing NUL is gone, nothing else changed
    if lost and not recorded_outcome:
        ctx.fail('a database with the name %r reloads from .fpz with OTHER changes than the recorded loss of the trailing NUL: %s' % (o0['names'][0], lost),
                 {'names': o0['names'], 'reloaded': o1['names'], 'fields_changed': lost})
    elif lost and any(f.get('key') == 'savez:fp-name-trailing-nul' for f in ctx.findings):
        ctx.fail(msg, {'names': o0['names'], 'reloaded': o1['names']}, finding_key='savez:fp-name-trailing-nul')
    else:
        ctx.notes.append(msg + ' - excluded by the hypothesis `wfb` (names without trailing NUL) of load_savez_id; witness load_savez_nul_refuted')
    ctx.count('witness/nul-name', True)


def run(ctx):
    ok, res = core.proof_step(ctx)
    core.setup_env()
    R = Runner(ctx)
    rng = ctx.rng
    n = ctx.n(150, 2000)
    for i in range(n):
        kind = G.KINDS[i % 3] if i < 30 else None
        text = (i % 3 == 0)
        spec = G.rand_spec(rng, kind='KBit' if (text and rng.random() < 0.85) else kind, text=text)
        if text and spec['bits'] > 1024 and rng.random() < 0.6:
            spec = G.rand_spec(rng, kind='KBit', bits=rng.choice([8, 16, 64, 256]), text=True)
        spec['text'] = text
        R.one_db('db%d' % i, spec, cycles=rng.choice([1, 1, 2, 3]), text=text)
    # coverage extension: input classes and call sequences the generator above does not draw (props/c08_cov.py)
    n2 = ctx.n(150, 1500)
    hows = ['add', 'add_fpprops', 'from_csr', 'from_dense'] + ['derived:' + op for op in C.DERIVED_OPS]
    for i in range(n2):
        text = (i % 3 == 0)
        kind = G.KINDS[i % 3] if i < 45 and not text else None
        how = hows[i % len(hows)] if i < 3 * len(hows) else None     # every way of building at least three times
        if how is None and not text and i % 10 == 7:
            kind, how = 'KFloat', 'from_csr'                          # float matrices with negative / non-finite stored values
        op = None
        if how and how.startswith('derived:'):
            how, op = 'derived', how.split(':')[1]
        spec = None
        for _ in range(50):
            spec = C.ext_spec(rng, kind='KBit' if (text and rng.random() < 0.9) else kind, text=text, how=how)
            if op is None or spec['op'] == op or (text and op == 'as_type'):
                break
        spec['text'] = text
        R.one_db('xdb%d' % i, spec, cycles=rng.choice([1, 1, 2, 3]), text=text)
    witnesses(R)
    for k in R.cases[:4] + R.cases[len(R.cases) // 2:len(R.cases) // 2 + 2]:
        pl = dict(R.payloads[k[0]])
        ctx.sample({'case': k[0], 'spec': pl.get('spec'), 'model_check': k[1][:600]})
    nbad = core.compare_cases(ctx, R.cases, IMPORTS, 'C08 save/load/text', R.payloads, model_expr=R.mexpr,
                              finding_key_of=lambda k, pl: 'model:' + k.split('/', 1)[1] if '/' in k else None, shard=200)
    found_input = R.found_input or nbad > 0
    ctx.coverage['rule'] = ('%d + %d seeded databases (generator dbio_gen.rand_spec + extension props/c08_cov.ext_spec: derived databases, fingerprint-borne '
                            'property columns, NumPy-int levels, unusual names/keys/dtypes/bits/rows) x {wf, savez dict, load, getstate, setstate per cycle '
                            '(1-3 cycles per format), a chain alternating the two formats, legacy pickle state, pickle protocol, deepcopy, savetxt with/without '
                            'names for every third database incl. the reloaded ones}; every save is followed by a re-observation of the saved database; '
                            'evaluations = model comparisons + direct checks on the implementation; a database is non-trivial when it has stored entries and '
                            'more than one row or a property column; distinct by full observed value' % (n, n2))
    ctx.coverage['input_distribution'] = R.dist
    ctx.coverage['trusted_base'] = [
        'NumPy archive (np.savez_compressed / np.load(allow_pickle=True)): key->array map round-trips with dtype, shape and values - Section hypothesis npz_roundtrip of the theorems; exercised on every case',
        'pickle + smart_open (bz2/gz) for the deprecated .fps path: Section hypothesis pkl_roundtrip; exercised on every case',
        'scipy.sparse csr_matrix construction keeps the (data, indices, indptr) triple and picks the index dtype as modelled by canon_idxw; exercised on every case']
    ctx.assumptions += [
        'fingerprint names are compared as str/None: after load from .fpz names are numpy.str_ (a str subclass, equal and hash-equal to the str)',
        'names, database name: no trailing NUL character (a <U array drops it; witness load_savez_nul_refuted, replayed on the implementation on every run)',
        'property keys are str; property columns are 1-d arrays of bool/int/float/str dtype (object columns are pickled by NumPy and not generated)',
        'text export: names without line breaks (a line break in a name would split the row; none generated)',
        'levels are Python ints within int64 or None; NumPy-integer levels are generated too: there the first archive is not compared with the model '
        '(the model writes int64, NumPy keeps the scalar dtype) but the reload is, and the level is compared by value',
        'text export above 2^14 bits (up to 2^17 are generated) or of more than 100000 characters (rows x bits) is not compared with the model: the '
        'property is checked on the implementation alone (parse_back)',
        '== is not consulted for a database that is not == itself (NaN among the stored values)',
        'savetxt to an open file handle (promised by the docstring) is not exercised: smart_open 8 refuses file objects (TypeError) on the unchanged tree; '
        'the property speaks of files by name']
    if ok and not ctx.quick:
        # independent re-check of the compiled theorems by the stand-alone checker
        rc, out = core.sh('timeout 900 coqchk -silent -o -Q theories E3FP E3FP.Properties.C08 2>&1', cwd=core.COQ, timeout=960)
        clean = rc == 0 and 'Axioms: <none>' in out.replace('\n  \n', ' ').replace('\n', ' ').replace('  ', ' ')
        ctx.notes.append('coqchk -o E3FP.Properties.C08: rc=%d, %s' % (rc, 'no axioms, no type-in-type, no unsafe fixpoints' if clean else out[-600:]))
        if rc != 0:
            ctx.fail('coqchk rejects the compiled Properties/C08', {'log_tail': out[-3000:]}, no_input=True, kind='proof-obligation')
    if not ok:
        core.report_broken_proof(ctx, res, found_input)


def replay(ctx, path):
    """Rebuild the database of a replay file from its specification and rerun every check on it."""
    d = json.load(open(path))
    case = d.get('case', {})
    print(json.dumps({k: v for k, v in d.items() if k != 'case'}, indent=1)[:2000])
    if 'spec' not in case:
        print(json.dumps(case, indent=1)[:4000])
        return 0
    core.setup_env()
    R = Runner(ctx)
    spec = G.spec_from_json(case['spec'])
    text = spec.get('text', spec['bits'] <= 2 ** 14)
    # some failures need a history (a path that an earlier database has written, an object that held another database):
    # a fixed warm-up database first, then the case on the re-used paths, then the case on fresh paths of every name class
    warm = G.rand_spec(__import__('random').Random(0), kind='KBit', bits=16, text=True)
    R.force_reuse = True
    R.one_db('warmup', warm, cycles=1, text=text, extras=True)
    R.one_db('replay-reused-paths', spec, cycles=2, text=text, extras=True)
    R.force_reuse = False
    R.one_db('replay', spec, cycles=3, text=text, extras=True)
    core.compare_cases(ctx, R.cases, IMPORTS, 'C08 replay', R.payloads, model_expr=R.mexpr)
    for v in ctx.violations:
        print('REPRODUCED:', v['what'][:400])
        print(json.dumps({k: v['payload'].get(k) for k in ('original', 'reloaded', 'archive', 'model_output', 'content') if k in v['payload']}, default=str)[:3000])
    if not ctx.violations:
        print('not reproduced on this tree')
    import shutil
    shutil.rmtree(ctx.workdir, ignore_errors=True)
    return 1 if ctx.violations else 0
