"""C08 - saving and loading a database is lossless; text export writes one bit string per row
(model Model/DbIO.v, theorems Properties/C08.v).

Per generated database (all three kinds, built by add_fingerprints in batches / from_array on CSR or dense input /
from_array on a non-canonical CSR):
  * the database value satisfies the theorems' hypothesis `wfb` (decided in Coq on the observed value);
  * `.fpz`: savez (with and without the extension), the archive read back *by NumPy alone* equals the model's `savez`
    dictionary (keys in order, dtypes, 0-d flags, values bit-exact); load equals the model's `load` of that dictionary;
    the reloaded database equals the original field by field (decided on the implementation directly); 1-3 cycles;
  * `.fps.bz2`: the deprecated save/load: `__getstate__` equals the model's `getstate`, the reloaded database equals the
    model's `setstate` and the original; 1-3 cycles;
  * binary databases up to 2^14 bits: savetxt with and without names into plain/gz/bz2 files: file content equals the
    model's `savetxt` (or the modelled exception) and, parsed back, one line per row in row order, of length bits, with
    '1' exactly at the row's columns, followed by " " + name."""
import bz2
import gzip
import json
import os
import warnings
import core
import dbio_gen as G

IMPORTS = ['From E3FP Require Import Base.Prelude Model.DbIO.']
TEXT_EXT = ['.txt', '.txt.gz', '.txt.bz2', '.bits']


def _read_text(fn):
    if fn.endswith('.gz'):
        return gzip.open(fn, 'rb').read().decode('utf-8')
    if fn.endswith('.bz2'):
        return bz2.open(fn, 'rb').read().decode('utf-8')
    return open(fn, 'rb').read().decode('utf-8')


def _err_tag(e):
    from e3fp.fingerprint import util as U
    for cls, tag in ((U.E3FPBitsValueError, 'EBits'), (U.E3FPInvalidFingerprintError, 'EInvalidFp'), (KeyError, 'EKey'),
                     (IndexError, 'EIndex'), (TypeError, 'EType'), (ValueError, 'EValue')):
        if isinstance(e, cls):
            return tag
    return 'EOther'


class Runner(object):
    def __init__(self, ctx):
        self.ctx = ctx
        self.cases, self.payloads, self.mexpr = [], {}, {}
        self.found_input = False
        self.dist = {'kind': {}, 'how': {}, 'bits': {}, 'names_mode': {}, 'level_none': 0, 'level_negative': 0, 'dbname_none': 0,
                     'with_none_name': 0, 'with_duplicate_name': 0, 'props_columns': {}, 'prop_dtypes': {}, 'tricky_prop_keys': 0,
                     'fpz_cycles': 0, 'fps_cycles': 0, 'savez_without_extension': 0, 'text_exports': 0, 'text_by_ext': {},
                     'text_expected_errors': 0, 'noncanonical_csr': 0, 'int64_indices': 0}
        self.nfile = 0

    def path(self, stem):
        self.nfile += 1
        return os.path.join(self.ctx.workdir, 'f%05d_%s' % (self.nfile, stem))

    def add(self, key, expr, payload, model_out):
        self.cases.append((key, expr))
        self.payloads[key] = payload
        self.mexpr[key] = model_out

    def fail(self, what, payload, key):
        self.found_input = True
        self.ctx.fail(what, payload, finding_key=key)

    def bump(self, field, k):
        d = self.dist[field]
        d[str(k)] = d.get(str(k), 0) + 1

    # ------------------------------------------------------------------ one database
    def one_db(self, tag, spec, cycles, text):
        from e3fp.fingerprint.db import FingerprintDatabase
        ctx = self.ctx
        sj = G.spec_json(spec)
        try:
            db = G.build_db(spec)
            o0 = G.db_obs(db)
        except Exception as e:  # the generator only asks for databases the API accepts
            self.fail('could not build/observe the database: %r' % (e,), {'spec': sj}, 'build')
            return
        L0 = G.dblit(o0)
        ncase0 = len(self.cases)
        base = {'spec': sj, 'original': G.obs_json(o0)}
        self.add('%s/wf' % tag, 'wfb %s' % L0, base, 'wfb %s' % L0)

        # ---- .fpz
        cur, ocur = db, o0
        for c in range(cycles):
            with_ext = ctx.rng.random() < 0.5
            stem = self.path('db') + ('.fpz' if with_ext else '')
            fn = stem if with_ext else stem + '.fpz'
            if not with_ext:
                self.dist['savez_without_extension'] += 1
            try:
                cur.savez(stem)
                if not os.path.exists(fn) or (not with_ext and os.path.exists(stem)):
                    raise IOError('savez(%r) did not write exactly %r' % (os.path.basename(stem), os.path.basename(fn)))
                dobs = G.npz_obs(fn)
                nxt = FingerprintDatabase.load(fn)
                onxt = G.db_obs(nxt)
            except Exception as e:
                self.fail('savez/load raised on cycle %d: %r' % (c + 1, e), dict(base, cycle=c + 1), 'fpz:exception')
                break
            Lc, Ld, Ln = G.dblit(ocur), G.dictlit(dobs), G.dblit(onxt)
            pl = dict(base, cycle=c + 1, archive=dobs, reloaded=G.obs_json(onxt))
            self.add('%s/fpz%d/savez' % (tag, c + 1), 'dict_eqb (savez %s) %s' % (Lc, Ld), pl, 'savez %s' % Lc)
            self.add('%s/fpz%d/load' % (tag, c + 1), 'result_eqb db_eqb (load %s) (Ok %s)' % (Ld, Ln), pl, 'load %s' % Ld)
            d = G.diff_fields(o0, onxt)
            if d:
                self.fail('.fpz cycle %d: reloaded database differs from the original in %s' % (c + 1, d), pl, 'fpz:field:' + d[0])
            try:
                arr = nxt.array
                if arr.nnz and (int(arr.indices.min()) < 0 or int(arr.indices.max()) >= arr.shape[1] or int(arr.indptr[-1]) != arr.nnz):
                    # structurally invalid CSR (scipy's C routines would read out of bounds and kill the interpreter)
                    self.fail('.fpz cycle %d: the reloaded sparse array is structurally invalid (column indices %d..%d for %d columns)'
                              % (c + 1, int(arr.indices.min()), int(arr.indices.max()), arr.shape[1]), pl, 'fpz:invalid-csr')
                    break
                # scipy subtracts non-canonical CSR operands with O(bits) scratch memory: MemoryError at 2^32 columns
                if (spec['how'] != 'noncanon' or o0['bits'] <= 2 ** 16) and not (db == nxt and nxt == db):
                    self.fail('.fpz cycle %d: reloaded database is not == the original' % (c + 1), pl, 'fpz:eq')
            except Exception as e:
                self.fail('.fpz cycle %d: == raised %r' % (c + 1, e), pl, 'fpz:eq')
            cur, ocur = nxt, onxt
            self.dist['fpz_cycles'] += 1
            os.remove(fn)

        # ---- .fps.bz2 (deprecated pickle path)
        cur, ocur = db, o0
        for c in range(cycles):
            stem = self.path('db') + ctx.rng.choice(['', '.fps.bz2', '.fps', '.fps.gz'])
            fn = stem if '.fps' in os.path.basename(stem) else stem + '.fps.bz2'
            try:
                with warnings.catch_warnings():
                    warnings.simplefilter('ignore')
                    st = G.state_obs(cur.__getstate__())
                    cur.save(stem)
                if not os.path.exists(fn):
                    raise IOError('save(%r) did not write %r' % (os.path.basename(stem), os.path.basename(fn)))
                nxt = FingerprintDatabase.load(fn)
                onxt = G.db_obs(nxt)
            except Exception as e:
                self.fail('save/load (pickle) raised on cycle %d: %r' % (c + 1, e), dict(base, cycle=c + 1), 'fps:exception')
                break
            Lc, Ls, Ln = G.dblit(ocur), G.pstatelit(st), G.dblit(onxt)
            pl = dict(base, cycle=c + 1, state=st, reloaded=G.obs_json(onxt))
            self.add('%s/fps%d/getstate' % (tag, c + 1), 'pstate_eqb (getstate %s) %s' % (Lc, Ls), pl, 'getstate %s' % Lc)
            self.add('%s/fps%d/setstate' % (tag, c + 1), 'db_eqb (setstate %s) %s' % (Ls, Ln), pl, 'setstate %s' % Ls)
            d = G.diff_fields(o0, onxt)
            if d:
                self.fail('.fps cycle %d: reloaded database differs from the original in %s' % (c + 1, d), pl, 'fps:field:' + d[0])
            cur, ocur = nxt, onxt
            self.dist['fps_cycles'] += 1
            os.remove(fn)

        # ---- text export
        if text:
            for wn in (True, False):
                ext = ctx.rng.choice(TEXT_EXT)
                fn = self.path('bits') + ext
                try:
                    with warnings.catch_warnings():
                        warnings.simplefilter('ignore')
                        db.savetxt(fn, with_names=wn)
                    r = ('ok', _read_text(fn))
                except Exception as e:
                    r = ('err', _err_tag(e))
                    self.dist['text_expected_errors'] += 1
                exp = '(Ok %s)' % G.slit(r[1]) if r[0] == 'ok' else '(Raises %s)' % r[1]
                pl = dict(base, with_names=wn, file=os.path.basename(fn), content=r[1] if len(r[1]) < 3000 else r[1][:3000] + '...')
                m = 'savetxt %s %s' % (L0, core.blit(wn))
                self.add('%s/txt/%s' % (tag, 'names' if wn else 'plain'), 'result_eqb String.eqb (%s) %s' % (m, exp), pl, m if o0['bits'] <= 64 else 'is_ok (%s)' % m)
                self.dist['text_exports'] += 1
                self.bump('text_by_ext', ext)
                canonical = spec['how'] != 'noncanon'
                named = all(n is not None for n in o0['names'])
                if o0['kind'] == 'KBit' and canonical and (named or not wn):
                    # the property itself, on the implementation: parse the file back
                    if r[0] != 'ok':
                        self.fail('savetxt raised %s on a binary database with %s' % (r[1], 'all names' if wn else 'names not requested'), pl, 'txt:exception')
                    else:
                        bad = self.parse_back(r[1], o0, wn)
                        if bad:
                            self.fail('text export: ' + bad, pl, 'txt:content')
                if os.path.exists(fn):
                    os.remove(fn)

        # ---- bookkeeping
        names = o0['names']
        dup = len(set(names)) < len(names)
        self.bump('kind', o0['kind'])
        self.bump('how', spec['how'])
        self.bump('bits', o0['bits'])
        self.bump('names_mode', spec.get('names_mode'))
        self.bump('props_columns', len(o0['props']))
        for p in spec['props']:
            self.bump('prop_dtypes', p['dtype'])
        self.dist['tricky_prop_keys'] += sum(1 for k, _ in o0['props'] if k.startswith('_') or k in ('data', 'shape', 'indices', 'indptr', 'fp_names', 'level', 'name', 'fp_type', ''))
        self.dist['level_none'] += o0['level'] is None
        self.dist['level_negative'] += o0['level'] is not None and o0['level'] < 0
        self.dist['dbname_none'] += o0['name'] is None
        self.dist['with_none_name'] += None in names
        self.dist['with_duplicate_name'] += dup
        self.dist['noncanonical_csr'] += spec['how'] == 'noncanon'
        self.dist['int64_indices'] += o0['idxw'] == 8
        nontrivial = len(o0['indices']) > 0 and (len(names) > 1 or bool(o0['props']))
        ctx.count(json.dumps([o0[f] for f in G.FIELDS], sort_keys=True, default=str), nontrivial, n=len(self.cases) - ncase0)

    @staticmethod
    def parse_back(content, o0, wn):
        if not content.endswith('\n') and content:
            return 'file does not end with a newline'
        lines = content.split('\n')[:-1]
        # names may contain anything but a line break here (the generator has none)
        if len(lines) != o0['nrows']:
            return '%d lines for %d rows' % (len(lines), o0['nrows'])
        bits = o0['bits']
        for i, line in enumerate(lines):
            row = o0['indices'][o0['indptr'][i]:o0['indptr'][i + 1]]
            bs, rest = line[:bits], line[bits:]
            if len(bs) != bits or set(bs) - set('01'):
                return 'row %d: bit string %r... is not %d characters of 0/1' % (i, bs[:40], bits)
            if [j for j, ch in enumerate(bs) if ch == '1'] != sorted(set(row)):
                return 'row %d: set positions differ from the matrix row' % i
            want = (' ' + o0['names'][i]) if wn else ''
            if rest != want:
                return 'row %d: %r follows the bit string, expected %r' % (i, rest[:60], want)
        return None


def witnesses(R):
    """Replay on the implementation the witnesses of the `_refuted` theorems of Properties/C08.v (inputs outside the
    theorems' hypotheses): the model must predict exactly what the implementation does with them."""
    import numpy as np
    from scipy.sparse import csr_matrix
    from e3fp.fingerprint.db import FingerprintDatabase
    from e3fp.fingerprint.fprint import Fingerprint
    ctx = R.ctx
    # (1) unsorted / duplicate column indices in a binary database handed to from_array: savetxt writes garbage
    for rows, bits in (([[5, 1]], 8), ([[3, 3]], 8), ([[1, 3], [7, 0, 2]], 8)):
        data = np.ones(sum(len(r) for r in rows), dtype=bool)
        m = csr_matrix((data, np.array([i for r in rows for i in r]), np.cumsum([0] + [len(r) for r in rows])), shape=(len(rows), bits))
        db = FingerprintDatabase.from_array(m, ['r%d' % i for i in range(len(rows))], fp_type=Fingerprint, level=2)
        o = G.db_obs(db)
        fn = R.path('w') + '.txt'
        db.savetxt(fn, with_names=False)
        txt = _read_text(fn)
        key = 'witness/savetxt-unsorted/%s' % rows
        R.add(key, 'result_eqb String.eqb (savetxt %s false) (Ok %s)' % (G.dblit(o), G.slit(txt)), {'rows': rows, 'bits': bits, 'content': txt},
              'savetxt %s false' % G.dblit(o))
        lens = [len(l) for l in txt.split('\n')[:-1]]
        ctx.notes.append('savetxt on unsorted/duplicate CSR columns %s (bits %d) writes lines of length %s (outside the property: rows of databases built by add_fingerprints/fold are sorted)' % (rows, bits, lens))
        ctx.count(key, True)
    # (2) a name ending in NUL does not survive the <U array of savez
    db = FingerprintDatabase(fp_type=Fingerprint, level=5, name='n')
    db.add_fingerprints([Fingerprint.from_indices([1], bits=8, level=5, name='a\x00'), Fingerprint.from_indices([2], bits=8, level=5, name='b')])
    o0 = G.db_obs(db)
    fn = R.path('w') + '.fpz'
    db.savez(fn)
    dobs = G.npz_obs(fn)
    o1 = G.db_obs(FingerprintDatabase.load(fn))
    R.add('witness/nul-name/savez', 'dict_eqb (savez %s) %s' % (G.dblit(o0), G.dictlit(dobs)), {'names': o0['names'], 'archive': dobs}, 'savez %s' % G.dblit(o0))
    R.add('witness/nul-name/load', 'result_eqb db_eqb (load %s) (Ok %s)' % (G.dictlit(dobs), G.dblit(o1)), {'names': o0['names'], 'reloaded': o1['names']}, 'load %s' % G.dictlit(dobs))
    R.add('witness/nul-name/not-wf', 'negb (wfb %s)' % G.dblit(o0), {'names': o0['names']}, 'wfb %s' % G.dblit(o0))
    lost = G.diff_fields(o0, o1)
    msg = 'fingerprint name %r reloads from .fpz as %r (fields changed: %s)' % (o0['names'][0], o1['names'][0], lost)
    if lost and any(f.get('key') == 'savez:fp-name-trailing-nul' for f in ctx.findings):
        ctx.fail(msg, {'names': o0['names'], 'reloaded': o1['names']}, finding_key='savez:fp-name-trailing-nul')
    else:
        ctx.notes.append(msg + ' - excluded by the hypothesis `wfb` (names without trailing NUL) of load_savez_id; witness load_savez_nul_refuted')
    ctx.count('witness/nul-name', True)


def run(ctx):
    ok, res = core.proof_step(ctx)
    core.setup_env()
    R = Runner(ctx)
    rng = ctx.rng
    n = ctx.n(150, 2000)
    for i in range(n):
        kind = G.KINDS[i % 3] if i < 30 else None
        text = (i % 3 == 0)
        spec = G.rand_spec(rng, kind='KBit' if (text and rng.random() < 0.85) else kind, text=text)
        if text and spec['bits'] > 1024 and rng.random() < 0.6:
            spec = G.rand_spec(rng, kind='KBit', bits=rng.choice([8, 16, 64, 256]), text=True)
        R.one_db('db%d' % i, spec, cycles=rng.choice([1, 1, 2, 3]), text=text)
    witnesses(R)
    for k in R.cases[:4] + R.cases[len(R.cases) // 2:len(R.cases) // 2 + 2]:
        pl = dict(R.payloads[k[0]])
        ctx.sample({'case': k[0], 'spec': pl.get('spec'), 'model_check': k[1][:600]})
    nbad = core.compare_cases(ctx, R.cases, IMPORTS, 'C08 save/load/text', R.payloads, model_expr=R.mexpr,
                              finding_key_of=lambda k, pl: 'model:' + k.split('/', 1)[1] if '/' in k else None, shard=200)
    found_input = R.found_input or nbad > 0
    ctx.coverage['rule'] = ('%d seeded databases x {wf, savez dict, load, getstate, setstate per cycle (1-3 cycles per format), savetxt with/without names '
                            'for every third database}; a database is non-trivial when it has stored entries and more than one row or a property column; '
                            'distinct by full observed value' % n)
    ctx.coverage['input_distribution'] = R.dist
    ctx.coverage['trusted_base'] = [
        'NumPy archive (np.savez_compressed / np.load(allow_pickle=True)): key->array map round-trips with dtype, shape and values - Section hypothesis npz_roundtrip of the theorems; exercised on every case',
        'pickle + smart_open (bz2/gz) for the deprecated .fps path: Section hypothesis pkl_roundtrip; exercised on every case',
        'scipy.sparse csr_matrix construction keeps the (data, indices, indptr) triple and picks the index dtype as modelled by canon_idxw; exercised on every case']
    ctx.assumptions += [
        'fingerprint names are compared as str/None: after load from .fpz names are numpy.str_ (a str subclass, equal and hash-equal to the str)',
        'names, database name: no trailing NUL character (a <U array drops it; witness load_savez_nul_refuted, replayed on the implementation on every run)',
        'property keys are str; property columns are 1-d arrays of bool/int/float/str dtype (object columns are pickled by NumPy and not generated)',
        'text export: names without line breaks (a line break in a name would split the row; none generated)',
        'levels are Python ints within int64 or None']
    if ok and not ctx.quick:
        # independent re-check of the compiled theorems by the stand-alone checker
        rc, out = core.sh('timeout 900 coqchk -silent -o -Q theories E3FP E3FP.Properties.C08 2>&1', cwd=core.COQ, timeout=960)
        clean = rc == 0 and 'Axioms: <none>' in out.replace('\n  \n', ' ').replace('\n', ' ').replace('  ', ' ')
        ctx.notes.append('coqchk -o E3FP.Properties.C08: rc=%d, %s' % (rc, 'no axioms, no type-in-type, no unsafe fixpoints' if clean else out[-600:]))
        if rc != 0:
            ctx.fail('coqchk rejects the compiled Properties/C08', {'log_tail': out[-3000:]}, no_input=True, kind='proof-obligation')
    if not ok:
        core.report_broken_proof(ctx, res, found_input)


def replay(ctx, path):
    """Rebuild the database of a replay file from its specification and rerun every check on it."""
    d = json.load(open(path))
    case = d.get('case', {})
    print(json.dumps({k: v for k, v in d.items() if k != 'case'}, indent=1)[:2000])
    if 'spec' not in case:
        print(json.dumps(case, indent=1)[:4000])
        return 0
    core.setup_env()
    R = Runner(ctx)
    spec = G.spec_from_json(case['spec'])
    R.one_db('replay', spec, cycles=3, text=spec['bits'] <= 2 ** 14)
    core.compare_cases(ctx, R.cases, IMPORTS, 'C08 replay', R.payloads, model_expr=R.mexpr)
    for v in ctx.violations:
        print('REPRODUCED:', v['what'][:400])
        print(json.dumps({k: v['payload'].get(k) for k in ('original', 'reloaded', 'archive', 'model_output', 'content') if k in v['payload']}, default=str)[:3000])
    if not ctx.violations:
        print('not reproduced on this tree')
    import shutil
    shutil.rmtree(ctx.workdir, ignore_errors=True)
    return 1 if ctx.violations else 0
