"""C08, coverage extension (part module of c08.py): database specifications that the shared generator dbio_gen.rand_spec does
not draw, and the builder for them.  An extended specification is a superset of a dbio_gen specification (JSON-able through
dbio_gen.spec_json / spec_from_json); `build` falls back to dbio_gen.build_db for the old ones.

New input classes (all inside C08's quantifier: non-empty databases of the three kinds, bits 1..2^32, any level/name, str/None/
duplicate names, int/float/bool/str property columns):
  * how = 'add_fpprops': the property columns come from the fingerprints themselves (add_fingerprints collects them, batch by
    batch, through np.append);
  * how = 'derived': the database under test is the result of another API call on a database built by add_fingerprints:
    fold / fold to binary / get_subset / as_type / concat / + / copy.copy / copy.deepcopy / reload (.fpz or pickle) followed by
    more add_fingerprints;
  * levels that are NumPy integers (np.int64 / int32 / int16 / uint8) instead of Python ints;
  * fp_names handed to from_array as tuple / ndarray / generator, names that are numpy.str_, names with control characters
    (embedded NUL, tab, CR, LF when no text export follows), format-string braces, 300-character names, all-empty names;
  * bits that are not powers of two, 2^31+1, 2^32-1; rows that are empty / full / first-and-last column / runs; 8-40 rows;
  * property columns of int8/int16/uint16/uint32/uint64/float16, given as list / tuple / strided view / read-only array,
    long strings, all-empty strings, 4-8 columns, key families that collide once prefixed ('x', '_x', '__x'), all eight archive
    keys at once, keys with path separators / '.npy' / the keyword names of np.savez;
  * float matrices with negative, infinite, NaN and -0.0 stored values (from_array)."""
import copy
import os
import pickle
import numpy as np
import dbio_gen as G

EXT_BITS = [3, 7, 100, 1000, 3000, 65535, 65536, 2 ** 24 + 5, 2 ** 31 + 1, 2 ** 32 - 1, 2 ** 32, 1024, 4096]
TEXT_BITS = [1, 3, 7, 100, 100, 1000, 3000, 2 ** 14, 2 ** 14 + 1, 2 ** 15, 2 ** 16 + 3, 2 ** 17]
POW2_BITS = [64, 1024, 4096, 2 ** 20, 2 ** 32]
CTRL_NAMES = ['a\x00b', 'tab\there', 'cr\rhere', ' lead', 'trail ', '\u200bzw', 'é', '{0} {1:s}', '%s', 'a b c', '\x7f', '\\n', '#c', "q'\"q"]
KEY_FAMILIES = [['x', '_x', '__x'], ['data', '_data', '__data'], ['', '_', '__'], ['fp_names', '_fp_names'],
                ['data', 'shape', 'indices', 'indptr', 'fp_names', 'level', 'name', 'fp_type'],
                ['a/b', 'x.npy', 'arr_0', 'file', 'allow_pickle'], [' ', 'ключ', 'k' * 120, '.', 'a\\b', 'A', 'a'],
                ['zz', 'b', 'a', 'm', 'Z', '0']]
EXT_DTYPES = ['int8', 'int16', 'uint16', 'uint32', 'uint64', 'float16', 'int64', 'float64', 'bool', 'str', 'str', 'float32']
FP_PROP_DTYPES = ['int64', 'float64', 'bool', 'str', 'float32']
LONG_STRS = ['CC(C)Cc1ccc(cc1)[C@@H](C)C(=O)O' * 3, '', 's', 'été' * 20, 'x' * 65, 'None', ' ']
DERIVED_OPS = ['fold', 'fold_bit', 'subset', 'as_type', 'concat', 'plus', 'copy', 'deepcopy', 'reload_add', 'pickle_add']
LEVEL_TYPES = [None, None, 'int64', 'int32', 'int16', 'uint8']
_INT_RANGE = {'int8': (-2 ** 7, 2 ** 7 - 1), 'int16': (-2 ** 15, 2 ** 15 - 1), 'uint16': (0, 2 ** 16 - 1), 'uint32': (0, 2 ** 32 - 1),
              'uint64': (0, 2 ** 64 - 1), 'int64': (-2 ** 63, 2 ** 63 - 1)}


def edge_row(rng, bits):
    r = rng.random()
    if r < 0.15:
        return []
    if r < 0.3:
        return [0]
    if r < 0.45:
        return [bits - 1]
    if r < 0.6:
        return sorted(set([0, bits - 1]))
    if r < 0.75 and bits <= 256:
        return list(range(bits))
    if r < 0.85 and bits <= 256:
        return list(range(rng.randrange(2), bits, 2))
    k = rng.randrange(0, max(1, bits - 6))
    return [i for i in range(k, k + 6) if i < bits]


def ext_names(rng, n, text):
    mode = rng.choice(['ctrl', 'ctrl', 'long', 'allempty', 'samename', 'npstr', 'g'])
    if mode == 'g':
        return G.rand_names(rng, n) + ('str',)
    if mode == 'ctrl':
        pool = CTRL_NAMES + ([] if text else ['line\nbreak', '\n', 'a\r\nb']) + [None]
        return mode, [rng.choice(pool) for _ in range(n)], 'str'
    if mode == 'long':
        return mode, [rng.choice(['L' * 300, 'é' * 70 + str(i), 'x', 'M' * 65 + '_%d' % i]) for i in range(n)], 'str'
    if mode == 'allempty':
        return mode, [''] * n, 'str'
    if mode == 'samename':
        return mode, [rng.choice(['same', 'None', '1'])] * n, 'str'
    return mode, [rng.choice(G.NAME_POOLS['plain'] + G.NAME_POOLS['unicode']) for _ in range(n)], 'npstr'


def ext_prop(rng, n, key, dtypes):
    dt = rng.choice(dtypes)
    if dt in _INT_RANGE:
        lo, hi = _INT_RANGE[dt]
        vals = [rng.choice([0, 1, lo, hi, rng.randrange(lo, hi + 1)]) for _ in range(n)]
    elif dt == 'float16':
        vals = [float(np.float16(rng.choice([0.0, -0.0, 0.5, 1.5, -2.25, 65504.0, 6e-8, float('inf'), float('nan'), rng.uniform(-10, 10)]))) for _ in range(n)]
    elif dt == 'float32':
        vals = [float(np.float32(rng.choice([0.0, -0.0, 0.1, 1.5, -2.25, 1e-30, 3e38, float('inf'), float('nan'), rng.uniform(-10, 10)]))) for _ in range(n)]
    elif dt == 'float64':
        vals = [rng.choice(G.FLOATS + [rng.uniform(-10, 10)]) for _ in range(n)]
    elif dt == 'bool':
        vals = [rng.random() < 0.5 for _ in range(n)]
    else:
        vals = [''] * n if rng.random() < 0.15 else [rng.choice(LONG_STRS + ['CCO', 'c1ccccc1', '12']) for _ in range(n)]
    return {'key': key, 'dtype': dt, 'vals': vals, 'input': rng.choice(['array', 'array', 'list', 'tuple', 'strided', 'readonly'])}


def ext_spec(rng, kind=None, text=False, how=None):
    kind = kind or rng.choice(G.KINDS)
    how = how or rng.choice(['add', 'add_fpprops', 'add_fpprops', 'derived', 'derived', 'derived', 'from_csr', 'from_dense'])
    op = rng.choice(DERIVED_OPS) if how == 'derived' else None
    if text and op in ('as_type',):
        op = 'subset'
    if op in ('fold', 'fold_bit'):
        bits = rng.choice(POW2_BITS)
    else:
        bits = rng.choice(TEXT_BITS if text else EXT_BITS)
    if how == 'from_dense' and bits > 4096:
        how = 'from_csr'
    n = rng.choice([1, 2, 3, 5, 8, 8, 13, 24, 40])
    if bits > 2 ** 14 and text:
        n = min(n, 3)
    mode, names, ntype = ext_names(rng, n, text)
    special = kind == 'KFloat' and how == 'from_csr' and rng.random() < 0.75
    hollow = rng.random() < 0.06        # no stored entry at all
    rows = []
    for i in range(n):
        idx = edge_row(rng, bits) if rng.random() < 0.35 else G.rand_indices(rng, bits, maxn=rng.choice([8, 20]))
        if hollow:
            idx = []
        if kind == 'KBit':
            vals = [1] * len(idx)
        elif kind == 'KCount':
            vals = [rng.choice([1, 1, 2, 3, 7, 200, 255, 256, 65535]) for _ in idx]
        elif special:
            vals = [rng.choice([-1.5, -0.0, float('inf'), float('-inf'), float('nan'), 1e-310, -5e-324, 2.5, rng.uniform(-100, 100)]) for _ in idx]
        else:
            vals = [rng.choice([0.5, 1.0, 2.5, 0.1, 1e-5, 12345.678, 1e300, 5e-324, rng.uniform(0.01, 100)]) for _ in idx]
        rows.append({'idx': idx, 'vals': vals, 'name': names[i]})
    sizes, left = [], n
    while left:
        s = rng.randint(1, left)
        sizes.append(s)
        left -= s
    fam = rng.random() < 0.6
    if how == 'add_fpprops':
        keys = rng.sample(['e', 'x', '_x', 'data', 'level', 'name', 'Energy (kcal)', 'é', 'i', ''], rng.choice([1, 2, 3, 5]))
        dtypes = FP_PROP_DTYPES
    elif fam:
        keys, dtypes = list(rng.choice(KEY_FAMILIES)), EXT_DTYPES
        rng.shuffle(keys)
    else:
        keys, dtypes = rng.sample(G.PROP_KEYS, rng.choice([0, 1, 4])), EXT_DTYPES
    level = rng.choice(G.LEVELS)
    ltype = rng.choice(LEVEL_TYPES)
    if level is None or (ltype == 'uint8' and not 0 <= level < 256) or (ltype in ('int16', 'int32') and abs(level) >= 2 ** 15):
        ltype = None
    spec = {'kind': kind, 'bits': bits, 'level': level, 'name': rng.choice(G.DBNAMES + ['fingerprints.fpz', 'N' * 200, 'two\nlines', 'a\x00b']),
            'rows': rows, 'how': how, 'batches': sizes, 'names_mode': 'x:' + str(mode), 'props': [ext_prop(rng, n, k, dtypes) for k in keys],
            'props_via': rng.choice(['set_prop', 'from_array']) if how.startswith('from_') else 'set_prop', 'ext': True,
            'level_type': ltype, 'names_type': ntype, 'names_container': rng.choice(['list', 'list', 'tuple', 'ndarray', 'generator']),
            'op': op}
    if op in ('fold', 'fold_bit'):
        spec['fold_to'] = rng.choice([b for b in (1, 2, 8, 64, 1024, 4096, 2 ** 20) if b <= bits and (b <= 4096 or not text)])
    if op == 'subset':
        spec['subset'] = [rng.randrange(n) for _ in range(rng.choice([1, 2, 3]))]
    if op == 'as_type':
        spec['to_kind'] = rng.choice([k for k in G.KINDS if k != kind])
    if op in ('concat', 'plus'):
        spec['times'] = rng.choice([2, 2, 3])
    if op in ('reload_add', 'pickle_add'):
        spec['extra_rows'] = rng.choice([0, 1, 2])
    return spec


# --------------------------------------------------------------------------- construction
def _level(spec):
    lt = spec.get('level_type')
    return spec['level'] if lt is None or spec['level'] is None else getattr(np, lt)(spec['level'])


def _name(spec, n):
    return np.str_(n) if spec.get('names_type') == 'npstr' and n is not None else n


def _prop_value(p):
    a = G.prop_array(p)
    how = p.get('input', 'array')
    if how == 'list':
        # the API converts with np.asanyarray: keep the dtype only where the conversion of a list gives it back
        return a.tolist() if p['dtype'] in ('int64', 'float64', 'bool', 'str') else a
    if how == 'tuple':
        return tuple(a.tolist()) if p['dtype'] in ('int64', 'float64', 'bool', 'str') else a
    if how == 'strided':
        big = np.empty(2 * len(a) + 1, dtype=a.dtype)
        big[...] = a[0] if len(a) else 0
        big[1::2] = a
        return big[1::2]
    if how == 'readonly':
        a = a.copy()
        a.setflags(write=False)
    return a


def _scalar(p, v):
    return {'int64': int, 'float64': float, 'bool': bool, 'str': str, 'float32': np.float32}[p['dtype']](v)


def _fps(spec, rows, level, with_props):
    out = []
    for j, r in enumerate(rows):
        f = G._fp(spec['kind'], dict(r, name=_name(spec, r['name'])), spec['bits'], level)
        if with_props:
            for p in spec['props']:
                f.set_prop(p['key'], _scalar(p, p['vals'][r['_pos']]))
        out.append(f)
    return out


def _build_add(spec, fpprops):
    from e3fp.fingerprint.db import FingerprintDatabase
    C = G.classes()[spec['kind']]
    db = FingerprintDatabase(fp_type=C, level=_level(spec), name=spec['name'])
    rows = [dict(r, _pos=i) for i, r in enumerate(spec['rows'])]
    pos = 0
    for s in spec['batches']:
        db.add_fingerprints(_fps(spec, rows[pos:pos + s], spec['level'], fpprops))
        pos += s
    if not fpprops:
        for p in spec['props']:
            db.set_prop(p['key'], _prop_value(p))
    return db


def _build_from(spec):
    from scipy.sparse import csr_matrix
    from e3fp.fingerprint.db import FingerprintDatabase
    from e3fp.fingerprint.fprint import dtype_from_fptype
    C = G.classes()[spec['kind']]
    dtype = np.dtype(dtype_from_fptype(C))
    rows = spec['rows']
    data = np.array([v for r in rows for v in r['vals']], dtype=dtype)
    indices = np.array([i for r in rows for i in r['idx']], dtype=np.int64)
    indptr = np.cumsum([0] + [len(r['idx']) for r in rows]).astype(np.int64)
    m = csr_matrix((data, indices, indptr), shape=(len(rows), spec['bits']))
    arr = m.toarray() if spec['how'] == 'from_dense' else m
    names = [_name(spec, r['name']) for r in rows]
    cont = spec.get('names_container', 'list')
    if cont == 'tuple':
        names = tuple(names)
    elif cont == 'ndarray':
        names = np.array(names, dtype=object if any(n is None for n in names) else None) if names else names
    elif cont == 'generator':
        names = (n for n in list(names))
    props = dict((p['key'], _prop_value(p)) for p in spec['props'])
    kw = {'fp_type': C, 'level': _level(spec), 'name': spec['name']}
    if spec['props_via'] == 'from_array':
        return FingerprintDatabase.from_array(arr, names, props=props, **kw)
    db = FingerprintDatabase.from_array(arr, names, **kw)
    for k, v in props.items():
        db.set_prop(k, v)
    return db


def _derive(spec, db, workdir):
    from e3fp.fingerprint.db import FingerprintDatabase, concat
    op = spec['op']
    K = G.classes()
    if op == 'fold':
        return db.fold(spec['fold_to'])
    if op == 'fold_bit':
        return db.fold(spec['fold_to'], fp_type=K['KBit'], name='folded')
    if op == 'subset':
        return db.get_subset([db.fp_names[i] for i in spec['subset']], name=spec['name'])
    if op == 'as_type':
        return db.as_type(K[spec['to_kind']])
    if op == 'concat':
        return concat([db] * spec['times'])
    if op == 'plus':
        out = db
        for _ in range(spec['times'] - 1):
            out = out + db
        return out
    if op == 'copy':
        return copy.copy(db)
    if op == 'deepcopy':
        return copy.deepcopy(db)
    if op == 'reload_add':
        fn = os.path.join(workdir, 'derive_tmp.fpz')
        db.savez(fn)
        out = FingerprintDatabase.load(fn)
        os.remove(fn)
    elif op == 'pickle_add':
        out = pickle.loads(pickle.dumps(db, protocol=pickle.HIGHEST_PROTOCOL))
    else:
        raise ValueError(op)
    k = spec.get('extra_rows', 0)
    if k and not spec['props']:
        rows = [dict(r, name=('again_%d' % i if i else r['name'])) for i, r in enumerate(spec['rows'][:k])]
        out.add_fingerprints([G._fp(spec['kind'], r, spec['bits'], spec['level']) for r in rows])
    return out


def build(spec, workdir):
    if not spec.get('ext'):
        return G.build_db(spec)
    if spec['how'] in ('add', 'add_fpprops'):
        return _build_add(spec, spec['how'] == 'add_fpprops')
    if spec['how'] in ('from_csr', 'from_dense'):
        return _build_from(spec)
    if spec['how'] == 'derived':
        return _derive(spec, _build_add(spec, False), workdir)
    raise ValueError(spec['how'])
