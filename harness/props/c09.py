"""C09 - fingerprint equality is a content-based equivalence; copies are independent
(model M2: Model/Fprint.v fp_eq / from_fingerprint, Model/FprintIO.v fp_ne / py_eq / py_ne; Properties/C09.v).

The FingerprintDatabase part of the property (`FingerprintDatabase.__eq__`) is props/c09_db.py (model Model/Db.v), called at the end of run()."""
import copy
import pickle
import numpy as np
import core
import fpgen
import fpio
from fpgen import obs, lit, attempt
from fpio import IMPORTS, rand_spec, related, build, xobs, xobs_json, cache_obs


def _b(r):
    return ('ok', bool(r[1])) if r[0] == 'ok' else r


def _blit(r):
    return '(Ok %s)' % core.blit(r[1]) if r[0] == 'ok' else '(Raises %s)' % r[1]


FORMS = [('==', lambda a, b: a == b, 'py_eq'), ('!=', lambda a, b: a != b, 'py_ne'),
         ('__eq__', lambda a, b: a.__eq__(b), 'fp_eq'), ('__ne__', lambda a, b: a.__ne__(b), 'fp_ne')]


def content(o):
    return (o['kind'], o['bits'], o['level'], tuple(o['idx']), tuple(o['cnt']))


class State(object):
    def __init__(self, ctx):
        self.ctx, self.rng = ctx, ctx.rng
        self.cases, self.payloads, self.mexpr = [], {}, {}
        self.found_input = False
        self.dist = {}

    def add(self, tag, expr, payload, model_out, nontrivial=True):
        key = '%s/%d' % (tag, len(self.cases))
        self.cases.append((key, expr))
        self.payloads[key] = dict(payload, section=tag)
        self.mexpr[key] = model_out
        self.dist[tag] = self.dist.get(tag, 0) + 1
        self.ctx.count((tag, str(payload)), nontrivial)

    def prop_fail(self, key, what, payload):
        self.found_input = True
        self.ctx.fail(what, payload, finding_key=key, kind='property-on-implementation')


def build_state(ctx):
    import importlib
    import sys
    st = State(ctx)
    for sec in (sec_pairs, sec_triples, sec_copies, sec_signed):
        sec(st)
    # coverage extension (props/c09_cov.py): construction routes, near-miss contents, cross-kind and subclass pairs,
    # compare-mutate-compare sequences, copies of folded fingerprints, copy chains
    cov = importlib.import_module('props.c09_cov')
    me = sys.modules[__name__]
    for sec in cov.sections():
        sec(st, me)
    return st


def compare_pair(st, tag, a, b, oa, ob, forms=None, extra=None):
    """the forms (default: all four) in both orders against the model; then the property on the implementation."""
    res = {}
    for x, y, ox, oy, order in ((a, b, oa, ob, 'ab'), (b, a, ob, oa, 'ba')):
        for name, f, mf in FORMS:
            if forms is not None and name not in forms:
                continue
            r = _b(attempt(lambda: f(x, y)))
            res[(order, name)] = r
            m = '%s %s %s' % (mf, lit(ox), lit(oy))
            pl = {'form': name, 'left': fpgen.obs_json(ox), 'right': fpgen.obs_json(oy), 'impl': r[1]}
            if extra:
                pl.update(extra)
            st.add(tag + '/' + name, 'result_eqb Bool.eqb (%s) %s' % (m, _blit(r)), pl, m,
                   bool(ox['idx']) and bool(oy['idx']))
    if xobs(a) != oa or xobs(b) != ob:
        st.prop_fail('eq:operand-mutated', 'comparison changed an operand', {'a': fpgen.obs_json(oa), 'b': fpgen.obs_json(ob)})
    if oa['kind'] == ob['kind']:
        expect = content(oa) == content(ob)
        pl = {'a': fpgen.obs_json(oa), 'b': fpgen.obs_json(ob), 'results': {'%s %s' % k: v[1] for k, v in res.items()}}
        if extra:
            pl.update(extra)
        for order in ('ab', 'ba'):
            for name in ('==', '__eq__'):
                r = res.get((order, name))
                if r is None:
                    continue
                if r[0] != 'ok':
                    st.prop_fail('eq:raises-same-kind', '%s raised %s for two fingerprints of one kind' % (name, r[1]), pl)
                elif r[1] != expect:
                    st.prop_fail('eq:not-content-based', '%s gave %s, content-equality is %s' % (name, r[1], expect), pl)
            for name in ('!=', '__ne__'):
                r = res.get((order, name))
                if r is not None and r != ('ok', not expect):
                    st.prop_fail('eq:ne-not-negation', '%s gave %r, expected %s' % (name, r[1], not expect), pl)
    return res


def triple_check(st, tag, a, b, c, extra=None):
    """a == a, a == b, b == c, a == c, c == a against the model; reflexivity, transitivity, symmetry on the implementation."""
    oa, ob, oc = xobs(a), xobs(b), xobs(c)
    rs = {}
    for (x, y, ox, oy, nm) in ((a, a, oa, oa, 'aa'), (a, b, oa, ob, 'ab'), (b, c, ob, oc, 'bc'), (a, c, oa, oc, 'ac'), (c, a, oc, oa, 'ca')):
        r = _b(attempt(lambda: x == y))
        rs[nm] = r
        m = 'py_eq %s %s' % (lit(ox), lit(oy))
        pl = {'left': fpgen.obs_json(ox), 'right': fpgen.obs_json(oy), 'impl': r[1]}
        if extra:
            pl.update(extra)
        st.add(tag + '/' + nm, 'result_eqb Bool.eqb (%s) %s' % (m, _blit(r)), pl, m, bool(ox['idx']))
    pl = {'a': fpgen.obs_json(oa), 'b': fpgen.obs_json(ob), 'c': fpgen.obs_json(oc), 'results': {k: v[1] for k, v in rs.items()}}
    if extra:
        pl.update(extra)
    if rs['aa'] != ('ok', True):
        st.prop_fail('eq:not-reflexive', 'a == a gave %r' % (rs['aa'],), pl)
    if rs['ab'] == ('ok', True) and rs['bc'] == ('ok', True) and rs['ac'] != ('ok', True):
        st.prop_fail('eq:not-transitive', 'a == b and b == c but a == c gave %r' % (rs['ac'],), pl)
    if oa['kind'] == oc['kind'] and rs['ac'] != rs['ca']:
        st.prop_fail('eq:not-symmetric', 'a == c gave %r, c == a gave %r' % (rs['ac'], rs['ca']), pl)
    if content(oa) == content(ob) == content(oc) and not (rs['ab'] == rs['bc'] == rs['ac'] == ('ok', True)):
        st.prop_fail('eq:not-content-based', 'three fingerprints of one content are not all equal: %r' % (rs,), pl)
    return rs


def sec_pairs(st):
    rng = st.rng
    for i in range(st.ctx.n(70, 1200)):
        sa = rand_spec(rng, big=rng.random() < 0.2)
        sb = related(rng, sa) if rng.random() < 0.85 else rand_spec(rng, kind=sa['kind'])
        a, b = build(sa), build(sb)
        oa, ob = xobs(a), xobs(b)
        for o in (oa, ob):
            st.add('wf', 'wf_fpb %s' % lit(o), {'a': fpgen.obs_json(o)}, 'wf_fpb %s' % lit(o), bool(o['idx']))
        compare_pair(st, 'pair', a, b, oa, ob)
    # exhaustive small: every pair of subsets of 3 positions, all kinds equal, counts 1 or 2
    C = fpgen.classes()
    subsets = [[i for i in range(3) if (m >> i) & 1] for m in range(8)]
    for kind in fpgen.KINDS:
        objs = []
        for s in subsets:
            if kind == 'KBit':
                objs.append(C[kind].from_indices(np.array(s, dtype=np.int64), bits=3))
            else:
                objs.append(C[kind].from_counts({k: 1 for k in s}, bits=3))
        if kind != 'KBit':
            objs.append(C[kind].from_counts({0: 2}, bits=3))
        for x in objs[::1 if not st.ctx.quick else 2]:
            for y in objs:
                compare_pair(st, 'small', x, y, xobs(x), xobs(y))


def sec_triples(st):
    rng = st.rng
    for i in range(st.ctx.n(50, 800)):
        sa = rand_spec(rng)
        sb = related(rng, sa) if rng.random() < 0.5 else dict(sa)
        sc = related(rng, sb) if rng.random() < 0.5 else dict(sb)
        if rng.random() < 0.3:
            sc = dict(sa)
        a, b, c = build(sa), build(sb), build(sc)
        oa, ob, oc = xobs(a), xobs(b), xobs(c)
        rs = {}
        for (x, y, ox, oy, nm) in ((a, a, oa, oa, 'aa'), (a, b, oa, ob, 'ab'), (b, c, ob, oc, 'bc'), (a, c, oa, oc, 'ac'), (c, a, oc, oa, 'ca')):
            r = _b(attempt(lambda: x == y))
            rs[nm] = r
            m = 'py_eq %s %s' % (lit(ox), lit(oy))
            st.add('triple/' + nm, 'result_eqb Bool.eqb (%s) %s' % (m, _blit(r)), {'left': fpgen.obs_json(ox), 'right': fpgen.obs_json(oy), 'impl': r[1]}, m,
                   bool(ox['idx']))
        pl = {'a': fpgen.obs_json(oa), 'b': fpgen.obs_json(ob), 'c': fpgen.obs_json(oc), 'results': {k: v[1] for k, v in rs.items()}}
        if rs['aa'] != ('ok', True):
            st.prop_fail('eq:not-reflexive', 'a == a gave %r' % (rs['aa'],), pl)
        if rs['ab'] == ('ok', True) and rs['bc'] == ('ok', True) and rs['ac'] != ('ok', True):
            st.prop_fail('eq:not-transitive', 'a == b and b == c but a == c gave %r' % (rs['ac'],), pl)
        if oa['kind'] == oc['kind'] and rs['ac'] != rs['ca']:
            st.prop_fail('eq:not-symmetric', 'a == c gave %r, c == a gave %r' % (rs['ac'], rs['ca']), pl)


# ------------------------------------------------------------------------------------------------ copies
def _fold_some(rng, a):
    b = a.bits
    if b >= 4 and (b & (b - 1)) == 0 and rng.random() < 0.6:
        try:
            f = a.fold(max(2, b // rng.choice([2, 4, 2 ** 12])) if b <= 2 ** 20 else 1024, method=rng.choice([0, 1]))
            if f.bits >= 2 and rng.random() < 0.6:
                f.fold(f.bits // 2)
        except Exception:
            pass


def _csr(v):
    return (int(v.shape[1]), str(v.dtype), [(int(i), str(fpgen.fr(x))) for i, x in zip(v.indices, v.data)])


WARMUPS = [('to_bitvector(sparse=True)', lambda f: f.to_bitvector(sparse=True)),
           ('to_vector(sparse=True, dtype=bool)', lambda f: f.to_vector(sparse=True, dtype=bool)),
           ('to_vector(sparse=True)', lambda f: f.to_vector(sparse=True)),
           ('to_vector(sparse=True, dtype=float)', lambda f: f.to_vector(sparse=True, dtype=float)),
           ('to_rdkit()', lambda f: f.to_rdkit()),
           ('pickle.dumps', lambda f: pickle.dumps(f)),
           ('get_count/mean', lambda f: (f.get_count(0), f.mean()))]
VIEWS = [('to_bitvector(sparse=True)', lambda f: _csr(f.to_bitvector(sparse=True))),
         ('to_vector(sparse=True)', lambda f: _csr(f.to_vector(sparse=True))),
         ('to_vector(sparse=True, dtype=float)', lambda f: _csr(f.to_vector(sparse=True, dtype=float)))]


def identity_shared(orig, cp, path='fp', depth=0):
    """names of mutable containers that the copy shares with the original (recursively through the fold caches)."""
    shared = []
    if cp is orig:
        return [path + ' (same object)']
    if cp.indices is orig.indices or np.shares_memory(cp.indices, orig.indices):
        shared.append(path + '.indices')
    if cp.props is orig.props:
        shared.append(path + '.props')
    if hasattr(orig, '_counts') and hasattr(cp, '_counts') and cp._counts is orig._counts:
        shared.append(path + '.counts')
    if cp.folded_fingerprint is orig.folded_fingerprint:
        shared.append(path + '.folded_fingerprint')
    if depth < 4:
        for k, v in orig.folded_fingerprint.items():
            if k in cp.folded_fingerprint:
                shared += identity_shared(v, cp.folded_fingerprint[k], '%s.folded[%r]' % (path, tuple(int(x) for x in k)), depth + 1)
    return shared


def mutate(rng, x):
    """mutate everything mutable on x through the public interface (and the containers in place)."""
    x.set_prop('zz_mut', [1, 2, 3])
    x.name = 'changed-name'
    x.level = 99
    if len(x.indices):
        x.indices[0] = x.indices[0]          # keep a valid object, but write into the buffer ...
        x.indices[-1] = max(0, int(x.indices[-1]) - 0)
    if hasattr(x, '_counts'):
        for k in list(x._counts)[:2]:
            x._counts[k] = x._counts[k] + 41     # ... and into the dict, in place
        x.counts = dict(x._counts)            # and through the setter
    for v in list(x.folded_fingerprint.values()):
        v.set_prop('zz_mut_fold', 1)
        v.name = 'changed-fold'
        if hasattr(v, '_counts'):
            for k in list(v._counts)[:1]:
                v._counts[k] = v._counts[k] + 7
        for w in list(v.folded_fingerprint.values()):
            w.set_prop('zz_mut_fold2', 2)
    b = x.bits
    if b >= 2 and (b & (b - 1)) == 0:
        try:
            x.fold(b // 2, method=1)             # a new cache entry
        except Exception:
            pass
    if len(x.indices):
        x.indices[:] = 0 if b > 0 else x.indices   # finally scribble over the index buffer


def sec_copies(st):
    rng, C = st.rng, fpgen.classes()
    ways = [('from_fingerprint', lambda a: a.__class__.from_fingerprint(a)),
            ('deepcopy', copy.deepcopy),
            ('pickle', lambda a: pickle.loads(pickle.dumps(a)))]
    for i in range(st.ctx.n(160, 2400)):
        sa = rand_spec(rng, big=rng.random() < 0.2, unit=rng.random() < 0.2)
        a = build(sa)
        _fold_some(rng, a)
        # history: the original has already been asked for other views (a copy must not depend on that)
        warm = []
        for _ in range(rng.choice([0, 1, 2, 3])):
            wn, wf = rng.choice(WARMUPS)
            if attempt(lambda: wf(a))[0] == 'ok':
                warm.append(wn)
        oa, ca = xobs(a), cache_obs(a)
        kind = sa['kind']
        back = None
        r = rng.random()
        if r < 0.45:
            wname, way = ways[0] if rng.random() < 0.5 else rng.choice(ways[1:])
        else:
            # conversion to another kind and back, where representable
            other = rng.choice([k for k in fpgen.KINDS if k != kind])
            unit = all(v == 1 for _, v in oa['cnt'])
            integral = all(v.denominator == 1 for _, v in oa['cnt'])
            representable = kind == 'KBit' or (kind == 'KCount' and (other == 'KFloat' or unit)) or \
                (kind == 'KFloat' and ((other == 'KCount' and integral) or unit))
            wname = 'via-%s' % other
            way = lambda a, other=other: C[kind].from_fingerprint(C[other].from_fingerprint(a))
            back = (other, representable)
        rc = attempt(lambda: way(a))
        pl = {'a': xobs_json(oa), 'way': wname, 'views_taken_from_the_original_before': warm}
        if rc[0] != 'ok':
            st.prop_fail('copy:raised', 'copy by %s raised %s' % (wname, rc[1]), pl)
            continue
        cp = rc[1]
        oc = xobs(cp)
        # correspondence with the model's from_fingerprint
        if wname == 'from_fingerprint':
            m = 'from_fingerprint %s %s' % (kind, lit(oa))
            st.add('copy/from_fingerprint', 'result_eqb fp_obs_eqb (%s) (Ok %s)' % (m, lit(oc)), dict(pl, impl=xobs_json(oc)), m, bool(oa['idx']))
        elif back:
            m = 'rbind (from_fingerprint %s %s) (from_fingerprint %s)' % (back[0], lit(oa), kind)
            st.add('copy/convert-back', 'result_eqb fp_obs_eqb (%s) (Ok %s)' % (m, lit(oc)), dict(pl, impl=xobs_json(oc)), m, bool(oa['idx']))
        # the property: an equal object ...
        if back is None or back[1]:
            eq = _b(attempt(lambda: cp == a)), _b(attempt(lambda: a == cp)), _b(attempt(lambda: cp != a))
            if eq != (('ok', True), ('ok', True), ('ok', False)) or content(oc) != content(oa):
                st.prop_fail('copy:not-equal', 'copy by %s is not equal to the original (==: %r)' % (wname, eq), dict(pl, copy=xobs_json(oc)))
            if oc['name'] != oa['name'] or oc['props'] != oa['props']:
                st.prop_fail('copy:props-lost', 'copy by %s lost name/props' % wname, dict(pl, copy=xobs_json(oc)))
            if back is None and cache_obs(cp) != ca:
                st.prop_fail('copy:cache-differs', 'fold cache of the copy differs', dict(pl, cache=ca, cache_copy=cache_obs(cp)))
        elif content(oc) == content(oa) and not all(v == 1 for _, v in oa['cnt']):
            pass
        # the copy's own views are those of a freshly built equal fingerprint, whatever the original was asked before
        if back is None and all(v <= 65535 for _, v in oa['cnt']):
            for vn, vf in VIEWS:            # successive views on the one copy, each against a newly built fingerprint
                v1, v2 = attempt(lambda: vf(cp)), attempt(lambda: vf(build(sa)))
                if v1 != v2:
                    st.prop_fail('copy:history-dependent', '%s of the copy (by %s, original viewed as %s before) differs from that of a fresh equal fingerprint' % (vn, wname, warm),
                                 dict(pl, view=vn, on_copy=str(v1)[:400], on_fresh=str(v2)[:400]))
                    break
        # ... that shares no mutable state
        shared = identity_shared(a, cp)
        if shared:
            st.prop_fail('copy:shared-state', 'copy by %s shares %s with the original' % (wname, ', '.join(shared)), dict(pl, shared=shared))
        which = rng.random() < 0.5
        victim, witness, ow, cw = (cp, a, oa, ca) if which else (a, cp, oc, cache_obs(cp))
        mutate(rng, victim)
        if xobs(witness) != ow or cache_obs(witness) != cw:
            st.prop_fail('copy:shared-state', 'mutating the %s (copy by %s) changed the %s' % ('copy' if which else 'original', wname, 'original' if which else 'copy'),
                         dict(pl, before=xobs_json(ow), after=xobs_json(xobs(witness)), cache_before=cw, cache_after=cache_obs(witness)))
        st.ctx.count(('copy', wname, str(oa)), bool(oa['idx']))
        st.dist['copy-independence/' + wname.split('-')[0]] = st.dist.get('copy-independence/' + wname.split('-')[0], 0) + 1
    # fold results are new objects too (props copied, not shared)
    for i in range(st.ctx.n(20, 200)):
        sa = rand_spec(rng, bits=rng.choice([8, 64, 1024, 2 ** 32]))
        a = build(sa)
        f = a.fold(a.bits // rng.choice([2, 4]))
        oa = xobs(a)
        if f.props is a.props or (len(f.indices) and np.shares_memory(f.indices, a.indices)):
            st.prop_fail('copy:shared-state', 'folded fingerprint shares props/indices with its parent', {'a': xobs_json(oa)})
        f.set_prop('zz', 1)
        f.name = 'folded-renamed'
        if xobs(a) != oa:
            st.prop_fail('copy:shared-state', 'mutating a folded fingerprint changed its parent', {'a': xobs_json(oa), 'after': xobs_json(xobs(a))})


def sec_signed(st):
    """count / float fingerprints with zero or negative counts (reachable by subtraction): outside the property's
    domain ("count assignments" on the set positions); the model is faithful to what the code does with them."""
    rng = st.rng
    n_unequal = 0
    for i in range(st.ctx.n(30, 400)):
        a = fpio.build_signed(rng)
        oa = xobs(a)
        kind = oa['kind']
        r = attempt(lambda: a.__class__.from_fingerprint(a))
        ro = ('ok', xobs(r[1])) if r[0] == 'ok' else r
        m = 'from_fingerprint %s %s' % (kind, lit(oa))
        st.add('signed/copy', 'result_eqb fp_obs_eqb (%s) %s' % (m, fpgen.result_lit(ro)), {'a': xobs_json(oa), 'impl': xobs_json(ro[1]) if ro[0] == 'ok' else ro[1]}, m, True)
        st.add('signed/self-eq', 'result_eqb Bool.eqb (py_eq %s %s) %s' % (lit(oa), lit(oa), _blit(_b(attempt(lambda: a == a)))), {'a': xobs_json(oa)}, 'py_eq %s %s' % (lit(oa), lit(oa)), True)
        if r[0] == 'ok' and content(ro[1]) != content(oa):
            n_unequal += 1
            fpio.outside_domain(st.ctx, 'from_fingerprint:nonpositive-counts-dropped',
                                'CountFingerprint/FloatFingerprint.from_fingerprint drops positions whose count is <= 0: the copy of a fingerprint holding zero/negative counts (e.g. a - b) is not equal to it',
                                {'a': xobs_json(oa), 'copy': xobs_json(ro[1])})
    st.dist['signed/copies-unequal'] = n_unequal


def run(ctx):
    ok, res = core.proof_step(ctx)
    st = build_state(ctx)
    for k in st.cases[:2] + st.cases[len(st.cases) // 2:len(st.cases) // 2 + 2] + st.cases[-2:]:
        ctx.sample({'case': k[0], 'input_and_implementation_result': st.payloads[k[0]], 'model_check': k[1][:400]})
    nbad = core.compare_cases(ctx, st.cases, IMPORTS, 'C09 equality/copies', st.payloads, model_expr=st.mexpr,
                              finding_key_of=lambda k, pl: 'model:%s' % pl.get('section'))
    found_input = st.found_input or nbad > 0
    # database part (FingerprintDatabase.__eq__), built with the database model
    import importlib
    dbpart = importlib.import_module('props.c09_db')          # a missing or broken part fails the check (no silent degradation)
    if dbpart is not None:
        found_input = bool(dbpart.part(ctx)) or found_input
    ctx.coverage['rule'] = ('pairs (a, related(a)) with related in {equal, other level incl. None, other bits, strict subset, strict superset, overlap, '
                            'one count changed, other name, other kind, empty} over all kinds and bits 1..2^32, all 8x8(+1) pairs of subsets of 3 positions per kind; '
                            'each pair compared with ==, !=, __eq__, __ne__ in both orders; transitivity/reflexivity/symmetry triples; copies by '
                            'from_fingerprint / deepcopy / pickle / conversion to another kind and back, followed by mutation of one side (props, name, '
                            'level, counts dict in place and through the setter, index buffer in place, fold cache, nested cached folds) and re-observation '
                            'of the other side incl. its fold caches; before copying 0-3 other views (bool/float/default sparse vectors, RDKit, pickle) are taken from the original and '
                            'afterwards the copy\'s sparse vectors are compared with those of a freshly built equal fingerprint.  '
                            'Extension (props/c09_cov.py): pairs/triples whose members are built by different construction routes (dict insertion order, numpy keys/values/level/bits, '
                            'duplicated and unsorted index lists, other index dtypes, positional constructors, dense/CSR vectors, bit strings, RDKit, conversion, pickle, deepcopy, '
                            'fold of a longer fingerprint, operators) and are equal or differ in one respect (index moved by 1 / 2^8 / 2^16 / 2^31, two indices moved in opposite directions, '
                            'two counts swapped, count + 1 / 2^16 / 2^32, float one ulp or within one integer, level + 2^8 / 2^32 / 2^40 / None, length doubled); every pair of kinds on small '
                            'contents, length-0 fingerprints, user subclasses; compare - mutate via setters or in place - compare again on the same objects; copies of folded fingerprints '
                            '(parent link, unfolding map), copy chains, re-copy after mutation, conversion and back from route-built sources.  Database: near relatives built by from_array '
                            '(one value, one cell, explicit zero, rows rotated, rows and names rotated, row boundary moved, one name, level, length, props dropped).  '
                            'Non-trivial: both operands non-empty (copies: non-empty); distinct by full input.')
    st.dist.update({'db/' + k: v for k, v in ctx.coverage.pop('input_distribution_db', {}).items()})
    ctx.coverage['input_distribution'] = st.dist
    ctx.assumptions += [
        'dict equality of the counts, np.array_equal, copy/pickle machinery behave as modelled; exercised by the correspondence only',
        '"shares no mutable state" is decided on the implementation (object identity, shared memory, mutate-and-reobserve), not in the value-semantic model',
        'values stored in props are user objects: a mutable value (a list) is shared between copy and original by from_fingerprint (shallow copy of the dict); only the containers owned by the fingerprint are required to be fresh',
        'copy.copy is the standard shallow copy (shares props/counts/cache by definition) and is only required to be equal (checked in C10)',
        'copy_drops_nonpositive_counts is kept as an evidence note ONLY for inputs that themselves hold zero or negative counts (results of subtraction: not "counts" of set bits, outside the quantifier); for every input whose listed positions all have positive counts an unequal copy is a violation (copy:not-equal). Coq: copy_eq assumes wf_fp, witness copy_nonpositive_refuted']
    if not ok:
        core.report_broken_proof(ctx, res, found_input)


def _db_part(ctx):
    import importlib
    return importlib.import_module('props.c09_db').part(ctx)


def replay(ctx, path):
    """bin/check C09 --replay FILE: regenerate the recorded case (seed and tier from the file), drive the implementation and the
    model again; exit 1 with a VIOLATION line if it still fails."""
    return fpio.replay_regenerate('C09', path, build_state, IMPORTS, 'C09 equality/copies', extra_parts=(_db_part,))
