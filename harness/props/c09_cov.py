"""C09, coverage extension (part module of props/c09.py; sections are run by c09.build_state after the original ones).

What the original streams did not produce (see work/coverage_C09.md):
  * the SAME content reached by different construction routes (dict insertion order, numpy keys / values / level / bits,
    index lists with duplicates, other index dtypes, positional constructor, from_vector dense and CSR, from_bitstring,
    from_rdkit, conversion, pickle, deepcopy, fold of a longer fingerprint, operators) - every operand pair of the original
    streams came from one builder with sorted python-int dicts;
  * near-miss contents: one index moved (by 1, by 2^16, by 2^31), two indices moved in opposite directions, two counts
    swapped, a count moved by 2^16 / 2^32, a float moved by one ulp or inside one integer, a level moved by 2^8 / 2^32 /
    2^40, large levels that are not interned python ints;
  * every ordered pair of kinds on equal content (exhaustive, small), empty fingerprints of length 0, user-defined subclasses;
  * compare - mutate through the setters or in place - compare again on the same two objects (A, B, A);
  * copies of a FOLDED fingerprint (which carries a link to its parent and an unfolding map), chains of copies, a copy taken
    again after an earlier copy was mutated, copies of objects that hold numpy keys / levels."""
import copy
import pickle
from fractions import Fraction
import numpy as np
import fpgen
import fpio
from fpgen import lit, attempt
from fpio import xobs, xobs_json, cache_obs

EXTRA_LEVELS = [300, 65536, 2 ** 31 - 1, 2 ** 32 + 5, 2 ** 40, -2]
EDGE_COUNTS = [1, 2, 65535, 65536, 65537, 2 ** 31, 2 ** 32 + 1, 2 ** 53]
EDGE_FLOATS = [Fraction(5e-324), Fraction(1e-300), Fraction(0.1), Fraction(1.0 / 3.0), Fraction(1, 2 ** 20), Fraction(2 ** 53),
               Fraction(1e300), Fraction(3, 4), Fraction(65536), Fraction(1)]


def fresh_int(v):
    """an int object of its own (ints above 256 are not interned: an identity comparison tells them apart)."""
    return int(str(int(v)))


def level_repr(rng, level):
    if level is None:
        return None
    r = rng.random()
    if r < 0.6:
        return fresh_int(level)
    if r < 0.85 or not (-2 ** 31 <= level < 2 ** 31):
        return np.int64(level)
    return np.int32(level)


def bits_repr(rng, bits):
    return np.int64(bits) if rng.random() < 0.15 else fresh_int(bits)


# ------------------------------------------------------------------------------------------------ contents
def rand_content(rng, kind=None, bits=None, edge=True):
    """{'kind','bits','level','vals': {index: Fraction}} - well formed: indices in range, positive counts, integral for KCount."""
    s = fpio.rand_spec(rng, kind=kind, bits=bits, big=rng.random() < 0.2, unit=rng.random() < 0.15)
    kind = s['kind']
    keys = list(s['idx']) if 'idx' in s else sorted(s['cnt'])
    if len(keys) > 24:
        keys = sorted(rng.sample(keys, 24))
    if kind == 'KBit':
        vals = {k: Fraction(1) for k in keys}
    else:
        vals = {k: Fraction(s['cnt'][k]) for k in keys}
        if edge and keys and rng.random() < 0.3:
            for k in rng.sample(keys, min(len(keys), rng.choice([1, 2]))):
                vals[k] = Fraction(rng.choice(EDGE_COUNTS)) if kind == 'KCount' else rng.choice(EDGE_FLOATS)
    level = s['level']
    if rng.random() < 0.2:
        level = rng.choice(EXTRA_LEVELS)
    return {'kind': kind, 'bits': s['bits'], 'level': level, 'vals': vals}


def content_json(c):
    return {'kind': c['kind'], 'bits': c['bits'], 'level': c['level'], 'vals': [[k, str(v)] for k, v in sorted(c['vals'].items())]}


def variant(rng, c):
    """(mode, content) - a content equal to `c` or differing from it in exactly one small respect."""
    d = {'kind': c['kind'], 'bits': c['bits'], 'level': c['level'], 'vals': dict(c['vals'])}
    keys, B, kind = sorted(d['vals']), c['bits'], c['kind']
    modes = ['same', 'same', 'same', 'level_far', 'bits_x2']
    if keys:
        modes += ['shift1', 'shift_pow2', 'drop_last', 'drop_first']
    if len(keys) >= 2:
        modes += ['sum_preserving']
    if len(keys) < B:
        modes += ['add_edge']
    if kind != 'KBit' and keys:
        modes += ['wrap16', 'wrap32', 'plus1']
        if len(set(d['vals'].values())) >= 2:
            modes += ['swap_counts', 'swap_counts']
    if kind == 'KFloat' and keys:
        modes += ['ulp', 'ulp', 'within_int']
    mode = rng.choice(modes)
    vals = d['vals']

    def move(k, k2):
        if k2 is None or k2 in vals or not (0 <= k2 < B):
            return False
        vals[k2] = vals.pop(k)
        return True
    if mode == 'shift1':
        k = rng.choice(keys)
        if not (move(k, k + 1) or move(k, k - 1)):
            mode = 'same'
    elif mode == 'shift_pow2':
        k = rng.choice(keys)
        cands = [k + s * 2 ** e for e in (8, 16, 31, 32) for s in (1, -1)]
        rng.shuffle(cands)
        if not any(move(k, k2) for k2 in cands):
            if not (move(k, B - 1 - k) or move(k, k + 1) or move(k, k - 1)):
                mode = 'same'
    elif mode == 'sum_preserving':
        k1, k2 = sorted(rng.sample(keys, 2))
        done = False
        for dlt in (1, 2, 3, 16):
            if k1 + dlt not in vals and k2 - dlt not in vals and k1 + dlt != k2 - dlt and k1 + dlt < B and k2 - dlt >= 0 and k1 + dlt != k2:
                v1, v2 = vals.pop(k1), vals.pop(k2)
                vals[k1 + dlt], vals[k2 - dlt] = v1, v2
                done = True
                break
        if not done:
            mode = 'same'
    elif mode == 'drop_last':
        vals.pop(keys[-1])
    elif mode == 'drop_first':
        vals.pop(keys[0])
    elif mode == 'add_edge':
        k = next((k for k in (B - 1, 0, B // 2) if k not in vals and 0 <= k < B), None)
        if k is None:
            mode = 'same'
        else:
            vals[k] = Fraction(1)
    elif mode in ('wrap16', 'wrap32', 'plus1'):
        k = rng.choice(keys)
        vals[k] = vals[k] + {'wrap16': 65536, 'wrap32': 2 ** 32, 'plus1': 1}[mode]
    elif mode == 'swap_counts':
        k1 = rng.choice(keys)
        k2 = rng.choice([k for k in keys if vals[k] != vals[k1]])
        vals[k1], vals[k2] = vals[k2], vals[k1]
    elif mode == 'ulp':
        k = rng.choice(keys)
        v = float(vals[k])
        w = float(np.nextafter(v, np.inf if rng.random() < 0.5 else 0.0))
        if w > 0 and np.isfinite(w):
            vals[k] = Fraction(w)
        else:
            mode = 'same'
    elif mode == 'within_int':
        k = rng.choice(keys)
        v = vals[k]
        w = Fraction(float(v.numerator // v.denominator + Fraction(rng.choice([1, 3]), 4)))
        if w != v:
            vals[k] = w
        else:
            mode = 'same'
    elif mode == 'level_far':
        if d['level'] is None:
            d['level'] = rng.choice([0, -1])
        else:
            d['level'] = rng.choice([d['level'] + 256, d['level'] + 2 ** 32, d['level'] + 2 ** 40, -d['level'] if d['level'] else 1, None])
    elif mode == 'bits_x2':
        d['bits'] = B * 2 if 0 < B * 2 <= 2 ** 32 else (B + 1 if B < 2 ** 32 else B // 2 if all(k < B // 2 for k in keys) else B)
        if d['bits'] == B:
            mode = 'same'
    return mode, d


# ------------------------------------------------------------------------------------------------ construction routes
def _pyval(kind, v):
    return int(v) if kind == 'KCount' else float(v)


def _csr(B, keys, data):
    from scipy.sparse import csr_matrix
    n = len(keys)
    return csr_matrix((data, np.array(keys, dtype=np.int64), np.array([0, n], dtype=np.int64)), shape=(1, int(B)))


def _fold_parent_keys(rng, keys, B, method):
    """indices of a fingerprint of length 2B whose fold to B has support `keys`: {index in the fold: [parent indices]}."""
    out = {}
    for k in keys:
        lo, hi = (k, k + B) if method == 0 else (2 * k, 2 * k + 1)
        out[k] = rng.choice([[lo], [hi], [lo, hi]])
    return out


def _bit_routes():
    def ind64(rng, C, c, L, B, keys):
        return C.from_indices(np.array(keys, dtype=np.int64), bits=B, level=L)

    def pylist_dups(rng, C, c, L, B, keys):
        l = list(keys) + [rng.choice(keys) for _ in range(rng.choice([0, 1, 3]))] if keys else []
        rng.shuffle(l)
        return C.from_indices(l, bits=B, level=L)

    def other_dtype(rng, C, c, L, B, keys):
        top = max(keys) if keys else 0
        dts = [dt for dt, lim in ((np.uint8, 2 ** 8), (np.int16, 2 ** 15), (np.int32, 2 ** 31), (np.uint32, 2 ** 32), (np.uint64, 2 ** 63)) if top < lim]
        a = np.array(keys, dtype=rng.choice(dts))
        return C.from_indices(a[::-1], bits=B, level=L)

    def ctor_positional(rng, C, c, L, B, keys):
        return C(list(keys), B, L)

    def bitstring(rng, C, c, L, B, keys):
        if B > 4096:
            return None
        ks = set(keys)
        s = ''.join('1' if i in ks else '0' for i in range(int(B)))
        return C.from_bitstring(s, level=L) if rng.random() < 0.5 else C.from_bitstring(s, L, bits=B)

    def dense(rng, C, c, L, B, keys):
        if B > 4096 or B < 1:
            return None
        dt = rng.choice([np.bool_, np.uint8, np.float64])
        v = np.zeros(int(B), dtype=dt)
        for k in keys:
            v[k] = 1 if dt is np.bool_ else rng.choice([1, 2, 7])
        return C.from_vector(v, level=L)

    def csr(rng, C, c, L, B, keys):
        if B < 1:
            return None
        return C.from_vector(_csr(B, keys, np.ones(len(keys), dtype=np.bool_)), level=L)

    def rdkit(rng, C, c, L, B, keys):
        if not (1 <= B <= 2 ** 20):
            return None
        r = C.from_indices(np.array(keys, dtype=np.int64), bits=int(B)).to_rdkit()
        return C.from_rdkit(r, level=L)

    def convert(rng, C, c, L, B, keys):
        K = fpgen.classes()[rng.choice(['KCount', 'KFloat'])]
        src = K.from_counts({k: rng.choice([1, 2, 9]) for k in keys}, bits=B, level=L)
        return C.from_fingerprint(src)

    def pickled(rng, C, c, L, B, keys):
        return pickle.loads(pickle.dumps(ind64(rng, C, c, L, B, keys)))

    def deepcopied(rng, C, c, L, B, keys):
        return copy.deepcopy(pylist_dups(rng, C, c, L, B, keys))

    def folded(rng, C, c, L, B, keys):
        B = int(B)
        if B < 1 or 2 * B > 2 ** 32:
            return None
        method = rng.choice([0, 1])
        pk = sorted(x for l in _fold_parent_keys(rng, keys, B, method).values() for x in l)
        parent = C.from_indices(np.array(pk, dtype=np.int64), bits=2 * B, level=L)
        return parent.fold(B, method=method)

    def union(rng, C, c, L, B, keys):
        h = rng.randrange(0, len(keys) + 1)
        r = C.from_indices(list(keys[:h]), bits=B, level=L) | C.from_indices(list(keys[max(0, h - 1):]), bits=B, level=L)
        r.level = L            # the set operators return level -1: put the level through the setter
        return r

    return [ind64, pylist_dups, other_dtype, ctor_positional, bitstring, dense, csr, rdkit, convert, pickled, deepcopied, folded, union]


def _count_routes(kind):
    def d_sorted(c):
        return {k: _pyval(kind, c['vals'][k]) for k in sorted(c['vals'])}

    def counts_sorted(rng, C, c, L, B, keys):
        return C.from_counts(d_sorted(c), bits=B, level=L)

    def counts_shuffled(rng, C, c, L, B, keys):
        ks = list(keys)
        rng.shuffle(ks)
        if ks == sorted(ks):
            ks.reverse()
        return C.from_counts({k: _pyval(kind, c['vals'][k]) for k in ks}, bits=B, level=L)

    def counts_numpy(rng, C, c, L, B, keys):
        d = {}
        for k in reversed(keys):
            v = c['vals'][k]
            if kind == 'KCount':
                if v >= 2 ** 63:
                    return None
                d[np.int64(k)] = np.uint16(int(v)) if v <= 65535 and rng.random() < 0.5 else np.int64(int(v))
            else:
                f = float(v)
                d[np.int64(k)] = np.float32(f) if float(np.float32(f)) == f and rng.random() < 0.5 else np.float64(f)
        return C.from_counts(d, bits=B, level=L)

    def counts_other_number_type(rng, C, c, L, B, keys):
        """CountFingerprint handed floats (the setter truncates), FloatFingerprint handed ints."""
        if kind == 'KCount':
            if any(v >= 2 ** 52 for v in c['vals'].values()):
                return None
            return C.from_counts({k: float(int(c['vals'][k])) + rng.choice([0.0, 0.25, 0.75]) for k in keys}, bits=B, level=L)
        if any(v.denominator != 1 or v >= 2 ** 53 for v in c['vals'].values()):
            return None
        return C.from_counts({k: int(c['vals'][k]) for k in keys}, bits=B, level=L)

    def indices_multiplicity(rng, C, c, L, B, keys):
        if any(v.denominator != 1 for v in c['vals'].values()) or sum(c['vals'].values()) > 60:
            return None
        l = [k for k in keys for _ in range(int(c['vals'][k]))]
        rng.shuffle(l)
        return C.from_indices(l if rng.random() < 0.5 else np.array(l, dtype=np.int64), bits=B, level=L)

    def indices_and_counts(rng, C, c, L, B, keys):
        ks = list(keys)
        rng.shuffle(ks)
        return C.from_indices(ks, counts=d_sorted(c), bits=B, level=L)

    def ctor(rng, C, c, L, B, keys):
        if rng.random() < 0.5:
            return C(counts=d_sorted(c), bits=B, level=L)
        return C(list(keys), d_sorted(c), B, L)

    def _vec_dtype(c):
        if kind == 'KFloat':
            return np.float64
        top = max(c['vals'].values()) if c['vals'] else 0
        return np.uint16 if top <= 65535 else np.int64 if top < 2 ** 63 else None

    def dense(rng, C, c, L, B, keys):
        dt = _vec_dtype(c)
        if B > 4096 or B < 1 or dt is None:
            return None
        v = np.zeros(int(B), dtype=dt)
        for k in keys:
            v[k] = _pyval(kind, c['vals'][k])
        return C.from_vector(v, level=L)

    def csr(rng, C, c, L, B, keys):
        dt = _vec_dtype(c)
        if B < 1 or dt is None:
            return None
        return C.from_vector(_csr(B, keys, np.array([_pyval(kind, c['vals'][k]) for k in keys], dtype=dt)), level=L)

    def convert(rng, C, c, L, B, keys):
        if any(v.denominator != 1 or v > 2 ** 53 for v in c['vals'].values()):
            return None
        K = fpgen.classes()['KFloat' if kind == 'KCount' else 'KCount']
        src = K.from_counts({k: (float(v) if kind == 'KCount' else int(v)) for k, v in c['vals'].items()}, bits=B, level=L)
        return C.from_fingerprint(src)

    def pickled(rng, C, c, L, B, keys):
        return pickle.loads(pickle.dumps(counts_shuffled(rng, C, c, L, B, keys)))

    def deepcopied(rng, C, c, L, B, keys):
        return copy.deepcopy(counts_sorted(rng, C, c, L, B, keys))

    def _split(rng, v):
        """v = v1 + v2 exactly in the kind's arithmetic, both positive; None if it cannot be split."""
        if kind == 'KCount':
            if v < 2:
                return None
            v1 = rng.choice([1, int(v) // 2, int(v) - 1])
            return v1, int(v) - v1
        h = float(v) / 2
        return (h, h) if h > 0 and h + h == float(v) else None

    def folded(rng, C, c, L, B, keys):
        B = int(B)
        if B < 1 or 2 * B > 2 ** 32:
            return None
        method = rng.choice([0, 1])
        pc = {}
        for k, ps in _fold_parent_keys(rng, keys, B, method).items():
            v = c['vals'][k]
            sp = _split(rng, v) if len(ps) == 2 else None
            if sp is None:
                pc[ps[0]] = _pyval(kind, v)
            else:
                pc[ps[0]], pc[ps[1]] = sp
        parent = C.from_counts(pc, bits=2 * B, level=L)
        return parent.fold(B, method=method)

    def added(rng, C, c, L, B, keys):
        x, y = {}, {}
        for k in keys:
            v = c['vals'][k]
            sp = _split(rng, v) if rng.random() < 0.4 else None
            if sp is not None:
                x[k], y[k] = sp
            else:
                (x if rng.random() < 0.5 else y)[k] = _pyval(kind, v)
        return C.from_counts(x, bits=B, level=L) + C.from_counts(y, bits=B, level=L)

    return [counts_sorted, counts_shuffled, counts_numpy, counts_other_number_type, indices_multiplicity, indices_and_counts, ctor, dense, csr,
            convert, pickled, deepcopied, folded, added]


_ROUTES = {}


def routes(kind):
    if kind not in _ROUTES:
        _ROUTES[kind] = _bit_routes() if kind == 'KBit' else _count_routes(kind)
    return _ROUTES[kind]


def realise(rng, c, avoid=(), decorate=True):
    """An implementation object holding content `c`, built by a randomly chosen route -> (object, route name)."""
    C = fpgen.classes()[c['kind']]
    keys = sorted(c['vals'])
    rs = list(routes(c['kind']))
    rng.shuffle(rs)
    rs.sort(key=lambda r: r.__name__ in avoid)          # prefer a route not used for the partner
    for r in rs:
        L, B = level_repr(rng, c['level']), bits_repr(rng, c['bits'])
        res = attempt(lambda: r(rng, C, c, L, B, keys))
        if res[0] != 'ok':
            if r.__name__ in ('csr', 'dense', 'rdkit', 'bitstring'):     # a container library refusing a shape (length 0, 2^32 columns): not a fingerprint matter
                continue
            raise AssertionError('construction route %s failed on %r: %r' % (r.__name__, content_json(c), res))
        if res[1] is None:
            continue
        obj = res[1]
        if decorate:
            if rng.random() < 0.4:
                obj.name = rng.choice(['a', 'mol_0', 'x y', 'Name', '0'])
            if rng.random() < 0.3:
                obj.set_prop(rng.choice(['p', 'q', 'a b']), rng.choice(fpio.PROP_VALUES))
        return obj, '%s[level:%s,bits:%s]' % (r.__name__, type(L).__name__, type(B).__name__)
    raise AssertionError('no construction route for %r' % (content_json(c),))


def _wf(st, tag, o):
    st.add(tag + '/wf', 'wf_fpb %s' % lit(o), {'a': fpgen.obs_json(o)}, 'wf_fpb %s' % lit(o), bool(o['idx']))


# ------------------------------------------------------------------------------------------------ sections
def sec_routes(st, K):
    """pairs and triples whose members are built by different routes, equal or differing in one small respect."""
    rng = st.rng
    for i in range(st.ctx.n(110, 1600)):
        c = rand_content(rng)
        mode, d = variant(rng, c)
        a, ra = realise(rng, c)
        b, rb = realise(rng, d, avoid=(ra.split('[')[0],))
        oa, ob = xobs(a), xobs(b)
        _wf(st, 'route', oa)
        _wf(st, 'route', ob)
        K.compare_pair(st, 'route', a, b, oa, ob, extra={'routes': [ra, rb], 'variant': mode})
        st.dist['route-variant/' + mode] = st.dist.get('route-variant/' + mode, 0) + 1
        for r in (ra, rb):
            k = 'route-built-by/%s/%s' % (c['kind'], r.split('[')[0])
            st.dist[k] = st.dist.get(k, 0) + 1
            for what in ('level:int64', 'level:int32', 'bits:int64'):
                if what in r:
                    st.dist['route-numpy-' + what.split(':')[0]] = st.dist.get('route-numpy-' + what.split(':')[0], 0) + 1
        if mode == 'same' and K.content(oa) != K.content(ob):
            st.prop_fail('route:content-differs', 'two construction routes for one content give different fingerprints (%s, %s)' % (ra, rb),
                         {'content': content_json(c), 'a': fpgen.obs_json(oa), 'b': fpgen.obs_json(ob), 'routes': [ra, rb]})
    for i in range(st.ctx.n(40, 600)):
        c = rand_content(rng)
        mode, d = variant(rng, c) if rng.random() < 0.5 else ('same', c)
        (a, ra), (b, rb) = realise(rng, c), realise(rng, c)
        cc, rc = realise(rng, d, avoid=(ra.split('[')[0], rb.split('[')[0]))
        K.triple_check(st, 'rtriple', a, b, cc, extra={'routes': [ra, rb, rc], 'variant': mode})


def sec_cross(st, K):
    """every unordered pair of kinds on small equal / unequal contents (all four forms, both orders); length-0 fingerprints;
    user-defined subclasses (a different type: never equal to the base class, never raising within one family)."""
    C = fpgen.classes()
    contents = [{}, {0: 1}, {0: 1, 2: 1}, {0: 2, 2: 1}]

    def mk(kind, vals, bits=3, level=-1):
        if kind == 'KBit':
            return C[kind].from_indices(sorted(vals), bits=bits, level=level)
        return C[kind].from_counts(dict(vals), bits=bits, level=level)
    kinds = list(fpgen.KINDS)
    for i, ka in enumerate(kinds):
        for kb in kinds[i:]:
            for va in contents:
                for vb in contents:
                    if ka == kb and st.ctx.quick and (len(va) + len(vb)) % 2:
                        continue        # same-kind small pairs are already exhaustive in sec_pairs
                    a, b = mk(ka, va), mk(kb, vb)
                    K.compare_pair(st, 'cross', a, b, xobs(a), xobs(b))
    for ka in kinds:
        for kb in kinds:
            for ba, bb, la, lb in ((0, 0, -1, -1), (0, 1, -1, -1), (0, 0, None, -1), (0, 0, None, None), (1, 1, 0, 0)):
                a, b = mk(ka, {}, ba, la), mk(kb, {}, bb, lb)
                K.compare_pair(st, 'cross-empty', a, b, xobs(a), xobs(b))
    # subclasses: directly on the implementation (the model has the three library kinds only)
    for kind in kinds:
        Sub = type('Sub' + C[kind].__name__, (C[kind],), {})
        Sub2 = type('Sub2' + C[kind].__name__, (Sub,), {})
        for vals in contents:
            base = mk(kind, vals, 4, 2)
            subs = [Sub.from_indices(sorted(vals), bits=4, level=2) if kind == 'KBit' else Sub.from_counts(dict(vals), bits=4, level=2),
                    Sub.from_fingerprint(base)]
            sub2 = Sub2.from_fingerprint(base)
            pl = {'kind': kind, 'vals': sorted(vals.items()), 'bits': 4, 'level': 2}
            checks = [(subs[0], subs[1], True, 'two instances of one subclass, same content'), (subs[0], base, False, 'subclass vs base class, same content'),
                      (base, subs[1], False, 'base class vs subclass, same content'), (subs[0], sub2, False, 'subclass vs its own subclass, same content'),
                      (sub2, Sub2.from_fingerprint(subs[0]), True, 'two instances of the second-level subclass')]
            for x, y, expect, what in checks:
                for name, f, _ in K.FORMS:
                    for p, q in ((x, y), (y, x)):
                        r = K._b(attempt(lambda: f(p, q)))
                        want = ('ok', expect if name in ('==', '__eq__') else not expect)
                        st.ctx.count(('subclass', kind, str(pl), what, name), True)
                        st.dist['subclass/direct'] = st.dist.get('subclass/direct', 0) + 1
                        if r != want:
                            st.prop_fail('eq:subclass-type', '%s on %s gave %r, expected %r (equality needs the same type)' % (name, what, r, want), dict(pl, form=name, what=what))


def sec_sequences(st, K):
    """compare, change one operand through its public setters / in place, compare again on the SAME two objects: the answer
    follows the current content (no stale result), also after views and folds were taken in between."""
    rng = st.rng
    forms = ('==', '!=')
    for i in range(st.ctx.n(45, 400)):
        c = rand_content(rng, edge=False)
        a, ra = realise(rng, c)
        b, rb = realise(rng, c, avoid=(ra.split('[')[0],))
        if rng.random() < 0.3:
            b = a.__class__.from_fingerprint(a)
            rb = 'from_fingerprint(a)'
        steps = []

        def look(step):
            steps.append(step)
            K.compare_pair(st, 'seq', a, b, xobs(a), xobs(b), forms=forms, extra={'routes': [ra, rb], 'steps_so_far': list(steps)})
            st.dist['seq-step/' + step.split(':')[0]] = st.dist.get('seq-step/' + step.split(':')[0], 0) + 1
        look('initial')
        keys = [int(k) for k in a.indices]
        L0, B0 = a.level, a.bits
        # level: away and back
        a.level = rng.choice([l for l in (0, 1, 5, None, 300) if l != L0])
        look('a.level changed: %r' % (a.level,))
        if rng.random() < 0.5:
            attempt(lambda: a.to_vector(sparse=True))
        a.level = level_repr(rng, L0)
        look('a.level restored')
        # one count changed in place through the dict the `counts` property hands out, then restored through the setter
        if c['kind'] != 'KBit' and keys:
            k = rng.choice(keys)
            old = dict(a.counts)
            a.counts[k] = a.counts[k] + (1 if c['kind'] == 'KCount' else 0.5)
            look('a.counts[k]+=d in place')
            a.counts = old
            look('a.counts restored by setter')
            b.counts = {kk: (vv + 2 if kk == k else vv) for kk, vv in b.counts.items()}
            look('b.counts changed by setter')
            b.counts = dict(reversed(list(old.items())))
            look('b.counts restored (reversed insertion order)')
        # support changed through the setters, then restored
        free = [k for k in (0, 1, int(B0) - 1, int(B0) // 2) if 0 <= k < int(B0) and k not in keys]
        if free:
            k = rng.choice(free)
            if c['kind'] == 'KBit':
                a.indices = sorted(keys + [k])
            else:
                oldc = dict(a.counts)
                a.indices = sorted(keys + [k])
                a.counts = dict(list(oldc.items()) + [(k, 1)])
            look('a gains index')
            if rng.random() < 0.5 and int(B0) >= 2 and (int(B0) & (int(B0) - 1)) == 0:
                attempt(lambda: a.fold(int(B0) // 2))
            if c['kind'] == 'KBit':
                a.indices = np.array(keys, dtype=np.int64)
            else:
                a.indices = np.array(keys, dtype=np.int64)
                a.counts = oldc
            look('a loses it again')
        # length through the setter
        if 0 < int(B0) * 2 <= 2 ** 32:
            a.bits = int(B0) * 2
            look('a.bits doubled')
            b.bits = int(B0) * 2
            look('b.bits doubled too')
            a.bits, b.bits = B0, fresh_int(B0)
            look('bits restored')


# ------------------------------------------------------------------------------------------------ copies
WAYS = [('from_fingerprint', lambda a: a.__class__.from_fingerprint(a)),
        ('from_fingerprint(fp=)', lambda a: a.__class__.from_fingerprint(fp=a)),
        ('deepcopy', copy.deepcopy),
        ('pickle', lambda a: pickle.loads(pickle.dumps(a))),
        ('pickle-protocol-2', lambda a: pickle.loads(pickle.dumps(a, protocol=2)))]


def _pick_way(rng):
    return WAYS[0] if rng.random() < 0.35 else rng.choice(WAYS[1:])


def _equal_copy(st, K, a, cp, oa, oc, wname, pl, ca=None):
    eq = K._b(attempt(lambda: cp == a)), K._b(attempt(lambda: a == cp)), K._b(attempt(lambda: cp != a)), K._b(attempt(lambda: a.__ne__(cp)))
    if eq != (('ok', True), ('ok', True), ('ok', False), ('ok', False)) or K.content(oc) != K.content(oa):
        st.prop_fail('copy:not-equal', 'copy by %s is not equal to the original (==, ==, !=, __ne__: %r)' % (wname, eq), dict(pl, copy=xobs_json(oc)))
    if oc['name'] != oa['name'] or oc['props'] != oa['props']:
        st.prop_fail('copy:props-lost', 'copy by %s lost name/props' % wname, dict(pl, copy=xobs_json(oc)))
    if ca is not None and cache_obs(cp) != ca:
        st.prop_fail('copy:cache-differs', 'fold cache of the copy differs', dict(pl, cache=ca, cache_copy=cache_obs(cp)))


def _snapshot(objs):
    return [(xobs(o), cache_obs(o)) if o is not None else None for o in objs]


def sec_copies_folded(st, K):
    """the original is the RESULT of fold(): it holds a link to its parent and the unfolding map.  A copy is equal, owns its
    containers, does not hand out the original's parent, and neither side moves when the other (or its parent) is mutated."""
    rng = st.rng
    for i in range(st.ctx.n(60, 900)):
        bits = rng.choice([2, 4, 8, 16, 64, 1024, 4096, 2 ** 20, 2 ** 32])
        sa = fpio.rand_spec(rng, bits=bits, big=rng.random() < 0.2)
        a = fpio.build(sa)
        nb = max(1, bits // rng.choice([2, 2, 4, 16, bits]))
        method = rng.choice([0, 1])
        f = a.fold(nb, method=method)
        if nb >= 2 and rng.random() < 0.5:
            f.fold(nb // 2, method=rng.choice([0, 1]))            # the folded fingerprint has a cache of its own
        if rng.random() < 0.3:
            a.fold(nb, method=1 - method)
        if rng.random() < 0.3:
            f.name = 'folded'
            f.set_prop('zf', (1, 2))
        wname, way = _pick_way(rng)
        oa, of, cf = xobs(a), xobs(f), cache_obs(f)
        pl = {'parent': xobs_json(oa), 'fold': [nb, method], 'a': xobs_json(of), 'way': wname}
        rc = attempt(lambda: way(f))
        if rc[0] != 'ok':
            st.prop_fail('copy:raised', 'copy of a folded fingerprint by %s raised %s' % (wname, rc[1]), pl)
            continue
        cp = rc[1]
        oc = xobs(cp)
        if wname.startswith('from_fingerprint'):
            m = 'from_fingerprint %s %s' % (of['kind'], lit(of))
            st.add('copy2/of-folded', 'result_eqb fp_obs_eqb (%s) (Ok %s)' % (m, lit(oc)), dict(pl, impl=xobs_json(oc)), m, bool(of['idx']))
        _equal_copy(st, K, f, cp, of, oc, wname, pl, cf)
        shared = K.identity_shared(f, cp)
        up = getattr(cp, 'unfolded_fingerprint', None)
        if up is not None and up is a:
            shared.append('fp.unfolded_fingerprint (the copy hands out the original\'s parent object)')
        elif up is not None:
            shared += K.identity_shared(a, up, 'fp.unfolded_fingerprint')
        um = getattr(cp, 'index_to_unfolded_index_dict', None)
        if um is not None and um is f.index_to_unfolded_index_dict:
            shared.append('fp.index_to_unfolded_index_dict')
        elif um is not None and f.index_to_unfolded_index_dict is not None:
            if any(um[k] is f.index_to_unfolded_index_dict[k] for k in um if k in f.index_to_unfolded_index_dict):
                shared.append('fp.index_to_unfolded_index_dict[*] (the index sets)')
        if shared:
            st.prop_fail('copy:shared-state', 'copy of a folded fingerprint by %s shares %s with the original' % (wname, ', '.join(shared)), dict(pl, shared=shared))
        copy_side, orig_side = [cp, up], [f, a]
        which = rng.random() < 0.5
        victims, witnesses = (copy_side, orig_side) if which else (orig_side, copy_side)
        before = _snapshot(witnesses)
        for v in victims:
            if v is not None:
                K.mutate(rng, v)
        if up is not None and which and up.__dict__.get('folded_fingerprint'):
            for w in list(up.folded_fingerprint.values()):
                w.set_prop('zz_sibling', 1)
        after = _snapshot(witnesses)
        if before != after:
            st.prop_fail('copy:shared-state', 'mutating the %s of a folded fingerprint (copy by %s) and its parent changed the %s' %
                         (('copy', wname, 'original or its parent') if which else ('original', wname, 'copy')),
                         dict(pl, before=str(before)[:1500], after=str(after)[:1500]))
        st.ctx.count(('copy-of-folded', wname, str(of), nb, method), bool(of['idx']))
        st.dist['copy-of-folded/' + wname] = st.dist.get('copy-of-folded/' + wname, 0) + 1


def sec_copy_chains(st, K):
    """a -> c1 -> c2 by any two ways; c1 is mutated: a and c2 stay; a copy taken from `a` afterwards is what the first was."""
    rng = st.rng
    for i in range(st.ctx.n(60, 900)):
        if rng.random() < 0.5:
            c = rand_content(rng)
            a, route = realise(rng, c)
        else:
            a, route = fpio.build(fpio.rand_spec(rng, big=rng.random() < 0.2)), 'fpio.build'
        K._fold_some(rng, a)
        (w1, f1), (w2, f2) = _pick_way(rng), _pick_way(rng)
        oa, ca = xobs(a), cache_obs(a)
        pl = {'a': xobs_json(oa), 'built_by': route, 'ways': [w1, w2]}
        r1 = attempt(lambda: f1(a))
        r2 = attempt(lambda: f2(r1[1])) if r1[0] == 'ok' else r1
        if r2[0] != 'ok':
            st.prop_fail('copy:raised', 'copy chain %s, %s raised %s' % (w1, w2, r2[1]), pl)
            continue
        c1, c2 = r1[1], r2[1]
        o1, o2 = xobs(c1), xobs(c2)
        kind = oa['kind']
        if w1.startswith('from_fingerprint'):
            m = 'from_fingerprint %s %s' % (kind, lit(oa))
            st.add('copy2/route-source', 'result_eqb fp_obs_eqb (%s) (Ok %s)' % (m, lit(o1)), dict(pl, impl=xobs_json(o1)), m, bool(oa['idx']))
            if w2.startswith('from_fingerprint'):
                m = 'rbind (from_fingerprint %s %s) (from_fingerprint %s)' % (kind, lit(oa), kind)
                st.add('copy2/chain', 'result_eqb fp_obs_eqb (%s) (Ok %s)' % (m, lit(o2)), dict(pl, impl=xobs_json(o2)), m, bool(oa['idx']))
        _equal_copy(st, K, a, c1, oa, o1, w1, pl, ca)
        _equal_copy(st, K, a, c2, oa, o2, '%s then %s' % (w1, w2), pl, ca)
        shared = K.identity_shared(a, c1) + K.identity_shared(a, c2, 'fp(second copy vs original)') + K.identity_shared(c1, c2, 'fp(second copy vs first)')
        if shared:
            st.prop_fail('copy:shared-state', 'copy chain %s, %s shares %s' % (w1, w2, ', '.join(shared)), dict(pl, shared=shared))
        before = _snapshot([a, c2])
        K.mutate(rng, c1)
        if _snapshot([a, c2]) != before:
            st.prop_fail('copy:shared-state', 'mutating the first copy (by %s) changed the original or the copy of the copy (by %s)' % (w1, w2),
                         dict(pl, before=str(before)[:1500], after=str(_snapshot([a, c2]))[:1500]))
        r3 = attempt(lambda: f1(a))
        if r3[0] != 'ok' or xobs(r3[1]) != o1 or cache_obs(r3[1]) != ca:
            st.prop_fail('copy:history-dependent', 'a second copy by %s, taken after the first copy was mutated, differs from what the first copy was' % w1,
                         dict(pl, first=xobs_json(o1), second=xobs_json(xobs(r3[1])) if r3[0] == 'ok' else r3[1]))
        elif K._b(attempt(lambda: r3[1] == c2)) != ('ok', True):
            st.prop_fail('copy:not-equal', 'two copies of one fingerprint (by %s; by %s then %s) are not equal' % (w1, w1, w2), pl)
        st.ctx.count(('copy-chain', w1, w2, str(oa)), bool(oa['idx']))
        st.dist['copy-chain/%s' % w1.split('(')[0].split('-')[0]] = st.dist.get('copy-chain/%s' % w1.split('(')[0].split('-')[0], 0) + 1
    # conversion to another kind and back from sources built by every route (numpy keys, values, levels)
    C = fpgen.classes()
    for i in range(st.ctx.n(50, 700)):
        c = rand_content(rng)
        if c['kind'] != 'KBit' and any(v > 2 ** 53 for v in c['vals'].values()):
            continue
        a, route = realise(rng, c)
        oa = xobs(a)
        kind = oa['kind']
        other = rng.choice([k for k in fpgen.KINDS if k != kind])
        unit = all(v == 1 for _, v in oa['cnt'])
        integral = all(v.denominator == 1 for _, v in oa['cnt'])
        representable = kind == 'KBit' or (kind == 'KCount' and (other == 'KFloat' or unit)) or (kind == 'KFloat' and ((other == 'KCount' and integral) or unit))
        pl = {'a': xobs_json(oa), 'built_by': route, 'way': 'via-%s' % other}
        rc = attempt(lambda: C[kind].from_fingerprint(C[other].from_fingerprint(a)))
        if rc[0] != 'ok':
            st.prop_fail('copy:raised', 'conversion to %s and back raised %s' % (other, rc[1]), pl)
            continue
        cp = rc[1]
        oc = xobs(cp)
        m = 'rbind (from_fingerprint %s %s) (from_fingerprint %s)' % (other, lit(oa), kind)
        st.add('copy2/convert-back', 'result_eqb fp_obs_eqb (%s) (Ok %s)' % (m, lit(oc)), dict(pl, impl=xobs_json(oc)), m, bool(oa['idx']))
        if representable:
            _equal_copy(st, K, a, cp, oa, oc, 'via-%s' % other, pl)
        shared = K.identity_shared(a, cp)
        if shared:
            st.prop_fail('copy:shared-state', 'conversion to %s and back shares %s with the original' % (other, ', '.join(shared)), dict(pl, shared=shared))
        before = _snapshot([a])
        K.mutate(rng, cp)
        if _snapshot([a]) != before:
            st.prop_fail('copy:shared-state', 'mutating the fingerprint converted to %s and back changed the original' % other, pl)
        k = 'copy-convert-back/route-built source%s' % ('' if representable else ' (not representable: model comparison only)')
        st.dist[k] = st.dist.get(k, 0) + 1


def sections():
    return [sec_routes, sec_cross, sec_sequences, sec_copies_folded, sec_copy_chains]
