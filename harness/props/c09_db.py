"""C09, database part: FingerprintDatabase.__eq__ as coded (fp_type, level, bits, fp_num, name index, (a-b).nnz == 0) against
Model/Db.v db_eq; theorem Proofs/DbFold.v db_eq_spec.  Called by props/c09.py as part(ctx) -> found_input."""
import dbgen


def part(ctx):
    rng = ctx.rng
    found = False
    hists = {}
    for i in range(ctx.n(40, 500)):
        h = dbgen.History(rng)
        h.warmup()
        if not h.live:
            continue
        a = rng.choice(h.live)
        # relatives of a: copy, pickle, other type, fold, subset of everything, a grown copy, None-vs-'None' names
        h.op_copy(a)
        h.op_pickle(a)
        h.op_as_type(a, rng.choice(dbgen.KINDS), True)
        d = h.pool[a]
        if d.fp_num:
            h.op_subset(a, list(dict.fromkeys(d.fp_names)))
            h.op_copy(a)
            c = len(h.pool) - 1
            h.op_add(c, h.batch(c, 1))
            h.op_from_array(dbgen.kind_of_type(d.fp_type), d.level, d.bits, False, dbgen.kind_of_type(d.fp_type),
                            [r for r in dbgen.obs_db(d)['rows']], ['None' if n is None else n for n in d.fp_names], [])
        live = list(h.live)
        for x in live:
            for y in live:
                r1 = h.op_eq(x, y)
                r2 = h.op_eq(y, x)
                ctx.count(('c09db', i, x, y), x != y)
                if r1 != r2:
                    found = True
                    ctx.fail('database == is not symmetric', {'ops': dbgen.descs_of(h.steps)}, finding_key='dbeq-asymmetric')
            if h.op_eq(x, x) != ('ok', True):
                found = True
                ctx.fail('database == is not reflexive', {'ops': dbgen.descs_of(h.steps)}, finding_key='dbeq-irreflexive')
        hists['c09db-%d' % i] = h
    nbad = dbgen.check_histories(ctx, hists, 'C09 database equality', finding_key_of=lambda h, st: 'dbeq:model-vs-impl')
    return found or nbad > 0
