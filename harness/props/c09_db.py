"""C09, database part: FingerprintDatabase.__eq__ as coded (fp_type, level, bits, fp_num, name index, (a-b).nnz == 0) against
Model/Db.v db_eq; theorem Proofs/DbFold.v db_eq_spec.  Called by props/c09.py as part(ctx) -> found_input."""
from fractions import Fraction
import numpy as np
import dbgen


def _ins_sorted(row, cell):
    """cell put where it keeps the row's column order when the row is ordered; appended otherwise."""
    cols = [j for j, _ in row]
    if cols == sorted(cols):
        return sorted(row + [cell], key=lambda jv: jv[0])
    return row + [cell]


def near_relatives(rng, o, kind):
    """[(tag, level, bits, rows, names)]: databases that differ from the observed one `o` in exactly one respect (one stored
    value, one cell, the order of the rows under unchanged names, rows and names permuted together, one name, the level, the
    length, a row boundary) or in nothing that equality looks at (properties dropped, an explicitly stored zero)."""
    rows, names, bits, level = [list(r) for r in o['rows']], list(o['names']), o['bits'], o['level']
    n = len(rows)
    out = [('same-without-props', level, bits, rows, names)]
    cells = [(i, p) for i, r in enumerate(rows) for p in range(len(r))]
    if cells and kind != 'KBit':
        i, p = rng.choice(cells)
        j, v = rows[i][p]
        if kind == 'KCount':
            w = v + 1 if v < 65535 else v - 1
        else:
            w = Fraction(float(np.nextafter(float(v), np.inf))) if rng.random() < 0.5 else v + Fraction(1, 4)
        r2 = [list(r) for r in rows]
        r2[i][p] = (j, w)
        out.append(('one-value', level, bits, r2, names))
    if cells:
        i, p = rng.choice(cells)
        r2 = [list(r) for r in rows]
        del r2[i][p]
        out.append(('one-cell-less', level, bits, r2, names))
    free = [(i, j) for i in range(n) for j in (0, 1, bits - 1, bits // 2) if 0 <= j < bits and j not in [c for c, _ in rows[i]]]
    if free:
        i, j = rng.choice(free)
        r2 = [list(r) for r in rows]
        r2[i] = _ins_sorted(r2[i], (j, Fraction(1)))
        out.append(('one-cell-more', level, bits, r2, names))
        i, j = rng.choice(free)
        r2 = [list(r) for r in rows]
        r2[i] = _ins_sorted(r2[i], (j, Fraction(0)))
        out.append(('explicit-zero-stored', level, bits, r2, names))
    if n >= 2:
        out.append(('rows-rotated-names-kept', level, bits, rows[1:] + rows[:1], names))
        out.append(('rows-and-names-rotated', level, bits, rows[1:] + rows[:1], names[1:] + names[:1]))
        for i in range(n - 1):
            a, b = rows[i], rows[i + 1]
            if a and (not b or a[-1][0] < b[0][0]):
                r2 = [list(r) for r in rows]
                r2[i + 1] = [r2[i].pop()] + r2[i + 1]
                out.append(('row-boundary-moved', level, bits, r2, names))
                break
            if b and (not a or b[0][0] > a[-1][0]):
                r2 = [list(r) for r in rows]
                r2[i].append(r2[i + 1].pop(0))
                out.append(('row-boundary-moved', level, bits, r2, names))
                break
    if n >= 1:
        k = rng.randrange(n)
        out.append(('one-name', level, bits, rows, names[:k] + ['zz_other' if names[k] != 'zz_other' else 'a'] + names[k + 1:]))
    out.append(('level', rng.choice([l for l in (-1, 0, 5, None, 300) if l != level]), bits, rows, names))
    if 0 < bits * 2 <= 2 ** 32:
        out.append(('length-doubled', level, bits * 2, rows, names))
    return out


def part_near(ctx):
    """equality of a database with its near relatives (model comparison of every pair after every step, plus symmetry,
    reflexivity, transitivity and `!=` on the implementation)."""
    rng = ctx.rng
    found = False
    hists = {}
    dist = ctx.coverage.setdefault('input_distribution_db', {})
    for i in range(ctx.n(30, 400)):
        h = dbgen.History(rng)
        h.MAX_LIVE = 14
        h.warmup()
        cands = [x for x in h.live if h.pool[x].array is not None and h.pool[x].fp_num]
        if not cands:
            continue
        a = rng.choice(cands)
        d = h.pool[a]
        kind = dbgen.kind_of_type(d.fp_type)
        rel = near_relatives(rng, dbgen.obs_db(d), kind)
        rng.shuffle(rel)
        made = []
        for tag, level, bits, rows, names in rel[:6]:
            r = h.op_from_array(kind, level, bits, False, kind, rows, names, [])
            if r[0] == 'ok':
                made.append((tag, len(h.pool) - 1))
                dist['near/' + tag] = dist.get('near/' + tag, 0) + 1
        if rng.random() < 0.5:
            # databases without a matrix (`array is None` on one or both sides) and one with a matrix of zero rows
            for lv, kd in ((d.level, kind), (d.level, kind), (rng.choice([l for l in (-1, 0, 5, None) if l != d.level]), kind),
                           (d.level, rng.choice([k for k in dbgen.KINDS if k != kind]))):
                if h.op_new(kd, lv)[0] == 'ok':
                    made.append(('no-matrix', len(h.pool) - 1))
            if h.op_subset(a, [])[0] == 'ok':
                made.append(('zero-rows', len(h.pool) - 1))
            dist['near/no-matrix-and-zero-rows'] = dist.get('near/no-matrix-and-zero-rows', 0) + 1
        res = {}
        hs = [a] + [x for _, x in made]
        for x in hs:
            for y in hs:
                res[(x, y)] = h.op_eq(x, y) if (x == a or y == a or x == y or rng.random() < 0.25) else None
                if res[(x, y)] is None:
                    continue
                ctx.count(('c09db-near', i, x, y), x != y)
                ne = dbgen.attempt(lambda: bool(h.pool[x] != h.pool[y]))
                if res[(x, y)][0] == 'ok' and ne != ('ok', not res[(x, y)][1]):
                    found = True
                    ctx.fail('database != is not the negation of == (%r, %r)' % (res[(x, y)], ne), {'ops': dbgen.descs_of(h.steps), 'pair': [x, y]},
                             finding_key='dbeq-ne-not-negation')
        for x in hs:
            if res[(x, x)] != ('ok', True):
                found = True
                ctx.fail('database == is not reflexive', {'ops': dbgen.descs_of(h.steps), 'handle': x}, finding_key='dbeq-irreflexive')
            for y in hs:
                if res[(x, y)] is not None and res[(y, x)] is not None and res[(x, y)] != res[(y, x)]:
                    found = True
                    ctx.fail('database == is not symmetric', {'ops': dbgen.descs_of(h.steps), 'pair': [x, y]}, finding_key='dbeq-asymmetric')
                for z in hs:
                    if res[(x, y)] == ('ok', True) and res[(y, z)] == ('ok', True) and res[(x, z)] not in (None, ('ok', True)):
                        found = True
                        ctx.fail('database == is not transitive', {'ops': dbgen.descs_of(h.steps), 'triple': [x, y, z]}, finding_key='dbeq-intransitive')
        hists['c09db-near-%d' % i] = h
    nbad = dbgen.check_histories(ctx, hists, 'C09 database equality (near relatives)', finding_key_of=lambda h, st: 'dbeq:model-vs-impl')
    return found or nbad > 0


def part(ctx):
    found_near = part_near(ctx)
    return _part_histories(ctx) or found_near


def _part_histories(ctx):
    rng = ctx.rng
    found = False
    hists = {}
    for i in range(ctx.n(40, 500)):
        h = dbgen.History(rng)
        h.warmup()
        if not h.live:
            continue
        a = rng.choice(h.live)
        # relatives of a: copy, pickle, other type, fold, subset of everything, a grown copy, None-vs-'None' names
        h.op_copy(a)
        h.op_pickle(a)
        h.op_as_type(a, rng.choice(dbgen.KINDS), True)
        d = h.pool[a]
        if d.fp_num:
            h.op_subset(a, list(dict.fromkeys(d.fp_names)))
            h.op_copy(a)
            c = len(h.pool) - 1
            h.op_add(c, h.batch(c, 1))
            h.op_from_array(dbgen.kind_of_type(d.fp_type), d.level, d.bits, False, dbgen.kind_of_type(d.fp_type),
                            [r for r in dbgen.obs_db(d)['rows']], ['None' if n is None else n for n in d.fp_names], [])
        live = list(h.live)
        for x in live:
            for y in live:
                r1 = h.op_eq(x, y)
                r2 = h.op_eq(y, x)
                ctx.count(('c09db', i, x, y), x != y)
                if r1 != r2:
                    found = True
                    ctx.fail('database == is not symmetric', {'ops': dbgen.descs_of(h.steps)}, finding_key='dbeq-asymmetric')
            if h.op_eq(x, x) != ('ok', True):
                found = True
                ctx.fail('database == is not reflexive', {'ops': dbgen.descs_of(h.steps)}, finding_key='dbeq-irreflexive')
        hists['c09db-%d' % i] = h
    nbad = dbgen.check_histories(ctx, hists, 'C09 database equality', finding_key_of=lambda h, st: 'dbeq:model-vs-impl')
    return found or nbad > 0
