"""C10 - fingerprint representations round-trip (model M2: Model/Fprint.v + Model/FprintIO.v, Properties/C10.v).

Three layers per representation:
  (1) correspondence of `to_X`   : implementation output == model output (errors included),
  (2) correspondence of `from_X` : on the implementation's own output and on adversarial / malformed inputs,
  (3) the property itself, evaluated on the implementation: from_X(to_X(fp)) observes like fp for what X carries."""
import copy
import os
import pickle
from fractions import Fraction
import numpy as np
import core
import fpgen
import fpio
from fpgen import obs, lit, attempt, result_lit
from fpio import (IMPORTS, rand_spec, build, xobs, xlit, xobs_json, dense_obs, dense_lit, csr_obs, csr_lit, rdk_obs,
                  rdk_lit, lvl_kw, name_kw, DTYPES, NP_DTYPES, entries_lit)
from core import zlit, optlit, strlit

DENSE_MAX = 2 ** 16
EXTS = ['.fp.pkl', '.fp.gz', '.fp.bz2']
MAGIC = {'.fp.gz': b'\x1f\x8b', '.fp.bz2': b'BZh'}     # .fp.pkl: the raw pickle stream (checked by unpickling the bytes)


def _r(r, f=obs):
    return ('ok', f(r[1])) if r[0] == 'ok' else r


def _jr(r, j=fpgen.obs_json):
    return j(r[1]) if r[0] == 'ok' else r[1]


def run(ctx):
    ok, res = core.proof_step(ctx)
    st = build_state(ctx)
    for k in st.cases[:2] + st.cases[len(st.cases) // 3:len(st.cases) // 3 + 2] + st.cases[-2:]:
        ctx.sample({'case': k[0], 'input_and_implementation_result': st.payloads[k[0]], 'model_check': k[1][:400]})
    nbad = core.compare_cases(ctx, st.cases, IMPORTS, 'C10 representations', st.payloads, model_expr=st.mexpr,
                              finding_key_of=lambda k, pl: 'repr:%s' % pl.get('repr'))
    found_input = st.found_input or nbad > 0
    ctx.coverage['rule'] = ('seeded random well-formed fingerprints of every kind, bits in {1..4096 incl. non powers of two, 2^16, 99999, 1e5, 2^20, '
                            '2^31-2 .. 2^31+1, 2^32-1, 2^32} (dense forms and bit strings only for bits <= 2^16), index sets incl. empty and full, levels '
                            'incl. None, names, picklable props; every representation, dtype, file extension and update_structure value; plus '
                            'malformed inputs (foreign characters, negative / fractional vector entries, explicit zeros, unsorted and duplicate CSR '
                            'columns, positions >= bits, too small bits=, RDKit lengths 2^31..2^32-1, drifted indices/counts before pickling). '
                            'Histories: 2-5 conversions (to_vector dense/sparse x dtype None/bool/int64/uint16/float64, to_bitvector, to_bitstring, to_rdkit, fold, pickle, deepcopy, '
                            'from_fingerprint, adding to a database of each kind, get_count/mean/std) on ONE object, half of them starting with a boolean view; after every step '
                            'result == result on a fresh copy == model, object unchanged, and its vector round trip still exact. '
                            'Coverage extension (props/c10_cov.py): fingerprints over the whole value domain (full-mantissa / extreme float counts, counts up to 2^100, '
                            'levels -2 .. 2^40 and numpy integers, unicode / white-space / punctuated names, rich picklable props incl. ndarrays, Mol, index_id_map) built along 13 '
                            'construction routes per class family and pushed through every representation; call conventions (positional, bits=None, name=None / \'\', props=); dtype '
                            'spellings and unmodelled dtypes; to_bitvector; strided / read-only / cast / csr_array / re-built input vectors; RDKit-made vectors; pickle object graphs '
                            '(folded fingerprint with its parent, shared objects, containers, pure-Python pickler, pickletools.optimize); files with 10 extensions (.gz .bz2 .xz plain none '
                            'unknown), pathlib / relative / odd file names, protocols 0-5 checked in the written bytes, stdlib codecs as foreign reader and writer, overwrite, non-fingerprint '
                            'pickles, streams of 150-400 fingerprints, empty files; setter calls between conversions; aliasing of results and inputs (inputs unchanged); objects outside the class '
                            'invariant (error branches of the model); numpy integers as bits; default values of every optional argument. '
                            'A case is non-trivial when the fingerprint (or input) has at least one set position; distinct by full input.')
    ctx.coverage['input_distribution'] = st.dist
    ctx.assumptions += [
        'NumPy/SciPy array construction, RDKit bit vectors, pickle, gzip/bz2 codecs and smart_open behave as modelled (bytes written are bytes read); exercised by the correspondence only',
        'dense vectors and bit strings are exercised up to 2^16 positions (the theorems are for every length)',
        'float fingerprints are not converted to uint16 vectors (C cast semantics of NumPy, not modelled); NaN/inf vector entries not generated',
        'RDKit vectors given to from_rdkit have on-bits below 2^31 (SetBitsFromList cannot set larger ones)',
        'file-like objects are not given to save / load (smart_open 8 refuses them on the unchanged tree: findings/repro_cov_c10.py); paths are str or pathlib.Path',
        'a numpy integer as `bits` is exercised as an observation only (to_rdkit raises on it: key rt:rdkit:numpy-integer-bits, findings/repro_cov_c10.py)',
        'vector dtypes outside the model (int8..int64, uint8..uint64, float32) are checked directly on the implementation (entries == counts, OverflowError iff a count does not fit); float counts are cast to float dtypes only',
        'property values are compared through a canonical rendering (type name + repr, containers recursively)',
        'a fingerprint is an immutable value in the model: independence of a conversion from the conversions made before on the same object is tied by the history section (implementation vs fresh copy vs model), not by a theorem']
    ctx.coverage['trusted_base'] = list(ctx.coverage.get('trusted_base', [])) + [
        'hypothesis of pickle_rt / pickle_keeps / file_rt / filez_rt / file_carries_meta: forall s, pkl_loads (pkl_dumps s) = s  (Python pickle, protocols 0-5, on the state dictionary of a fingerprint; exercised by the correspondence only)',
        'hypothesis of file_rt / filez_rt / file_carries_meta: forall e l, file_read e (file_write e l) = l  (smart_open + plain / gzip / bz2 by extension: the pickles written are the pickles read, in order; exercised by the correspondence only)',
        'the correspondence evaluates pickle_roundtrip / file_roundtrip / filez_roundtrip = the codec-parametric functions at the identity codec (theorem evaluated_instance)']
    if not ok:
        core.report_broken_proof(ctx, res, found_input)


def build_state(ctx):
    st = State(ctx)
    for sec in (sec_indices, sec_dense, sec_csr, sec_bitstring, sec_rdkit, sec_pickle, sec_files, sec_dtype_limit, sec_history):
        sec(st)
    # coverage extension (props/c10_cov.py): appended, so that the sections above keep their case keys and random stream
    from props import c10_cov
    for sec in c10_cov.SECTIONS:
        try:
            sec(st)
        except Exception:  # noqa - never on the unchanged tree; under a changed tree: an object these direct checks cannot even handle
            import traceback
            tb = traceback.format_exc()
            st.prop_fail(sec.__name__, 'a conversion returned an object the checks of this section cannot handle (%s)' % tb.strip().split('\n')[-1][:200],
                         {'section': sec.__name__, 'traceback_tail': tb[-1500:]})
    return st


class State(object):
    def __init__(self, ctx):
        self.ctx, self.rng = ctx, ctx.rng
        self.cases, self.payloads, self.mexpr = [], {}, {}
        self.found_input = False
        self.dist = {}

    def add(self, rep, tag, expr, payload, model_out, nontrivial=True, dkey=None):
        key = '%s/%s/%d' % (rep, tag, len(self.cases))
        payload = dict(payload)
        payload['repr'] = rep
        self.cases.append((key, expr))
        self.payloads[key] = payload
        self.mexpr[key] = model_out
        self.dist[rep + '/' + tag] = self.dist.get(rep + '/' + tag, 0) + 1
        self.ctx.count((rep, tag, dkey if dkey is not None else str(payload)), nontrivial)

    def prop_fail(self, rep, what, payload):
        self.found_input = True
        payload = dict(payload)
        payload['repr'] = rep
        self.ctx.fail('round trip through %s: %s' % (rep, what), payload, finding_key='rt:%s' % rep, kind='property-on-implementation')

    def check_rt(self, rep, oa, r, payload, name=True, level=True, props=False):
        """(3): the round-tripped object observes like the original."""
        if r[0] != 'ok':
            self.prop_fail(rep, 'raised %s' % r[1], dict(payload, original=xobs_json(oa)))
        elif not fpio.same_content(oa, r[1], name=name, level=level, props=props):
            self.prop_fail(rep, 'result differs from the original', dict(payload, original=xobs_json(oa), result=xobs_json(r[1])))


def _from_case(st, rep, tag, C, kind, pyf, model, payload, nontrivial=True):
    r = _r(attempt(pyf))
    st.add(rep, tag, 'result_eqb fp_obs_eqb (%s) %s' % (model, result_lit(r)), dict(payload, kind=kind, impl=_jr(r)), model, nontrivial)
    return r


# ------------------------------------------------------------------------------------------------ index array
def sec_indices(st):
    rng, C = st.rng, fpgen.classes()
    for i in range(st.ctx.n(60, 800)):
        spec = rand_spec(rng, big=True)
        a = build(spec)
        oa = xobs(a)
        passed = rng.random() < 0.7
        kw, lvl = lvl_kw(passed, a.level)
        nkw, nm = name_kw(a.name)
        kw.update(nkw)
        if spec['kind'] != 'KBit':
            kw['counts'] = a.counts
        r = _from_case(st, 'indices', 'rt', C, spec['kind'], lambda: C[spec['kind']].from_indices(a.indices, bits=a.bits, **kw),
                       'from_indices_of %s %s %s' % (lit(oa), lvl, nm), {'a': xobs_json(oa), 'level_passed': passed}, bool(oa['idx']))
        if passed:
            st.check_rt('indices', oa, r, {'via': 'from_indices(fp.indices[, counts=fp.counts], bits, level, name)'})
        elif r[0] == 'ok' and r[1]['level'] != -1:
            st.prop_fail('indices', 'level appeared without being passed', {'a': xobs_json(oa)})
    # malformed: positions >= bits, negative positions, repeated positions, counts keys not matching
    for i in range(st.ctx.n(40, 500)):
        kind = rng.choice(fpgen.KINDS)
        bits = rng.choice([1, 4, 8, 1024, 2 ** 32])
        idx = [rng.choice([0, 1, bits - 1, bits, bits + 1, rng.randrange(0, bits), rng.randrange(0, bits), 2 * bits]) for _ in range(rng.choice([0, 1, 2, 4, 6]))]
        if rng.random() < 0.5:
            idx = [j for j in idx if j < bits]
        lv = rng.choice(fpio.LEVELS)
        _from_case(st, 'indices', 'list', C, kind, lambda: C[kind].from_indices(np.array(idx, dtype=np.int64), bits=bits, level=lv),
                   'from_index_list %s %s %s %s None' % (kind, core.zlist(idx), zlit(bits), optlit(lv)), {'idx': idx, 'bits': bits, 'level': lv}, bool(idx))
        if kind != 'KBit':
            keys = sorted(set(j for j in idx)) if rng.random() < 0.6 else sorted(set(idx[:-1]) | {rng.randrange(0, bits)})
            cnt = {k: (rng.choice([1, 2, 5]) if kind == 'KCount' else rng.choice([0.5, 1.0, 2.25])) for k in keys}
            es = [(k, fpgen.fr(v)) for k, v in cnt.items()]
            _from_case(st, 'indices', 'counts', C, kind, lambda: C[kind].from_indices(np.array(idx, dtype=np.int64), counts=dict(cnt), bits=bits, level=lv),
                       'mk_count %s %s %s %s %s None' % (kind, core.zlist(idx), entries_lit(es), zlit(bits), optlit(lv)),
                       {'idx': idx, 'counts': {str(k): str(v) for k, v in cnt.items()}, 'bits': bits}, bool(idx))


# ------------------------------------------------------------------------------------------------ dense vector
def _dense_expr(o):
    return '(dense_expand %s %s)' % (zlit(o[0]), entries_lit(o[1]))


def sec_dense(st):
    rng, C = st.rng, fpgen.classes()
    for i in range(st.ctx.n(90, 1200)):
        spec = rand_spec(rng, maxbits=DENSE_MAX, big=rng.random() < 0.3)
        a = build(spec)
        oa = xobs(a)
        dt = rng.choice([None, None, None, 'bool', 'uint16', 'float64'])
        if spec['kind'] == 'KFloat' and dt == 'uint16':
            dt = None
        r = attempt(lambda: a.to_vector(sparse=False, dtype=NP_DTYPES[dt]))
        ro = _r(r, dense_obs)
        m = 'to_dense %s %s' % (DTYPES[dt], lit(oa))
        st.add('dense', 'to', 'result_eqb dense_c_eqb (result_map dense_compress (%s)) %s' % (m, result_lit(ro, dense_lit)),
               {'a': xobs_json(oa), 'dtype': dt, 'impl': [ro[1][0], [[k, str(v)] for k, v in ro[1][1]]] if ro[0] == 'ok' else ro[1]}, m, bool(oa['idx']))
        if r[0] != 'ok':
            if not ((dt == 'uint16' or (dt is None and spec['kind'] == 'KCount')) and any(v > 65535 for _, v in oa['cnt'])):
                st.prop_fail('dense', 'to_vector raised %s inside the dtype range' % r[1], {'a': xobs_json(oa), 'dtype': dt})
            continue
        vec = r[1]
        if vec.dtype != fpio.expected_dtype(spec['kind'], dt) or vec.shape != (a.bits,):
            st.prop_fail('dense', 'dtype/shape %s %s' % (vec.dtype, vec.shape), {'a': xobs_json(oa), 'dtype': dt})
        # read back with every class, with / without level, name, bits keywords
        for kind in ([spec['kind']] + [rng.choice(fpgen.KINDS)]):
            passed = rng.random() < 0.6
            kw, lvl = lvl_kw(passed, a.level)
            nkw, nm = name_kw(a.name)
            kw.update(nkw)
            kwb = rng.choice([None, None, None, a.bits, a.bits + 3, max(0, a.bits - 1), 1])
            if kwb is not None:
                kw['bits'] = kwb
            m = 'from_dense %s %s %s %s %s' % (kind, _dense_expr(ro[1]), optlit(kwb), lvl, nm)
            rb = _from_case(st, 'dense', 'from', C, kind, lambda: C[kind].from_vector(vec, **kw), m,
                            {'vector': [ro[1][0], [[k, str(v)] for k, v in ro[1][1]]], 'dtype': str(vec.dtype), 'kw': {k: str(v) for k, v in kw.items()}}, bool(oa['idx']))
            if kind == spec['kind'] and passed and kwb in (None, a.bits) and dt is None:
                st.check_rt('dense', oa, rb, {'via': 'from_vector(to_vector(sparse=False))'})
    # arbitrary vectors (negative, fractional, other integer dtypes), small lengths given literally
    for i in range(st.ctx.n(60, 800)):
        n = rng.choice([0, 1, 2, 3, 5, 8, 33])
        mode = rng.choice(['int64', 'float', 'uint16', 'bool', 'int8'])
        if mode == 'float':
            vals = [rng.choice([0.0, 0.0, 0.5, -0.5, 1.0, 2.75, -3.0, 0.999, 70000.5, -1e-9]) for _ in range(n)]
            vec = np.array(vals, dtype=np.float64)
        elif mode == 'bool':
            vec = np.array([rng.random() < 0.5 for _ in range(n)], dtype=np.bool_)
        elif mode == 'int8':
            vec = np.array([rng.choice([0, 0, 1, -1, 127, -128]) for _ in range(n)], dtype=np.int8)
        elif mode == 'uint16':
            vec = np.array([rng.choice([0, 0, 1, 2, 65535]) for _ in range(n)], dtype=np.uint16)
        else:
            vec = np.array([rng.choice([0, 0, 1, -1, 7, -70000, 2 ** 40]) for _ in range(n)], dtype=np.int64)
        kind = rng.choice(fpgen.KINDS)
        qs = [fpgen.fr(x) for x in vec]
        passed = rng.random() < 0.5
        lv = rng.choice(fpio.LEVELS)
        kw, lvl = lvl_kw(passed, lv)
        m = 'from_dense %s %s None %s None' % (kind, core.listlit([core.qlit(q) for q in qs]), lvl)
        _from_case(st, 'dense', 'from-any', C, kind, lambda: C[kind].from_vector(vec, **kw), m,
                   {'vector': [str(q) for q in qs], 'dtype': mode, 'kw': {k: str(v) for k, v in kw.items()}}, any(q != 0 for q in qs))


# ------------------------------------------------------------------------------------------------ CSR vector
def sec_csr(st):
    from scipy.sparse import csr_matrix
    rng, C = st.rng, fpgen.classes()
    for i in range(st.ctx.n(90, 1200)):
        spec = rand_spec(rng, big=rng.random() < 0.3)
        a = build(spec)
        oa = xobs(a)
        dt = rng.choice([None, None, None, 'bool', 'uint16', 'float64'])
        if spec['kind'] == 'KFloat' and dt == 'uint16':
            dt = None
        r = attempt(lambda: a.to_vector(sparse=True, dtype=NP_DTYPES[dt]))
        ro = _r(r, csr_obs)
        m = 'to_csr %s %s' % (DTYPES[dt], lit(oa))
        st.add('csr', 'to', 'result_eqb csr_eqb (%s) %s' % (m, result_lit(ro, csr_lit)),
               {'a': xobs_json(oa), 'dtype': dt, 'impl': [ro[1][0], [[k, str(v)] for k, v in ro[1][1]]] if ro[0] == 'ok' else ro[1]}, m, bool(oa['idx']))
        if r[0] != 'ok':
            if not ((dt == 'uint16' or (dt is None and spec['kind'] == 'KCount')) and any(v > 65535 for _, v in oa['cnt'])):
                st.prop_fail('csr', 'to_vector raised %s inside the dtype range' % r[1], {'a': xobs_json(oa), 'dtype': dt})
            continue
        mat = r[1]
        if mat.dtype != fpio.expected_dtype(spec['kind'], dt) or mat.shape != (1, a.bits):
            st.prop_fail('csr', 'dtype/shape %s %s' % (mat.dtype, mat.shape), {'a': xobs_json(oa), 'dtype': dt})
        for kind in ([spec['kind']] + [rng.choice(fpgen.KINDS)]):
            passed = rng.random() < 0.6
            kw, lvl = lvl_kw(passed, a.level)
            nkw, nm = name_kw(a.name)
            kw.update(nkw)
            kwb = rng.choice([None, None, None, a.bits, a.bits + 3, max(0, a.bits - 1), 1])
            if kwb is not None:
                kw['bits'] = kwb
            m = 'from_csr %s %s %s %s %s' % (kind, csr_lit(ro[1]), optlit(kwb), lvl, nm)
            rb = _from_case(st, 'csr', 'from', C, kind, lambda: C[kind].from_vector(mat, **kw), m,
                            {'csr': [ro[1][0], [[k, str(v)] for k, v in ro[1][1]]], 'dtype': str(mat.dtype), 'kw': {k: str(v) for k, v in kw.items()}}, bool(oa['idx']))
            if kind == spec['kind'] and passed and kwb in (None, a.bits) and dt is None:
                st.check_rt('csr', oa, rb, {'via': 'from_vector(to_vector(sparse=True))'})
    # non-canonical CSR input: explicit zeros, unsorted columns, duplicate columns, negative / fractional data
    for i in range(st.ctx.n(80, 1000)):
        bits = fpio.rand_bits(rng)
        n = rng.choice([0, 1, 2, 3, 5, 8])
        cols = [rng.randrange(0, bits) if rng.random() < 0.7 else rng.choice([0, bits - 1, min(bits - 1, 3)]) for _ in range(n)]
        if rng.random() < 0.4 and cols:
            cols = cols + [rng.choice(cols)]                 # duplicate column
        rng.shuffle(cols)
        mode = rng.choice(['uint16', 'float', 'int64', 'bool'])
        if mode == 'float':
            data = np.array([rng.choice([0.0, 0.5, -0.5, 1.0, 2.75, 3.0, 0.999]) for _ in cols], dtype=np.float64)
        elif mode == 'bool':
            data = np.array([rng.random() < 0.7 for _ in cols], dtype=np.bool_)
        elif mode == 'uint16':
            data = np.array([rng.choice([0, 1, 1, 2, 9, 65535]) for _ in cols], dtype=np.uint16)
        else:
            data = np.array([rng.choice([0, 1, -1, 7, 2 ** 40]) for _ in cols], dtype=np.int64)
        idt = np.int64 if bits > 2 ** 31 - 1 or rng.random() < 0.3 else np.int32
        mat = csr_matrix((data, np.array(cols, dtype=idt), np.array([0, len(cols)], dtype=idt)), shape=(1, bits))
        mo = csr_obs(mat)
        kind = rng.choice(fpgen.KINDS)
        passed = rng.random() < 0.5
        lv = rng.choice(fpio.LEVELS)
        kw, lvl = lvl_kw(passed, lv)
        kwb = rng.choice([None, None, bits, max(1, bits // 2)])
        if kwb is not None:
            kw['bits'] = kwb
        m = 'from_csr %s %s %s %s None' % (kind, csr_lit(mo), optlit(kwb), lvl)
        _from_case(st, 'csr', 'from-any', C, kind, lambda: C[kind].from_vector(mat, **kw), m,
                   {'csr': [mo[0], [[k, str(v)] for k, v in mo[1]]], 'dtype': mode, 'kw': {k: str(v) for k, v in kw.items()}}, bool(cols))


# ------------------------------------------------------------------------------------------------ bit string
def sec_bitstring(st):
    rng, C = st.rng, fpgen.classes()
    for i in range(st.ctx.n(70, 900)):
        spec = rand_spec(rng, maxbits=4096 if rng.random() < 0.93 else DENSE_MAX, unit=rng.random() < 0.6)
        a = build(spec)
        oa = xobs(a)
        r = attempt(lambda: a.to_bitstring())
        m = 'to_bitstring %s' % lit(oa)
        st.add('bitstring', 'to', 'result_eqb String.eqb (%s) %s' % (m, result_lit(r, strlit)),
               {'a': xobs_json(oa), 'impl': r[1][:200]}, m, bool(oa['idx']))
        if r[0] != 'ok':
            st.prop_fail('bitstring', 'to_bitstring raised %s' % r[1], {'a': xobs_json(oa)})
            continue
        s = r[1]
        for kind in ([spec['kind']] + [rng.choice(fpgen.KINDS)]):
            passed = rng.random() < 0.6
            kw, lvl = lvl_kw(passed, a.level)
            nkw, nm = name_kw(a.name)
            kw.update(nkw)
            kwb = rng.choice([None, None, None, a.bits, a.bits + 3, max(0, a.bits - 1)])
            if kwb is not None:
                kw['bits'] = kwb
            m = 'from_bitstring %s %s %s %s %s' % (kind, strlit(s), optlit(kwb), lvl, nm)
            rb = _from_case(st, 'bitstring', 'from', C, kind, lambda: C[kind].from_bitstring(s, **kw), m,
                            {'bitstring': s[:200], 'kw': {k: str(v) for k, v in kw.items()}}, bool(oa['idx']))
            unit = all(v == 1 for _, v in oa['cnt'])
            if kind == spec['kind'] and passed and kwb in (None, a.bits) and unit:
                st.check_rt('bitstring', oa, rb, {'via': 'from_bitstring(to_bitstring())'})
    alphabet = '01' * 6 + ' x2-+\t\nO"\'\\a.'
    for i in range(st.ctx.n(50, 700)):
        s = ''.join(rng.choice(alphabet) for _ in range(rng.choice([0, 1, 2, 5, 9, 40])))
        kind = rng.choice(fpgen.KINDS)
        kwb = rng.choice([None, None, len(s), max(0, len(s) - 2), len(s) + 5])
        kw = {} if kwb is None else {'bits': kwb}
        m = 'from_bitstring %s %s %s None None' % (kind, strlit(s), optlit(kwb))
        _from_case(st, 'bitstring', 'from-any', C, kind, lambda: C[kind].from_bitstring(s, **kw), m, {'bitstring': s, 'kw': kw}, bool(s.strip('0')))


# ------------------------------------------------------------------------------------------------ RDKit
def sec_rdkit(st):
    from rdkit.DataStructs.cDataStructs import ExplicitBitVect, SparseBitVect
    rng, C = st.rng, fpgen.classes()
    for i in range(st.ctx.n(90, 1200)):
        spec = rand_spec(rng, unit=True)
        a = build(spec)
        oa = xobs(a)
        r = attempt(lambda: a.to_rdkit())
        ro = _r(r, rdk_obs)
        m = 'to_rdkit %s' % lit(oa)
        st.add('rdkit', 'to', 'result_eqb rdk_eqb (%s) %s' % (m, result_lit(ro, rdk_lit)), {'a': xobs_json(oa), 'impl': ro[1]}, m, bool(oa['idx']))
        if r[0] != 'ok':
            st.prop_fail('rdkit', 'to_rdkit raised %s' % r[1], {'a': xobs_json(oa)})
            continue
        vect = r[1]
        for kind in ([spec['kind']] + [rng.choice(fpgen.KINDS)]):
            passed = rng.random() < 0.6
            kw, lvl = lvl_kw(passed, a.level)
            nkw, nm = name_kw(a.name)
            kw.update(nkw)
            kwb = rng.choice([None] * 6 + [a.bits])
            if kwb is not None:
                kw['bits'] = kwb
            m = 'from_rdkit %s %s %s %s %s' % (kind, rdk_lit(ro[1]), optlit(kwb), lvl, nm)
            rb = _from_case(st, 'rdkit', 'from', C, kind, lambda: C[kind].from_rdkit(vect, **kw), m, {'rdkit': ro[1], 'kw': {k: str(v) for k, v in kw.items()}}, bool(oa['idx']))
            if kind == spec['kind'] and passed and kwb is None and a.bits <= 2 ** 31 - 1:
                st.check_rt('rdkit', oa, rb, {'via': 'from_rdkit(to_rdkit())'})
    for i in range(st.ctx.n(40, 500)):
        n = rng.choice([1, 8, 99999, 100000, 2 ** 31 - 1, 2 ** 31, 2 ** 32 - 2, 2 ** 32 - 1, 2 ** 32 - 1])
        sparse = n >= 100000 or rng.random() < 0.3
        vect = (SparseBitVect if sparse else ExplicitBitVect)(n)
        on = sorted(set(rng.choice([0, n - 1, n // 2, rng.randrange(0, n)]) for _ in range(rng.choice([0, 1, 3, 5]))))
        on = [j for j in on if j < 2 ** 31 - 1]
        vect.SetBitsFromList(on)
        vo = rdk_obs(vect)
        kind = rng.choice(fpgen.KINDS)
        passed = rng.random() < 0.5
        lv = rng.choice(fpio.LEVELS)
        kw, lvl = lvl_kw(passed, lv)
        m = 'from_rdkit %s %s None %s None' % (kind, rdk_lit(vo), lvl)
        _from_case(st, 'rdkit', 'from-any', C, kind, lambda: C[kind].from_rdkit(vect, **kw), m, {'rdkit': vo, 'kw': {k: str(v) for k, v in kw.items()}}, bool(on))
    r = attempt(lambda: C['KBit'].from_rdkit('0110'))
    if r != ('err', 'EType'):
        st.prop_fail('rdkit', 'from_rdkit accepted a non-RDKit object: %r' % (r,), {})


# ------------------------------------------------------------------------------------------------ pickle / copy
def _with_cache(rng, a):
    """fold a few times (linked) so that the cache and the back links are part of the pickled graph."""
    made = []
    b = a.bits
    if b >= 2 and (b & (b - 1)) == 0 and rng.random() < 0.5:
        nb = max(1, b // rng.choice([2, 4, 2 ** 10]))
        if nb >= 1 and b % nb == 0:
            try:
                f = a.fold(nb, method=rng.choice([0, 1]))
                made.append(f)
                if nb >= 2 and rng.random() < 0.5:
                    f.fold(nb // 2)
            except Exception:
                pass
    return made


def _drift(rng, a):
    """make indices and counts disagree through the public `indices` setter (count kinds only)."""
    if fpgen.kind_of(a) != 'KBit' and rng.random() < 0.25:
        a.indices = np.array(sorted(set(list(a.indices[:-1]) + [a.bits - 1])), dtype=np.int64)
        return True
    return False


def sec_pickle(st):
    rng = st.rng
    ways = [('pickle%d' % p, (lambda a, p=p: pickle.loads(pickle.dumps(a, p)))) for p in range(0, pickle.HIGHEST_PROTOCOL + 1)]
    ways += [('copy.copy', copy.copy), ('copy.deepcopy', copy.deepcopy),
             ('getstate/setstate', lambda a: _setstate(a))]
    for i in range(st.ctx.n(90, 1200)):
        spec = rand_spec(rng, big=rng.random() < 0.3)
        a = build(spec)
        _with_cache(rng, a)
        drifted = _drift(rng, a)
        oa = xobs(a)
        ca = fpio.cache_obs(a)
        wname, way = rng.choice(ways)
        r = _r(attempt(lambda: way(a)), xobs)
        m = 'pickle_roundtrip %s' % xlit(oa)
        st.add('pickle', wname, 'result_eqb fpx_obs_eqb (Ok (%s)) %s' % (m, result_lit(r, xlit)),
               {'a': xobs_json(oa), 'way': wname, 'drifted': drifted, 'impl': _jr(r, xobs_json)}, m, bool(oa['idx']))
        if xobs(a) != oa or fpio.cache_obs(a) != ca:
            st.prop_fail('pickle', 'the original changed while being pickled/copied', {'a': xobs_json(oa), 'way': wname})
        if not drifted:
            st.check_rt('pickle', oa, r, {'via': wname}, props=True)
            if r[0] == 'ok':
                cb = fpio.cache_obs(attempt(lambda: way(a))[1])
                if cb != ca:
                    st.prop_fail('pickle', 'fold cache differs after %s' % wname, {'a': xobs_json(oa), 'cache_before': ca, 'cache_after': cb})


# ------------------------------------------------------------------------------------------------ histories on one object
def _vec_result(C, kind, a, vec, sparse):
    """observation of a vector plus of what the own class reads back from it."""
    o = csr_obs(vec) if sparse else dense_obs(vec)
    back = attempt(lambda: xobs(C[kind].from_vector(vec, level=a.level, **({'name': a.name} if a.name else {}))))
    return {'vec': [o[0], [[k, str(v)] for k, v in o[1]]], 'dtype': str(vec.dtype), 'shape': list(vec.shape),
            'back': xobs_json(back[1]) if back[0] == 'ok' else back[1]}, o


def _history_ops(rng, C, kind, bits):
    """list of (name, action(fp) -> (json-able result, model_case or None)).  model_case = (coq bool expr template on the
    Gallina literal of the fingerprint, model output expr)."""
    ops = []
    dts = [None, 'bool', 'int64', 'float64'] + (['uint16'] if kind != 'KFloat' else [])
    np_dt = dict(NP_DTYPES, int64=np.int64)

    def vec_op(sparse, dt):
        def act(fp):
            vec = fp.to_vector(sparse=sparse, dtype=np_dt[dt])
            res, o = _vec_result(C, kind, fp, vec, sparse)
            mc = None
            if dt in DTYPES:
                if sparse:
                    mc = lambda l, o=o: ('result_eqb csr_eqb (to_csr %s %s) (Ok %s)' % (DTYPES[dt], l, csr_lit(o)), 'to_csr %s %s' % (DTYPES[dt], l))
                else:
                    mc = lambda l, o=o: ('result_eqb dense_c_eqb (result_map dense_compress (to_dense %s %s)) (Ok %s)' % (DTYPES[dt], l, dense_lit(o)),
                                         'to_dense %s %s' % (DTYPES[dt], l))
            return res, mc
        return ('to_vector(sparse=%s, dtype=%s)' % (sparse, dt), act)

    for dt in dts:
        ops.append(vec_op(True, dt))
        if bits <= DENSE_MAX:
            ops.append(vec_op(False, dt))

    def bitvector(sparse):
        def act(fp):
            vec = fp.to_bitvector(sparse=sparse)
            res, o = _vec_result(C, 'KBit', fp, vec, sparse)
            return res, None
        return ('to_bitvector(sparse=%s)' % sparse, act)
    ops.append(bitvector(True))
    if bits <= DENSE_MAX:
        ops.append(bitvector(False))
    if bits <= 4096:
        def bitstring(fp):
            s = fp.to_bitstring()
            return s, (lambda l, s=s: ('result_eqb String.eqb (to_bitstring %s) (Ok %s)' % (l, strlit(s)), 'to_bitstring %s' % l))
        ops.append(('to_bitstring()', bitstring))

    def rdkit(fp):
        o = rdk_obs(fp.to_rdkit())
        return [o[0], o[1], o[2]], (lambda l, o=o: ('result_eqb rdk_eqb (to_rdkit %s) (Ok %s)' % (l, rdk_lit(o)), 'to_rdkit %s' % l))
    ops.append(('to_rdkit()', rdkit))
    if bits >= 2 and (bits & (bits - 1)) == 0:
        nb = max(1, bits // rng.choice([2, 4])) if bits <= 2 ** 20 else 1024
        meth = rng.choice([0, 1])
        ops.append(('fold(%d, method=%d)' % (nb, meth), lambda fp: (xobs_json(xobs(fp.fold(nb, method=meth))), None)))

    def pkl(fp):
        o = xobs(pickle.loads(pickle.dumps(fp)))
        return xobs_json(o), (lambda l, o=o: ('fp_obs_eqb (xfp (pickle_roundtrip (mkfpx %s []))) %s' % (l, lit(o)), 'pickle_roundtrip (mkfpx %s [])' % l))
    ops.append(('pickle', pkl))
    ops.append(('copy.deepcopy', lambda fp: (xobs_json(xobs(copy.deepcopy(fp))), None)))
    ops.append(('from_fingerprint', lambda fp: (xobs_json(xobs(fp.__class__.from_fingerprint(fp))), None)))
    for dbk in fpgen.KINDS:
        def db_add(fp, dbk=dbk):
            from e3fp.fingerprint.db import FingerprintDatabase
            db = FingerprintDatabase(fp_type=C[dbk], level=fp.level)
            db.add_fingerprints([fp])
            row = db.array[0]
            return {'row': [[int(i), str(fpgen.fr(v))] for i, v in sorted(zip(row.indices, row.data))], 'dtype': str(db.array.dtype),
                    'item': xobs_json(xobs(db[0]))}, None
        ops.append(('add to %s database' % dbk, db_add))
    probes = [0, bits - 1, rng.randrange(0, bits)]
    ops.append(('get_count/mean/std', lambda fp: ([str(fpgen.fr(fp.get_count(i))) for i in probes + [int(j) for j in fp.indices[:2]]] +
                                                  [repr(float(fp.mean())), repr(float(fp.std()))], None)))
    return ops


def sec_history(st):
    """Conversions do not depend on the object's history: 2-5 conversions on ONE object; after every step the result must be
    what a fresh copy of the original gives (and what the model gives), and the object must observe as before."""
    rng, C = st.rng, fpgen.classes()
    for i in range(st.ctx.n(120, 1500)):
        kind = rng.choice(['KCount', 'KFloat', 'KCount', 'KFloat', 'KBit'])
        spec = rand_spec(rng, kind=kind, maxbits=DENSE_MAX if rng.random() < 0.7 else 2 ** 32)
        a = build(spec)
        oa = xobs(a)
        la = lit(oa)
        ops = _history_ops(rng, C, kind, spec['bits'])
        # a boolean view first in half of the histories (the view most unlike the counts)
        boolish = [o for o in ops if 'bool' in o[0] or 'bitv' in o[0] or 'bitstring' in o[0] or 'KBit database' in o[0]]
        n = rng.choice([2, 3, 4, 5])
        seq = [rng.choice(boolish)] + [rng.choice(ops) for _ in range(n - 1)] if rng.random() < 0.5 else [rng.choice(ops) for _ in range(n)]
        done = []
        for name, act in seq:
            done.append(name)
            r_hist = attempt(lambda: act(a))
            r_fresh = attempt(lambda: act(build(spec)))
            pl = {'a': xobs_json(oa), 'sequence_on_one_object': list(done)}
            h = r_hist[1][0] if r_hist[0] == 'ok' else r_hist[1]
            f = r_fresh[1][0] if r_fresh[0] == 'ok' else r_fresh[1]
            if r_hist[0] != r_fresh[0] or h != f:
                st.found_input = True
                st.ctx.fail('history dependence: %s after %s gives a different result than on a fresh copy of the same fingerprint' % (name, done[:-1] or 'nothing'),
                            dict(pl, repr='history', result_on_used_object=h, result_on_fresh_object=f), finding_key='history:%s' % name.split('(')[0], kind='property-on-implementation')
            if r_hist[0] == 'ok' and r_hist[1][1] is not None:
                expr, mout = r_hist[1][1](la)
                st.add('history', name.split('(')[0], expr, dict(pl, impl=h if not isinstance(h, str) else h[:200]), mout, bool(oa['idx']), dkey=(str(oa), tuple(done)))
            else:
                st.ctx.count(('history', str(oa), tuple(done)), bool(oa['idx']))
            if xobs(a) != oa:
                st.found_input = True
                st.ctx.fail('history: %s changed the fingerprint it was called on' % name, dict(pl, repr='history', after=xobs_json(xobs(a))),
                            finding_key='history:mutated', kind='property-on-implementation')
                break
            # the own round trip on the used object (what the property states), for the lossless forms
            if rng.random() < 0.5 and all(v <= 65535 for _, v in oa['cnt']):
                sparse = rng.random() < 0.6 or spec['bits'] > DENSE_MAX
                rb = _r(attempt(lambda: C[kind].from_vector(a.to_vector(sparse=sparse), level=a.level, **({'name': a.name} if a.name else {}))), xobs)
                done.append('round trip to_vector(sparse=%s)/from_vector' % sparse)
                st.check_rt('history', oa, rb, {'sequence_on_one_object': list(done)})
        st.dist['history/length-%d' % n] = st.dist.get('history/length-%d' % n, 0) + 1


def _setstate(a):
    b = a.__class__.__new__(a.__class__)
    b.__setstate__(a.__getstate__())
    return b


# ------------------------------------------------------------------------------------------------ files
def sec_files(st):
    import e3fp.fingerprint.fprint as FP
    rng = st.rng
    d = os.path.join(st.ctx.workdir, 'files')
    os.makedirs(d, exist_ok=True)
    for i in range(st.ctx.n(60, 800)):
        ext = EXTS[i % 3]
        upd = rng.random() < 0.5
        path = os.path.join(d, 'fp_%d%s' % (i, ext))
        if rng.random() < 0.6:
            spec = rand_spec(rng, big=rng.random() < 0.3)
            a = build(spec)
            _with_cache(rng, a)
            if rng.random() < 0.15 and spec['kind'] != 'KBit' and spec.get('cnt'):
                # values the operators can produce: zero / negative counts (outside the property's domain)
                k0 = sorted(spec['cnt'])[0]
                a = a - build({'kind': spec['kind'], 'bits': spec['bits'], 'level': spec['level'], 'cnt': {k0: spec['cnt'][k0] + rng.choice([0, 1])}})
            oa = xobs(a)
            wf = all(v > 0 for _, v in oa['cnt'])
            proto = rng.choice([None, 0, 2, 4])
            kwp = {} if proto is None else {'protocol': proto}
            rs = attempt(lambda: FP.save(path, a, **kwp))
            if rs != ('ok', True):
                st.prop_fail('file', 'save returned %r' % (rs,), {'a': xobs_json(oa), 'ext': ext})
                continue
            if ext in MAGIC and not open(path, 'rb').read(3).startswith(MAGIC[ext]):
                st.prop_fail('file', 'file %s does not start with the magic of its extension' % ext, {'a': xobs_json(oa), 'ext': ext})
            if ext not in MAGIC and attempt(lambda: xobs(pickle.load(open(path, 'rb'))))[0] != 'ok':
                st.prop_fail('file', 'file %s is not a plain pickle stream' % ext, {'a': xobs_json(oa), 'ext': ext})
            r = _r(attempt(lambda: FP.load(path, update_structure=upd)), xobs)
            m = 'file_roundtrip %s %s' % (core.blit(upd), xlit(oa))
            st.add('file', 'save-load' + ext, 'result_eqb fpx_obs_eqb (%s) %s' % (m, result_lit(r, xlit)),
                   {'a': xobs_json(oa), 'ext': ext, 'update_structure': upd, 'protocol': proto, 'impl': _jr(r, xobs_json)}, m, bool(oa['idx']))
            if wf:
                st.check_rt('file', oa, r, {'via': 'save/load', 'ext': ext, 'update_structure': upd}, props=True)
            if xobs(a) != oa:
                st.prop_fail('file', 'saving changed the fingerprint', {'a': xobs_json(oa), 'ext': ext})
        else:
            n = rng.choice([0, 1, 2, 3, 5])
            fps = [build(rand_spec(rng)) for _ in range(n)]
            oas = [xobs(a) for a in fps]
            rs = attempt(lambda: FP.savez(path, *fps))
            if rs != ('ok', True):
                st.prop_fail('file', 'savez returned %r' % (rs,), {'ext': ext, 'n': n})
                continue
            r = attempt(lambda: FP.loadz(path, update_structure=upd))
            if r[0] == 'ok':
                r = ('ok', [xobs(x) for x in r[1]])
            m = 'filez_roundtrip %s %s' % (core.blit(upd), core.listlit([xlit(o) for o in oas]))
            exp = '(Ok %s)' % core.listlit([xlit(o) for o in r[1]]) if r[0] == 'ok' else '(Raises %s)' % r[1]
            st.add('file', 'savez-loadz' + ext, 'result_eqb (list_eqb fpx_obs_eqb) (%s) %s' % (m, exp),
                   {'fps': [xobs_json(o) for o in oas], 'ext': ext, 'update_structure': upd,
                    'impl': [xobs_json(o) for o in r[1]] if r[0] == 'ok' else r[1]}, m, n > 0)
            if r[0] != 'ok' or len(r[1]) != n or any(not fpio.same_content(x, y, props=True) for x, y in zip(oas, r[1])):
                st.prop_fail('file', 'savez/loadz did not reproduce the list', {'fps': [xobs_json(o) for o in oas], 'ext': ext})
            if n == 0:
                r1 = attempt(lambda: FP.load(path))
                if r1 != ('ok', None):
                    st.prop_fail('file', 'load of an empty file gave %r' % (r1,), {'ext': ext})


# ------------------------------------------------------------------------------------------------ dtype limit
def sec_dtype_limit(st):
    """count_dtype_limit on the implementation: the uint16 forms exist iff every count <= the dtype's maximum."""
    import e3fp.fingerprint.fprint as FP
    rng, C = st.rng, fpgen.classes()
    lim = int(np.iinfo(FP.COUNT_FP_DTYPE).max)
    for i in range(st.ctx.n(40, 400)):
        bits = rng.choice([8, 64, 4096, 2 ** 32])
        idx = fpio.rand_index_set(rng, bits) or [0]
        cnt = {k: rng.choice([1, 2, lim - 1, lim]) for k in idx}
        over = rng.random() < 0.5
        if over:
            cnt[rng.choice(idx)] = rng.choice([lim + 1, lim + 2, 16 * (lim + 1)])
        a = C['KCount'].from_counts(cnt, bits=bits)
        oa = xobs(a)
        for sparse in (True, False):
            if not sparse and bits > DENSE_MAX:
                continue
            r = attempt(lambda: a.to_vector(sparse=sparse))
            if (r[0] == 'ok') == over:
                st.prop_fail('dtype-limit', 'to_vector(sparse=%s) %s with max count %d' % (sparse, 'succeeded' if over else 'raised', max(cnt.values())), {'a': xobs_json(oa)})
            if r[0] == 'ok':
                rb = _r(attempt(lambda: C['KCount'].from_vector(r[1])), xobs)
                st.check_rt('dtype-limit', oa, rb, {'via': 'uint16 vector, sparse=%s' % sparse})
            m = 'is_ok (%s None %s)' % ('to_csr' if sparse else 'to_dense', lit(oa))
            st.add('dtype-limit', 'csr' if sparse else 'dense', 'Bool.eqb (%s) %s' % (m, core.blit(r[0] == 'ok')), {'a': xobs_json(oa), 'impl_ok': r[0] == 'ok'}, m, True)


def replay(ctx, path):
    """bin/check C10 --replay FILE: regenerate the recorded case (seed and tier from the file), drive the implementation and the
    model again; exit 1 with a VIOLATION line if it still fails."""
    return fpio.replay_regenerate('C10', path, build_state, IMPORTS, 'C10 representations')
