"""C10 - coverage extension (part module of props/c10.py; sections are appended AFTER the original ones so that the original
cases keep their keys and their random stream).

What the sections add (see /verif/work/coverage_C10.md for the audit table):
  sec_wide        fingerprints over the whole value domain of the quantifier (full-mantissa / huge / tiny float counts, counts at
                  and above the dtype limit, unusual levels, unicode / punctuated names, rich picklable props) built by EVERY
                  construction route (from_counts sorted / shuffled / numpy scalars, constructors, from_indices of lists, tuples,
                  unsigned arrays, from_vector, from_bitstring, from_rdkit, operators, unpickled, from_fingerprint, folded) and
                  pushed through every representation with the model comparison of the original sections
  sec_kwargs      call conventions: positional level / bits, explicit bits=None, name=None, name='', props= keyword
  sec_dtypes      dtype spellings (str, builtin, np.dtype) and dtypes outside the model (checked directly), to_bitvector
  sec_vec_inputs  vectors as other producers make them: strided / read-only / other dtypes, csr_array, int64 / int32 index arrays
  sec_pickle_x    object graphs: folded fingerprints (back link), aliasing inside one pickle, second generation, pure-Python
                  pickler, Pickler/Unpickler objects, pickletools.optimize, Mol / index_id_map props
  sec_files_x     every codec smart_open knows here (.gz .bz2 .xz, plain, no / unknown extension), pathlib paths, odd file names,
                  relative paths, protocol on savez, overwrite, load of a multi file / loadz of a single file, default and positional
                  update_structure, foreign writer (stdlib codecs), foreign reader, non-fingerprint pickles, long streams
  sec_setters     histories with setter calls between conversions (level / name / props changed on the SAME object)
  sec_alias       results and inputs do not alias the fingerprint (mutating a returned vector, an input vector, a copy ...)
  sec_drift       to_vector / to_bitstring on objects whose indices left [0, bits) or whose counts drifted (error paths of the model)
  sec_numpy_bits  numpy integers as `bits` (observation; to_rdkit rejects them: reported through fpio.outside_domain)
  sec_defaults    the default value of every optional argument (to_vector(), to_bitvector(), load(path), loadz(path), from_indices /
                  from_counts / constructors without bits and level)
"""
import bz2
import copy
import gzip
import io
import lzma
import math
import os
import pathlib
import pickle
import pickletools
from fractions import Fraction
import numpy as np
import core
import fpgen
import fpio
from fpgen import obs, lit, attempt, result_lit
from fpio import (rand_spec, xobs, xlit, xobs_json, dense_obs, dense_lit, csr_obs, csr_lit, rdk_obs, rdk_lit, lvl_kw, name_kw,
                  DTYPES, NP_DTYPES, entries_lit)
from core import zlit, optlit, strlit

DENSE_MAX = 2 ** 16
STR_MAX = 4096
COUNT_MAX = 65535

NAMES_X = [None, 'a', 'été', '名前 1', 'line\nbreak', 'q\'uo"te', 'tab\there', 'x' * 300, ' lead and trail ', 'back\\slash',
           '(R)-[2H];,|', 'cr\rx', 'Name', 'None', '0', '%s {0} $HOME', 'a/b.c:d', ' ', 'trail\n', '\tlead', 'two  blanks ']
LEVELS_X = [-1, 0, 0, 1, None, -2, 3, 100, 2 ** 40, ('np', 3), ('np', 0)]
FLOATS_X = [0.1, 1.0 / 3.0, math.pi, 0.9999999999999999, 1.0 + 2.0 ** -52, 65535.5, 1e16 + 2, 1.0, 2.5, 123456.789, 1e22, 1e-20, 7e-5]
# the ends of the float64 range: each costs Coq ~0.2 s per occurrence of the literal, so at most one per fingerprint
FLOATS_EXTREME = [1e308, 1.7976931348623157e308, 5e-324, 1e-300, 2.2250738585072014e-308]
COUNTS_X = [1, 1, 2, 3, 255, 256, 65534, 65535]
COUNTS_BIG = [65536, 2 ** 31, 2 ** 53, 2 ** 63, 2 ** 64, 2 ** 100]
PROP_KEYS_X = ['p', 'q', 'index', 'a b', 'clé', '', 'Zed', 'x.y', 7, ('t', 1)]


def _prop_values(rng):
    return rng.choice([1, -7, 2.5, 'txt', None, True, (1, (2, 3)), [3, 'q', [4]], {'k': {'b': [1, 2]}}, b'\x00\xffby', 1e300, frozenset([4, 5]),
                       {1, 2}, 10 ** 30, 'ünï\n"', 3 + 4j, Fraction(1, 3), np.arange(4), np.array([[1.5, 2.0], [3.0, 4.0]]),
                       np.float64(2.5), np.int64(7), np.bool_(True), range(3), {3: {1, 2}, 1: {0}}, float('inf'), -0.0, 'x' * 700])


def _r(r, f=obs):
    """observe the result of an attempt; an object that cannot even be observed (e.g. bits is None) is an error of its own"""
    if r[0] != 'ok':
        return r
    try:
        return ('ok', f(r[1]))
    except Exception as e:  # noqa
        return ('err', 'EUnobservable_' + type(e).__name__)


def unobservable(st, rep, r, payload):
    if r[0] == 'err' and str(r[1]).startswith('EUnobservable'):
        st.prop_fail(rep, 'the result is not a well-formed object: observing it raised %s' % r[1][14:], payload)
        return True
    return False


def _jr(r, j=fpgen.obs_json):
    return j(r[1]) if r[0] == 'ok' else r[1]


def _from_case(st, rep, tag, pyf, model, payload, nontrivial=True):
    r = _r(attempt(pyf))
    if unobservable(st, rep, r, payload):
        return r
    st.add(rep, tag, 'result_eqb fp_obs_eqb (%s) %s' % (model, result_lit(r)), dict(payload, impl=_jr(r)), model, nontrivial)
    return r


def direct(st, rep, tag, ok, what, payload, nontrivial=True, key=None):
    """a check made on the implementation alone"""
    st.dist[rep + '/' + tag] = st.dist.get(rep + '/' + tag, 0) + 1
    st.ctx.count((rep, tag, key if key is not None else str(payload)), nontrivial)
    if not ok:
        st.prop_fail(rep, what, payload)
    return ok


def _level(lv):
    return np.int64(lv[1]) if isinstance(lv, tuple) else lv


def _level_json(lv):
    return 'np.int64(%d)' % lv[1] if isinstance(lv, tuple) else lv


# ------------------------------------------------------------------------------------------------ wide specs and routes
def wide_spec(rng, kind=None, maxbits=2 ** 32, big=False):
    kind = kind or rng.choice(fpgen.KINDS)
    bits = fpio.rand_bits(rng, maxbits)
    idx = fpio.rand_index_set(rng, bits)
    spec = {'kind': kind, 'bits': bits, 'level': rng.choice(LEVELS_X)}
    nm = rng.choice(NAMES_X)
    if nm:
        spec['name'] = nm
    if kind == 'KBit':
        spec['idx'] = idx
    elif kind == 'KCount':
        spec['cnt'] = {i: (rng.choice(COUNTS_BIG) if big and rng.random() < 0.3 else rng.choice(COUNTS_X)) for i in idx}
    else:
        spec['cnt'] = {i: Fraction(rng.choice(FLOATS_X)) for i in idx}
        if idx and rng.random() < 0.3:
            spec['cnt'][rng.choice(idx)] = Fraction(rng.choice(FLOATS_EXTREME))
    if rng.random() < 0.6:
        spec['props'] = {k: _prop_values(rng) for k in rng.sample(PROP_KEYS_X, rng.choice([1, 2, 3]))}
    return spec


def expected_obs(spec):
    lv = spec['level']
    keys = sorted(spec['idx']) if spec['kind'] == 'KBit' else sorted(spec['cnt'])
    cnt = [(k, Fraction(1)) for k in keys] if spec['kind'] == 'KBit' else [(k, Fraction(spec['cnt'][k])) for k in keys]
    return {'kind': spec['kind'], 'bits': spec['bits'], 'level': lv[1] if isinstance(lv, tuple) else lv, 'idx': keys, 'cnt': cnt,
            'name': spec.get('name'), 'props': sorted((str(k), fpio.canon_value(v)) for k, v in spec.get('props', {}).items())}


def _pyval(kind, v):
    return float(v) if kind == 'KFloat' else int(v)


def _npval(kind, v):
    if kind == 'KFloat':
        return np.float64(float(v))
    v = int(v)
    return np.uint16(v) if v <= COUNT_MAX else np.int64(v) if v < 2 ** 63 else v


ROUTES_COUNT = ['from_counts', 'from_counts/shuffled', 'from_counts/numpy', 'ctor', 'ctor/counts-only', 'from_indices/positional',
                'from_vector/csr', 'a+b', 'unpickled', 'deepcopy', 'from_fingerprint', 'loaded']
ROUTES_BIT = ['from_indices/list', 'from_indices/tuple', 'from_indices/uint', 'from_indices/dups', 'from_indices/positional', 'ctor',
              'from_bitstring', 'from_rdkit', 'from_vector/csr', 'a|b', 'unpickled', 'from_fingerprint', 'loaded']


def build_route(st, rng, spec, route=None):
    """Build the fingerprint described by `spec` along one of the construction routes of the library; level, name and props
    are given to the constructor where the route has the keyword and set through the setters otherwise."""
    from scipy.sparse import csr_matrix
    C = fpgen.classes()
    kind, bits, lv, nm = spec['kind'], spec['bits'], _level(spec['level']), spec.get('name')
    cls = C[kind]
    route = route or rng.choice(ROUTES_BIT if kind == 'KBit' else ROUTES_COUNT)
    kw = {'bits': bits, 'level': lv}
    if nm:
        kw['name'] = nm
    late = False          # level / name still to be set through the setters
    if kind == 'KBit':
        idx = list(spec['idx'])
        sh = list(idx)
        rng.shuffle(sh)
        if route == 'from_bitstring' and bits > STR_MAX:
            route = 'from_indices/list'
        if route == 'from_rdkit' and bits > 2 ** 31 - 1:
            route = 'from_indices/tuple'
        if route == 'from_indices/list':
            fp = cls.from_indices(sh, **kw)
        elif route == 'from_indices/tuple':
            fp = cls.from_indices(tuple(sh), **kw)
        elif route == 'from_indices/uint':
            fp = cls.from_indices(np.array(sh, dtype=np.uint64 if rng.random() < 0.5 else np.uint32), **kw)
        elif route == 'from_indices/dups':
            fp = cls.from_indices(np.array(sh + [i for i in sh if rng.random() < 0.5], dtype=np.int64), **kw)
        elif route == 'from_indices/positional':
            fp = cls.from_indices(np.array(sh, dtype=np.int64), bits, lv, **({'name': nm} if nm else {}))
        elif route == 'ctor':
            fp = cls(sh, **kw)
        elif route == 'from_bitstring':
            on = set(idx)
            fp = cls.from_bitstring(''.join('1' if i in on else '0' for i in range(bits)), level=lv, **({'name': nm} if nm else {}))
        elif route == 'from_rdkit':
            from rdkit.DataStructs.cDataStructs import ExplicitBitVect, SparseBitVect
            v = (SparseBitVect if bits >= 100000 or rng.random() < 0.3 else ExplicitBitVect)(bits)
            v.SetBitsFromList(idx)
            fp = cls.from_rdkit(v, level=lv, **({'name': nm} if nm else {}))
        elif route == 'from_vector/csr':
            idt = np.int64 if bits > 2 ** 31 - 1 else np.int32
            m = csr_matrix((np.ones(len(sh), dtype=np.bool_), np.array(sh, dtype=idt), np.array([0, len(sh)], dtype=idt)), shape=(1, bits))
            fp = cls.from_vector(m, level=lv, **({'name': nm} if nm else {}))
        elif route == 'a|b':
            fp = cls.from_indices([i for i in idx if rng.random() < 0.6], bits=bits) | cls.from_indices([i for i in idx if True], bits=bits, level=5)
            late = True
        else:
            fp = cls.from_indices(np.array(idx, dtype=np.int64), **kw)
    else:
        cnt = {int(k): _pyval(kind, v) for k, v in spec['cnt'].items()}
        keys = sorted(cnt)
        sh = list(keys)
        rng.shuffle(sh)
        if route == 'from_vector/csr' and kind == 'KCount' and any(v > COUNT_MAX for v in cnt.values()):
            route = 'from_counts/shuffled'
        if route == 'from_counts':
            fp = cls.from_counts(dict(cnt), **kw)
        elif route == 'from_counts/shuffled':
            fp = cls.from_counts({k: cnt[k] for k in sh}, **kw)
        elif route == 'from_counts/numpy':
            fp = cls.from_counts({np.int64(k): _npval(kind, cnt[k]) for k in sh}, **kw)
        elif route == 'ctor':
            fp = cls(indices=sh, counts={k: cnt[k] for k in sh}, **kw)
        elif route == 'ctor/counts-only':
            fp = cls(counts={k: cnt[k] for k in sh}, **kw)
        elif route == 'from_indices/positional':
            fp = cls.from_indices(np.array(sh, dtype=np.int64), {k: cnt[k] for k in keys}, bits, lv, **({'name': nm} if nm else {}))
        elif route == 'from_vector/csr':
            idt = np.int64 if bits > 2 ** 31 - 1 else np.int32
            data = np.array([cnt[k] for k in sh], dtype=np.uint16 if kind == 'KCount' else np.float64)
            m = csr_matrix((data, np.array(sh, dtype=idt), np.array([0, len(sh)], dtype=idt)), shape=(1, bits))
            fp = cls.from_vector(m, level=lv, **({'name': nm} if nm else {}))
        elif route == 'a+b':
            ca, cb = {}, {}
            for k in sh:
                v = cnt[k]
                if kind == 'KCount' and v >= 2 and rng.random() < 0.5:
                    ca[k], cb[k] = v // 2, v - v // 2
                elif rng.random() < 0.5:
                    ca[k] = v
                else:
                    cb[k] = v
            fp = cls.from_counts(ca, bits=bits, level=2) + cls.from_counts(cb, bits=bits, level=2)
            late = True
        else:
            fp = cls.from_counts(dict(cnt), **kw)
    if late:
        fp.level = lv
        if nm:
            fp.name = nm
    props = spec.get('props', {})
    if props:
        if rng.random() < 0.5:
            for k, v in props.items():
                fp.set_prop(k, v)
        else:
            fp.update_props(dict(props))
    if route == 'unpickled':
        fp = pickle.loads(pickle.dumps(fp, rng.choice([0, 1, 2, 3, 4, 5])))
    elif route == 'deepcopy':
        fp = copy.deepcopy(fp)
    elif route == 'from_fingerprint':
        fp = cls.from_fingerprint(fp)
    elif route == 'loaded':
        import e3fp.fingerprint.fprint as FP
        path = os.path.join(st.ctx.workdir, 'route%s' % rng.choice(['.fp.gz', '.fp.pkl', '.fp.bz2']))
        FP.save(path, fp)
        fp = FP.load(path, update_structure=rng.random() < 0.5)
    return fp, route


def spec_json(spec):
    d = fpgen.spec_to_json({k: v for k, v in spec.items() if k != 'props'})
    d['level'] = _level_json(spec['level'])
    d['props'] = sorted((str(k), fpio.canon_value(v)[:80]) for k, v in spec.get('props', {}).items())
    return d


# ------------------------------------------------------------------------------------------------ all representations of one object
def _overflow_expected(kind, dt, oa):
    return (dt == 'uint16' or (dt is None and kind == 'KCount')) and any(v > COUNT_MAX for _, v in oa['cnt'])


def _dt_choice(rng, kind):
    dt = rng.choice([None, None, 'bool', 'uint16', 'float64'])
    return None if (kind == 'KFloat' and dt == 'uint16') else dt


def conv_indices(st, rng, a, oa, pl):
    C = fpgen.classes()
    kw, lvl = lvl_kw(True, a.level)
    nkw, nm = name_kw(a.name)
    kw.update(nkw)
    if oa['kind'] != 'KBit':
        kw['counts'] = a.counts
    idx = a.indices
    how = rng.choice(['array', 'list', 'reversed', 'copy'])
    if how == 'list':
        idx = [int(i) for i in idx]
    elif how == 'reversed':
        idx = np.array(idx[::-1])
    elif how == 'copy':
        idx = np.array(idx, dtype=np.int64)
    r = _from_case(st, 'indices', 'wide', lambda: C[oa['kind']].from_indices(idx, bits=a.bits, **kw),
                   'from_indices_of %s %s %s' % (lit(oa), lvl, nm), dict(pl, indices_as=how), bool(oa['idx']))
    st.check_rt('indices', oa, r, dict(pl, via='from_indices(fp.indices as %s[, counts=fp.counts], bits, level, name)' % how))


def conv_vector(st, rng, a, oa, pl, sparse):
    C = fpgen.classes()
    rep = 'csr' if sparse else 'dense'
    kind = oa['kind']
    dt = _dt_choice(rng, kind)
    r = attempt(lambda: a.to_vector(sparse=sparse, dtype=NP_DTYPES[dt]))
    ro = _r(r, csr_obs if sparse else dense_obs)
    if unobservable(st, rep, ro, pl):
        return
    if sparse:
        m = 'to_csr %s %s' % (DTYPES[dt], lit(oa))
        expr = 'result_eqb csr_eqb (%s) %s' % (m, result_lit(ro, csr_lit))
    else:
        m = 'to_dense %s %s' % (DTYPES[dt], lit(oa))
        expr = 'result_eqb dense_c_eqb (result_map dense_compress (%s)) %s' % (m, result_lit(ro, dense_lit))
    st.add(rep, 'wide-to', expr, dict(pl, dtype=dt, impl=[ro[1][0], [[k, str(v)] for k, v in ro[1][1]]] if ro[0] == 'ok' else ro[1]), m, bool(oa['idx']))
    if r[0] != 'ok':
        if not _overflow_expected(kind, dt, oa):
            st.prop_fail(rep, 'to_vector raised %s inside the dtype range' % r[1], dict(pl, dtype=dt))
        return
    vec = r[1]
    if vec.dtype != fpio.expected_dtype(kind, dt) or vec.shape != ((1, a.bits) if sparse else (a.bits,)):
        st.prop_fail(rep, 'dtype/shape %s %s' % (vec.dtype, vec.shape), dict(pl, dtype=dt))
    kw, lvl = lvl_kw(True, a.level)
    nkw, nm = name_kw(a.name)
    kw.update(nkw)
    kwb = rng.choice(['absent', 'absent', 'None', a.bits])
    if kwb != 'absent':
        kw['bits'] = None if kwb == 'None' else kwb
    kb = optlit(None if kwb in ('absent', 'None') else kwb)
    src = ('(mkcsr %s %s)' % (zlit(ro[1][0]), entries_lit(ro[1][1]))) if sparse else '(dense_expand %s %s)' % (zlit(ro[1][0]), entries_lit(ro[1][1]))
    m = '%s %s %s %s %s %s' % ('from_csr' if sparse else 'from_dense', kind, src, kb, lvl, nm)
    rb = _from_case(st, rep, 'wide-from', lambda: C[kind].from_vector(vec, **kw), m,
                    dict(pl, dtype=str(vec.dtype), bits_kw=str(kwb), vector=[ro[1][0], [[k, str(v)] for k, v in ro[1][1]]]), bool(oa['idx']))
    if dt is None:
        st.check_rt(rep, oa, rb, dict(pl, via='from_vector(to_vector(sparse=%s), bits %s)' % (sparse, kwb)))


def conv_bitstring(st, rng, a, oa, pl):
    C = fpgen.classes()
    r = attempt(lambda: a.to_bitstring())
    m = 'to_bitstring %s' % lit(oa)
    st.add('bitstring', 'wide-to', 'result_eqb String.eqb (%s) %s' % (m, result_lit(r, strlit)), dict(pl, impl=r[1][:200]), m, bool(oa['idx']))
    if r[0] != 'ok':
        st.prop_fail('bitstring', 'to_bitstring raised %s' % r[1], pl)
        return
    s = r[1]
    kw, lvl = lvl_kw(True, a.level)
    nkw, nm = name_kw(a.name)
    kw.update(nkw)
    if rng.random() < 0.3:
        kw['bits'] = None
    m = 'from_bitstring %s %s None %s %s' % (oa['kind'], strlit(s), lvl, nm)
    rb = _from_case(st, 'bitstring', 'wide-from', lambda: C[oa['kind']].from_bitstring(s, **kw), m, dict(pl, bitstring=s[:200], bits_none='bits' in kw), bool(oa['idx']))
    if all(v == 1 for _, v in oa['cnt']):
        st.check_rt('bitstring', oa, rb, dict(pl, via='from_bitstring(to_bitstring())'))
    elif rb[0] == 'ok' and (rb[1]['idx'] != oa['idx'] or rb[1]['bits'] != oa['bits'] or rb[1]['level'] != oa['level'] or rb[1]['name'] != oa['name']):
        st.prop_fail('bitstring', 'set bits / length / level / name differ after the bit string round trip', dict(pl, result=fpgen.obs_json(rb[1])))


def conv_rdkit(st, rng, a, oa, pl):
    C = fpgen.classes()
    r = attempt(lambda: a.to_rdkit())
    ro = _r(r, rdk_obs)
    if unobservable(st, 'rdkit', ro, pl):
        return
    m = 'to_rdkit %s' % lit(oa)
    st.add('rdkit', 'wide-to', 'result_eqb rdk_eqb (%s) %s' % (m, result_lit(ro, rdk_lit)), dict(pl, impl=ro[1]), m, bool(oa['idx']))
    if r[0] != 'ok':
        st.prop_fail('rdkit', 'to_rdkit raised %s' % r[1], pl)
        return
    kw, lvl = lvl_kw(True, a.level)
    nkw, nm = name_kw(a.name)
    kw.update(nkw)
    m = 'from_rdkit %s %s None %s %s' % (oa['kind'], rdk_lit(ro[1]), lvl, nm)
    rb = _from_case(st, 'rdkit', 'wide-from', lambda: C[oa['kind']].from_rdkit(r[1], **kw), m, dict(pl, rdkit=ro[1]), bool(oa['idx']))
    if a.bits <= 2 ** 31 - 1:
        if all(v == 1 for _, v in oa['cnt']):
            st.check_rt('rdkit', oa, rb, dict(pl, via='from_rdkit(to_rdkit())'))
        elif rb[0] == 'ok' and (rb[1]['idx'] != oa['idx'] or rb[1]['bits'] != oa['bits'] or rb[1]['level'] != oa['level'] or rb[1]['name'] != oa['name']):
            st.prop_fail('rdkit', 'set bits / length / level / name differ after the RDKit round trip', dict(pl, result=fpgen.obs_json(rb[1])))


def _pure_py(a, p):
    f = io.BytesIO()
    pickle._Pickler(f, p).dump(a)
    return pickle._Unpickler(io.BytesIO(f.getvalue())).load()


def _pickler_objects(a, p):
    f = io.BytesIO()
    pickle.Pickler(f, protocol=p).dump(a)
    f.seek(0)
    return pickle.Unpickler(f).load()


def pickle_ways():
    ways = [('pickle%d' % p, (lambda a, p=p: pickle.loads(pickle.dumps(a, p)))) for p in range(0, pickle.HIGHEST_PROTOCOL + 1)]
    ways += [('pure-python pickle%d' % p, (lambda a, p=p: _pure_py(a, p))) for p in (0, 2, 4)]
    ways += [('Pickler/Unpickler%d' % p, (lambda a, p=p: _pickler_objects(a, p))) for p in (1, 5)]
    ways += [('pickletools.optimize', lambda a: pickle.loads(pickletools.optimize(pickle.dumps(a, 3)))),
             ('second generation', lambda a: pickle.loads(pickle.dumps(pickle.loads(pickle.dumps(a, 0)), 5))),
             ('copy.deepcopy', copy.deepcopy), ('copy.copy', copy.copy), ('__reduce_ex__', _reduce_ex)]
    return ways


def _reduce_ex(a):
    red = a.__reduce_ex__(2)
    b = red[0](*red[1])
    b.__setstate__(red[2])
    return b


def conv_pickle(st, rng, a, oa, pl):
    wname, way = rng.choice(pickle_ways())
    ca = fpio.cache_obs(a)
    r = _r(attempt(lambda: way(a)), xobs)
    if unobservable(st, 'pickle', r, dict(pl, way=wname)):
        return
    m = 'pickle_roundtrip %s' % xlit(oa)
    st.add('pickle', 'wide', 'result_eqb fpx_obs_eqb (Ok (%s)) %s' % (m, result_lit(r, xlit)), dict(pl, way=wname, impl=_jr(r, xobs_json)), m, bool(oa['idx']))
    st.dist['pickle/way:' + wname.rstrip('012345')] = st.dist.get('pickle/way:' + wname.rstrip('012345'), 0) + 1
    st.check_rt('pickle', oa, r, dict(pl, via=wname), props=True)
    if xobs(a) != oa or fpio.cache_obs(a) != ca:
        st.prop_fail('pickle', 'the original changed while being pickled/copied', dict(pl, way=wname))


# ------------------------------------------------------------------------------------------------ files
CODECS = {'gz': (gzip.open, b'\x1f\x8b'), 'bz2': (bz2.open, b'BZh'), 'xz': (lzma.open, b'\xfd7zXZ\x00')}
EXTS_X = ['.fp.pkl', '.fp.gz', '.fp.bz2', '.fp.xz', '.fp', '', '.bin', '.fp.pkl.gz', '.fps.bz2', '.pkl.xz']
STEMS = ['fp', 'sp ace', 'ünï_名', "q'uote", 'dot.ted.name', '[x](y)&z', 'UPPER', '-dash']


def codec_of(path):
    base = os.path.basename(str(path))
    ext = base.rsplit('.', 1)[-1] if '.' in base else ''
    return ext if ext in CODECS else None


def std_open(path, mode):
    c = codec_of(path)
    return CODECS[c][0](str(path), mode) if c else open(str(path), mode)


def std_read_pickles(path):
    """what the stdlib alone reads from the file: the codec named by the extension, then pickles until EOF"""
    out = []
    with std_open(path, 'rb') as fh:
        while True:
            try:
                out.append(pickle.load(fh))
            except EOFError:
                break
    return out


def first_protocol(path):
    """argument of the PROTO opcode that starts the first pickle (None: protocol 0 / 1, which have no such opcode)"""
    with std_open(path, 'rb') as fh:
        op, arg, _ = next(pickletools.genops(fh))
    return arg if op.name == 'PROTO' else None


def new_path(st, rng, ext, n):
    d = os.path.join(st.ctx.workdir, 'files_x')
    os.makedirs(d, exist_ok=True)
    stem = rng.choice(STEMS)
    path = os.path.join(d, '%s_%d%s' % (stem, n, ext))
    form = rng.choice(['str', 'str', 'pathlib', 'relative'])
    if form == 'pathlib':
        return pathlib.Path(path), path, '%s_N%s as pathlib.Path' % (stem, ext)
    if form == 'relative':
        return os.path.relpath(path), path, '%s_N%s as relative path' % (stem, ext)
    return path, path, '%s_N%s' % (stem, ext)


def check_file_bytes(st, real, desc, n_expected, obs_expected, pl):
    """the file is what its extension says: magic bytes of the codec, readable by the stdlib codec, one pickle per fingerprint"""
    c = codec_of(real)
    head = open(real, 'rb').read(8)
    ok = head.startswith(CODECS[c][1]) if c else not any(head.startswith(mg) for _, mg in CODECS.values())
    direct(st, 'file', 'bytes', ok, 'file %s does not start like its extension says (%r)' % (desc, head), pl, key=desc + str(n_expected) + str(pl))
    if n_expected and 'protocol' in pl:
        want = pickle.HIGHEST_PROTOCOL if pl['protocol'] is None else pl['protocol']
        got = attempt(lambda: first_protocol(real))
        direct(st, 'file', 'protocol', got == ('ok', want if want >= 2 else None), 'the pickles in %s are not written with the requested protocol (%s; None = the highest): first opcode says %r'
               % (desc, pl['protocol'], got[1]), pl, key='proto' + desc + str(pl))
    r = attempt(lambda: [xobs(x) for x in std_read_pickles(real)])
    good = r[0] == 'ok' and len(r[1]) == n_expected and all(fpio.same_content(x, y, props=True) for x, y in zip(obs_expected, r[1]))
    direct(st, 'file', 'stdlib-reader', good, 'the standard library (codec by extension + pickle.load until EOF) does not read back what was saved to %s' % desc,
           dict(pl, stdlib_read=[xobs_json(o) for o in r[1]] if r[0] == 'ok' else r[1]), key=desc + str(pl))


def conv_file(st, rng, a, oa, pl, n):
    import e3fp.fingerprint.fprint as FP
    ext = rng.choice(EXTS_X)
    path, real, desc = new_path(st, rng, ext, n)
    proto = rng.choice([None, None, 0, 1, 2, 3, 4, 5])
    kwp = {} if proto is None else {'protocol': proto}
    pl = dict(pl, file=desc, protocol=proto)
    rs = attempt(lambda: FP.save(path, a, **kwp))
    if rs != ('ok', True):
        st.prop_fail('file', 'save returned %r' % (rs,), pl)
        return
    check_file_bytes(st, real, desc, 1, [oa], pl)
    how = rng.choice(['default', 'positional-True', 'positional-False', 'kw-True', 'kw-False'])
    upd = how in ('default', 'positional-True', 'kw-True')
    call = {'default': lambda: FP.load(path), 'positional-True': lambda: FP.load(path, True), 'positional-False': lambda: FP.load(path, False),
            'kw-True': lambda: FP.load(path, update_structure=True), 'kw-False': lambda: FP.load(path, update_structure=False)}[how]
    r = _r(attempt(call), xobs)
    if unobservable(st, 'file', r, dict(pl, update_structure=how)):
        return
    m = 'file_roundtrip %s %s' % (core.blit(upd), xlit(oa))
    st.add('file', 'wide-save-load', 'result_eqb fpx_obs_eqb (%s) %s' % (m, result_lit(r, xlit)), dict(pl, update_structure=how, impl=_jr(r, xobs_json)), m, bool(oa['idx']))
    st.dist['file/ext:' + (ext or '(none)')] = st.dist.get('file/ext:' + (ext or '(none)'), 0) + 1
    st.check_rt('file', oa, r, dict(pl, via='save/load', update_structure=how), props=True)
    rz = attempt(lambda: [xobs(x) for x in FP.loadz(path, update_structure=upd)])
    direct(st, 'file', 'loadz-of-save', rz[0] == 'ok' and len(rz[1]) == 1 and r[0] == 'ok' and rz[1][0] == r[1],
           'loadz of a file written by save is not the one-element list of what load returns', dict(pl, loadz=[xobs_json(o) for o in rz[1]] if rz[0] == 'ok' else rz[1]))
    if xobs(a) != oa:
        st.prop_fail('file', 'saving changed the fingerprint', pl)


def sec_wide(st):
    rng = st.rng
    n = 0
    for i in range(st.ctx.n(110, 1400)):
        big = rng.random() < 0.25
        spec = wide_spec(rng, big=big)
        r = attempt(lambda: build_route(st, rng, spec))
        pl = {'spec': spec_json(spec)}
        if r[0] != 'ok':
            direct(st, 'construct', 'route', False, 'a construction route raised %s' % r[1], pl)
            continue
        a, route = r[1]
        pl['route'] = route
        oa = xobs(a)
        exp = expected_obs(spec)
        st.dist['construct/' + route] = st.dist.get('construct/' + route, 0) + 1
        st.ctx.count(('construct', str(pl)), bool(oa['idx']))
        if oa != exp:
            st.prop_fail('construct', 'the fingerprint built through %s does not observe like its description' % route, dict(pl, observed=xobs_json(oa), expected=xobs_json(exp)))
            continue
        pl['a'] = xobs_json(oa)
        if rng.random() < 0.3 and a.bits >= 4 and (a.bits & (a.bits - 1)) == 0 and all(v < 10 ** 150 for _, v in oa['cnt']):
            attempt(lambda: a.fold(max(1, a.bits // rng.choice([2, 4, 2 ** 10])), method=rng.choice([0, 1])))      # a fold cache in the graph
        conv_indices(st, rng, a, oa, pl)
        conv_vector(st, rng, a, oa, pl, True)
        if a.bits <= DENSE_MAX:
            conv_vector(st, rng, a, oa, pl, False)
        if a.bits <= STR_MAX and rng.random() < 0.7:
            conv_bitstring(st, rng, a, oa, pl)
        if rng.random() < 0.7:
            conv_rdkit(st, rng, a, oa, pl)
        conv_pickle(st, rng, a, oa, pl)
        if rng.random() < 0.7:
            n += 1
            conv_file(st, rng, a, oa, pl, n)
        if xobs(a) != oa:
            st.prop_fail('construct', 'the conversions changed the fingerprint', dict(pl, after=xobs_json(xobs(a))))
    # folded fingerprints (a back link to the unfolded parent in the graph) through every representation
    C = fpgen.classes()
    for i in range(st.ctx.n(30, 400)):
        spec = wide_spec(rng, kind=rng.choice(['KCount', 'KFloat', 'KBit']))
        spec['bits'] = rng.choice([16, 64, 1024, 4096, 2 ** 20, 2 ** 32])
        keys = fpio.rand_index_set(rng, spec['bits'])
        if spec['kind'] == 'KBit':
            spec['idx'] = keys
        else:
            spec['cnt'] = {k: (rng.choice(COUNTS_X[:6]) if spec['kind'] == 'KCount' else Fraction(rng.choice([1, 3, 5]), rng.choice([1, 2, 8]))) for k in keys}
        g, _ = build_route(st, rng, spec, route='from_counts/shuffled' if spec['kind'] != 'KBit' else 'from_indices/list')
        nb = rng.choice([b for b in (1, 2, 8, 32, 1024) if b <= spec['bits']])
        a = g.fold(nb, method=rng.choice([0, 1]), linked=rng.random() < 0.8)
        oa = xobs(a)
        pl = {'spec': spec_json(spec), 'route': 'fold(%d) of the described fingerprint' % nb, 'a': xobs_json(oa)}
        st.dist['construct/folded'] = st.dist.get('construct/folded', 0) + 1
        conv_indices(st, rng, a, oa, pl)
        conv_vector(st, rng, a, oa, pl, True)
        if all(v <= COUNT_MAX for _, v in oa['cnt']):
            conv_vector(st, rng, a, oa, pl, False)
        conv_pickle(st, rng, a, oa, pl)
        n += 1
        conv_file(st, rng, a, oa, pl, n)


# ------------------------------------------------------------------------------------------------ call conventions
def sec_kwargs(st):
    rng, C = st.rng, fpgen.classes()
    for i in range(st.ctx.n(60, 600)):
        spec = rand_spec(rng, maxbits=4096, unit=rng.random() < 0.5)
        a = fpio.build(spec)
        oa = xobs(a)
        kind = rng.choice([spec['kind'], rng.choice(fpgen.KINDS)])
        lv = rng.choice(fpio.LEVELS)
        nm_mode = rng.choice(['absent', 'None', 'empty', 'given'])
        nkw = {'absent': {}, 'None': {'name': None}, 'empty': {'name': ''}, 'given': {'name': 'n m'}}[nm_mode]
        nm = {'absent': 'None', 'None': 'None', 'empty': '(Some ""%string)', 'given': '(Some "n m"%string)'}[nm_mode]
        bmode = rng.choice(['absent', 'None', 'same'])
        bkw = {'absent': {}, 'None': {'bits': None}, 'same': {'bits': a.bits}}[bmode]
        kb = optlit(a.bits if bmode == 'same' else None)
        rep = rng.choice(['dense', 'csr', 'bitstring', 'rdkit', 'indices'])
        pl = {'a': xobs_json(oa), 'kind': kind, 'level_positional': lv, 'name_kw': nm_mode, 'bits_kw': bmode}
        lvl = '(Some %s)' % optlit(lv)
        if rep in ('dense', 'csr'):
            if any(v > COUNT_MAX for _, v in oa['cnt']):
                continue
            vec = a.to_vector(sparse=(rep == 'csr'))
            o = csr_obs(vec) if rep == 'csr' else dense_obs(vec)
            src = csr_lit(o) if rep == 'csr' else '(dense_expand %s %s)' % (zlit(o[0]), entries_lit(o[1]))
            m = '%s %s %s %s %s %s' % ('from_csr' if rep == 'csr' else 'from_dense', kind, src, kb, lvl, nm)
            _from_case(st, rep, 'call-convention', lambda: C[kind].from_vector(vec, lv, **dict(nkw, **bkw)), m, pl, bool(oa['idx']))
        elif rep == 'bitstring':
            s = a.to_bitstring()
            m = 'from_bitstring %s %s %s %s %s' % (kind, strlit(s), kb, lvl, nm)
            _from_case(st, rep, 'call-convention', lambda: C[kind].from_bitstring(s, lv, **dict(nkw, **bkw)), m, dict(pl, bitstring=s[:200]), bool(oa['idx']))
        elif rep == 'rdkit':
            v = a.to_rdkit()
            m = 'from_rdkit %s %s None %s %s' % (kind, rdk_lit(rdk_obs(v)), lvl, nm)
            _from_case(st, rep, 'call-convention', lambda: C[kind].from_rdkit(v, level=lv, **nkw), m, pl, bool(oa['idx']))
        else:
            idx = [int(j) for j in a.indices]
            m = 'from_index_list %s %s %s %s %s' % (kind, core.zlist(idx), zlit(a.bits), optlit(lv), 'None' if nm_mode in ('absent', 'None', 'empty') else '(Some "n m"%string)')
            if kind == 'KBit':
                _from_case(st, rep, 'call-convention', lambda: C[kind].from_indices(idx, a.bits, lv, **nkw), m, pl, bool(idx))
            else:
                _from_case(st, rep, 'call-convention', lambda: C[kind].from_indices(idx, None, a.bits, lv, **nkw), m, pl, bool(idx))
    # props= keyword of the from_* constructors: the format does not carry props, the caller re-supplies them
    for i in range(st.ctx.n(40, 400)):
        spec = wide_spec(rng, maxbits=4096)
        spec['props'] = {k: _prop_values(rng) for k in rng.sample(PROP_KEYS_X, rng.choice([1, 2, 3]))}
        if spec['kind'] == 'KCount':
            spec['cnt'] = {k: min(v, COUNT_MAX) for k, v in spec['cnt'].items()}
        a, route = build_route(st, rng, spec, route='from_counts' if spec['kind'] != 'KBit' else 'from_indices/list')
        oa = xobs(a)
        rep = rng.choice(['dense', 'csr', 'bitstring', 'rdkit', 'indices'])
        unit = all(v == 1 for _, v in oa['cnt'])
        if rep in ('bitstring', 'rdkit') and not unit:
            rep = 'csr'
        name_in_props = rng.random() < 0.5             # the name inside props (as fp.props holds it) or as the keyword
        props = dict(a.props) if name_in_props else {k: v for k, v in a.props.items() if k != 'Name'}
        kw = {'level': a.level, 'props': props}
        if not name_in_props and a.name:
            kw['name'] = a.name
        cls = C[oa['kind']]
        before = dict(props)
        if rep == 'dense':
            f = lambda: cls.from_vector(a.to_vector(sparse=False), **kw)
        elif rep == 'csr':
            f = lambda: cls.from_vector(a.to_vector(sparse=True), **kw)
        elif rep == 'bitstring':
            f = lambda: cls.from_bitstring(a.to_bitstring(), **kw)
        elif rep == 'rdkit':
            f = lambda: cls.from_rdkit(a.to_rdkit(), **kw)
        else:
            f = lambda: cls.from_indices(a.indices, bits=a.bits, **dict(kw, **({} if oa['kind'] == 'KBit' else {'counts': a.counts})))
        r = attempt(f)
        pl = {'a': xobs_json(oa), 'via': rep, 'name_in_props': name_in_props}
        ok = r[0] == 'ok' and fpio.same_content(oa, xobs(r[1]), props=True) and r[1].props is not props and list(props) == list(before)
        direct(st, rep, 'props-keyword', ok, 'from_X(to_X(fp), level=fp.level, props=fp.props[, name=fp.name]) does not observe like fp',
               dict(pl, result=xobs_json(xobs(r[1])) if r[0] == 'ok' else r[1]), bool(oa['idx']))


# ------------------------------------------------------------------------------------------------ dtype spellings, to_bitvector
DT_ALIASES = {'bool': ['bool', bool, np.bool_, np.dtype('bool'), '?'], 'uint16': ['uint16', np.uint16, np.dtype('uint16'), 'u2', '<u2'],
              'float64': ['float64', float, np.float64, np.dtype('float64'), 'f8', 'd', 'float']}
DT_DIRECT = [int, 'int', np.int64, np.int32, np.uint32, np.uint64, np.uint8, np.int8, np.int16, np.float32, 'f4']      # (scipy.sparse has no float16)


def _fits(ndt, v):
    """the float type `ndt` holds the rational v exactly"""
    try:
        with np.errstate(all='ignore'):
            return Fraction(float(ndt.type(float(v)))) == v
    except (OverflowError, ValueError):
        return False


def sec_dtypes(st):
    rng = st.rng
    for i in range(st.ctx.n(70, 800)):
        spec = rand_spec(rng, maxbits=DENSE_MAX if rng.random() < 0.7 else 2 ** 32, big=rng.random() < 0.2)
        a = fpio.build(spec)
        oa = xobs(a)
        kind = spec['kind']
        sparse = a.bits > DENSE_MAX or rng.random() < 0.5
        pos = rng.random() < 0.4
        pl = {'a': xobs_json(oa), 'sparse': sparse, 'positional': pos}
        if rng.random() < 0.55:
            dt = rng.choice(['bool', 'uint16', 'float64'])
            if kind == 'KFloat' and dt == 'uint16':
                dt = 'float64'
            alias = rng.choice(DT_ALIASES[dt])
            r = attempt(lambda: a.to_vector(sparse, alias) if pos else a.to_vector(dtype=alias, sparse=sparse))
            ro = _r(r, csr_obs if sparse else dense_obs)
            if unobservable(st, 'csr' if sparse else 'dense', ro, pl):
                continue
            if sparse:
                m = 'to_csr %s %s' % (DTYPES[dt], lit(oa))
                expr = 'result_eqb csr_eqb (%s) %s' % (m, result_lit(ro, csr_lit))
            else:
                m = 'to_dense %s %s' % (DTYPES[dt], lit(oa))
                expr = 'result_eqb dense_c_eqb (result_map dense_compress (%s)) %s' % (m, result_lit(ro, dense_lit))
            st.add('csr' if sparse else 'dense', 'dtype-spelling', expr, dict(pl, dtype=repr(alias), impl=str(ro[1])[:300]), m, bool(oa['idx']))
            if r[0] == 'ok' and r[1].dtype != np.dtype(NP_DTYPES[dt]):
                st.prop_fail('csr' if sparse else 'dense', 'dtype %s for dtype=%r' % (r[1].dtype, alias), pl)
        elif rng.random() < 0.5:
            # to_bitvector == the boolean vector
            r = attempt(lambda: a.to_bitvector(sparse) if pos else a.to_bitvector(sparse=sparse))
            ro = _r(r, csr_obs if sparse else dense_obs)
            if unobservable(st, 'csr' if sparse else 'dense', ro, pl):
                continue
            if sparse:
                m = 'to_csr (Some DBool) %s' % lit(oa)
                expr = 'result_eqb csr_eqb (%s) %s' % (m, result_lit(ro, csr_lit))
            else:
                m = 'to_dense (Some DBool) %s' % lit(oa)
                expr = 'result_eqb dense_c_eqb (result_map dense_compress (%s)) %s' % (m, result_lit(ro, dense_lit))
            st.add('csr' if sparse else 'dense', 'to_bitvector', expr, dict(pl, impl=str(ro[1])[:300]), m, bool(oa['idx']))
            if r[0] == 'ok' and (r[1].dtype != np.bool_ or r[1].shape != ((1, a.bits) if sparse else (a.bits,))):
                st.prop_fail('csr' if sparse else 'dense', 'to_bitvector gave dtype %s shape %s' % (r[1].dtype, r[1].shape), pl)
        else:
            # dtypes the model does not have: the values must be the counts, exactly, whenever the dtype can hold them
            dt = rng.choice(DT_DIRECT)
            ndt = np.dtype(dt)
            vals = [v for _, v in oa['cnt']]
            if kind == 'KFloat':
                if ndt.kind != 'f':
                    continue                      # float -> integer casts: C semantics, outside the model and the property
                fits = all(_fits(ndt, v) for v in vals)
                if not fits:
                    continue
                raises = False
            elif ndt.kind == 'f':
                fi = np.finfo(ndt)
                if any(v > 2 ** (fi.nmant + 1) for v in vals):
                    continue
                raises = False
            else:
                ii = np.iinfo(ndt)
                raises = any(v > ii.max for v in vals)
            r = attempt(lambda: a.to_vector(sparse, dt) if pos else a.to_vector(sparse=sparse, dtype=dt))
            if raises:
                ok = r[0] == 'err'
                got = r[1] if r[0] == 'err' else 'a vector'
            else:
                ok = r[0] == 'ok' and r[1].dtype == ndt and (csr_obs(r[1]) if sparse else dense_obs(r[1])) == (a.bits, oa['cnt'])
                got = str((csr_obs(r[1]) if sparse else dense_obs(r[1])))[:300] if r[0] == 'ok' else r[1]
            direct(st, 'csr' if sparse else 'dense', 'dtype-direct', ok, 'to_vector(dtype=%r): the entries are not the counts (or no overflow error)' % (dt,), dict(pl, dtype=repr(dt), got=got), bool(oa['idx']))


# ------------------------------------------------------------------------------------------------ vectors as other producers make them
def sec_vec_inputs(st):
    import scipy.sparse as sp
    rng, C = st.rng, fpgen.classes()
    for i in range(st.ctx.n(70, 800)):
        spec = rand_spec(rng, maxbits=DENSE_MAX if rng.random() < 0.6 else 2 ** 32)
        a = fpio.build(spec)
        oa = xobs(a)
        if any(v > COUNT_MAX for _, v in oa['cnt']):
            continue
        kind = spec['kind']
        kw, lvl = lvl_kw(True, a.level)
        nkw, nm = name_kw(a.name)
        kw.update(nkw)
        if a.bits <= DENSE_MAX and rng.random() < 0.5:
            base = a.to_vector(sparse=False)
            mode = rng.choice(['strided', 'negative-stride', 'read-only', 'float32', 'int32', 'uint64', 'uint8', 'object', 'fortran', 'subclass'])
            if mode == 'strided':
                big = np.zeros(2 * a.bits + 1, dtype=base.dtype)
                big[1::2] = base
                vec = big[1::2]
            elif mode == 'negative-stride':
                vec = np.array(base[::-1])[::-1]
            elif mode == 'read-only':
                vec = base.copy()
                vec.setflags(write=False)
            elif mode in ('float32', 'int32', 'uint64', 'uint8'):
                t = np.dtype(mode)
                if kind == 'KFloat' and (t.kind != 'f' or not all(_fits(t, v) for _, v in oa['cnt'])):
                    continue
                if t == np.uint8 and any(v > 255 for _, v in oa['cnt']):
                    continue
                vec = base.astype(t)
            elif mode == 'object':
                if kind == 'KFloat':
                    continue
                vec = np.array([int(x) for x in base], dtype=object) if a.bits <= 4096 else base
            elif mode == 'fortran':
                vec = np.asfortranarray(base)
            else:
                vec = base.view(np.ndarray).view(type('Sub', (np.ndarray,), {}))
            o = dense_obs(vec)
            m = 'from_dense %s (dense_expand %s %s) None %s %s' % (kind, zlit(o[0]), entries_lit(o[1]), lvl, nm)
            rb = _from_case(st, 'dense', 'input:' + mode, lambda: C[kind].from_vector(vec, **kw), m, {'a': xobs_json(oa), 'vector_is': mode}, bool(oa['idx']))
            st.check_rt('dense', oa, rb, {'via': 'from_vector(%s view/cast of to_vector(sparse=False))' % mode})
        else:
            base = a.to_vector(sparse=True)
            mode = rng.choice(['csr_array', 'int64-indices', 'copy', 'sorted_indices', 'from-coo', 'from-lil', 'float32', 'sliced-row'])
            if mode == 'csr_array':
                mat = sp.csr_array(base)
            elif mode == 'int64-indices':
                mat = sp.csr_matrix((base.data, base.indices.astype(np.int64), base.indptr.astype(np.int64)), shape=base.shape)
            elif mode == 'copy':
                mat = base.copy()
            elif mode == 'sorted_indices':
                mat = base.sorted_indices()
            elif mode == 'from-coo':
                mat = base.tocoo().tocsr()
            elif mode == 'from-lil':
                if a.bits > 2 ** 20:
                    continue
                mat = base.tolil().tocsr()
            elif mode == 'float32':
                if kind != 'KFloat' or not all(_fits(np.dtype(np.float32), v) for _, v in oa['cnt']):
                    continue
                mat = base.astype(np.float32)
            else:
                stacked = sp.vstack([base, base * 0, base]).tocsr()
                mat = stacked[2]
            o = csr_obs(mat)
            m = 'from_csr %s %s None %s %s' % (kind, csr_lit(o), lvl, nm)
            rb = _from_case(st, 'csr', 'input:' + mode, lambda: C[kind].from_vector(mat, **kw), m, {'a': xobs_json(oa), 'matrix_is': mode}, bool(oa['idx']))
            st.check_rt('csr', oa, rb, {'via': 'from_vector(%s of to_vector(sparse=True))' % mode})
    # objects that are not RDKit bit vectors
    from rdkit.DataStructs.cDataStructs import UIntSparseIntVect, LongSparseIntVect
    for bad, nm in ((UIntSparseIntVect(8), 'UIntSparseIntVect'), (LongSparseIntVect(8), 'LongSparseIntVect'), ([0, 1], 'list'), (np.array([0, 1]), 'ndarray'), (None, 'None')):
        r = attempt(lambda: C['KCount'].from_rdkit(bad))
        direct(st, 'rdkit', 'not-a-bitvect', r == ('err', 'EType'), 'from_rdkit accepted / failed differently on a %s: %r' % (nm, r), {'object': nm})
    # vectors RDKit itself makes
    from rdkit import Chem
    from rdkit.Chem import rdFingerprintGenerator, MACCSkeys
    for smi in ('CCO', 'c1ccccc1C(=O)N', 'C'):
        mol = Chem.MolFromSmiles(smi)
        for nb in (64, 2048):
            for v, what in ((rdFingerprintGenerator.GetMorganGenerator(radius=2, fpSize=nb).GetFingerprint(mol), 'Morgan%d' % nb), (MACCSkeys.GenMACCSKeys(mol), 'MACCS')):
                o = rdk_obs(v)
                kind = rng.choice(fpgen.KINDS)
                m = 'from_rdkit %s %s None None None' % (kind, rdk_lit(o))
                rb = _from_case(st, 'rdkit', 'input:rdkit-made', lambda: C[kind].from_rdkit(v), m, {'rdkit': o, 'made_by': what + ' of ' + smi}, bool(o[2]))
                if rb[0] == 'ok':
                    back = attempt(lambda: rdk_obs(C[kind].from_rdkit(v).to_rdkit()))
                    direct(st, 'rdkit', 'rdkit-first', back == ('ok', o), 'to_rdkit(from_rdkit(v)) is not v for an RDKit-made vector', {'rdkit': o, 'back': back[1]})


# ------------------------------------------------------------------------------------------------ pickle: object graphs
def sec_pickle_x(st):
    rng, C = st.rng, fpgen.classes()
    ways = pickle_ways()
    for i in range(st.ctx.n(50, 600)):
        kind = rng.choice(fpgen.KINDS)
        bits = rng.choice([16, 64, 1024, 4096, 2 ** 20, 2 ** 32])
        spec = rand_spec(rng, kind=kind, bits=bits)
        g = fpio.build(spec)
        nb = rng.choice([b for b in (1, 2, 8, 32, 1024) if b <= bits])
        meth = rng.choice([0, 1])
        f = g.fold(nb, method=meth)
        og, of_ = xobs(g), xobs(f)
        wname, way = rng.choice([w for w in ways if w[0] not in ('copy.copy', '__reduce_ex__')])
        pl = {'g': xobs_json(og), 'fold': nb, 'way': wname}
        mode = rng.choice(['folded', 'pair', 'twice', 'dict'])
        if mode == 'folded':
            r = attempt(lambda: way(f))
            ok = r[0] == 'ok' and xobs(r[1]) == of_ and r[1].unfold() is not None and xobs(r[1].unfold()) == og and \
                r[1].unfold().folded_fingerprint.get((nb, meth)) is r[1] and \
                r[1].get_unfolding_index_map() == f.get_unfolding_index_map() and r[1].unfold().get_folding_index_map() == g.get_folding_index_map()
            direct(st, 'pickle', 'graph:folded', ok, 'a pickled folded fingerprint does not come back with its content, its parent and the links between them', pl, bool(og['idx']))
            rr = _r(r, xobs)
            if unobservable(st, 'pickle', rr, pl):
                continue
            m = 'pickle_roundtrip %s' % xlit(of_)
            st.add('pickle', 'graph:folded', 'result_eqb fpx_obs_eqb (Ok (%s)) %s' % (m, result_lit(rr, xlit)), dict(pl, impl=_jr(rr, xobs_json)), m, bool(of_['idx']))
        elif mode == 'pair':
            r = attempt(lambda: way([g, g, f]))
            ok = r[0] == 'ok' and r[1][0] is r[1][1] and r[1][2].unfold() is r[1][0] and xobs(r[1][0]) == og and xobs(r[1][2]) == of_
            direct(st, 'pickle', 'graph:shared', ok, 'one pickle of [g, g, g.fold()] does not keep contents and sharing', pl, bool(og['idx']))
        elif mode == 'twice':
            r1 = attempt(lambda: xobs(way(g)))
            r2 = attempt(lambda: xobs(way(g)))
            r3 = attempt(lambda: xobs(way(way(g))))
            direct(st, 'pickle', 'reuse:twice', r1 == ('ok', og) and r2 == r1 and r3 == r1, 'pickling the same object twice / pickling the copy again gives different results', pl, bool(og['idx']))
        else:
            r = attempt(lambda: way({'x': g, 'y': (f, g.name)}))
            ok = r[0] == 'ok' and xobs(r[1]['x']) == og and xobs(r[1]['y'][0]) == of_ and r[1]['y'][0].unfold() is r[1]['x']
            direct(st, 'pickle', 'graph:container', ok, 'fingerprints inside a pickled container do not come back alike', pl, bool(og['idx']))
        if xobs(g) != og or xobs(f) != of_:
            st.prop_fail('pickle', 'pickling changed the fingerprint', pl)
    # Mol and index_id_map props (what the fingerprinter attaches)
    from rdkit import Chem
    import e3fp.fingerprint.fprint as FP
    for i in range(st.ctx.n(20, 200)):
        spec = rand_spec(rng, maxbits=2 ** 32)
        a = fpio.build(spec)
        smi = rng.choice(['CCO', 'c1ccccc1', 'C[C@H](N)C(=O)O', '[Na+].[Cl-]', '[2H]O[2H]'])
        mol = Chem.MolFromSmiles(smi)
        mol.SetProp('_Name', 'mol %d' % i)
        a.mol = mol
        keys = [int(k) for k in a.indices]
        a.index_id_map = {k: set(rng.sample(range(50), rng.choice([1, 2, 3]))) for k in keys}
        oa = fpgen.obs(a)
        wname, way = rng.choice(ways + [('file', None)] * 6)
        if way is None:
            ext = rng.choice(EXTS_X)
            path = os.path.join(st.ctx.workdir, 'molprop_%d%s' % (i, ext))
            upd = rng.random() < 0.5
            wname = 'save/load %s update_structure=%s' % (ext, upd)
            way = lambda x: (FP.save(path, x), FP.load(path, update_structure=upd))[1]
        r = attempt(lambda: way(a))
        ok = r[0] == 'ok' and fpgen.obs(r[1]) == oa and r[1].mol is not None and Chem.MolToSmiles(r[1].mol) == Chem.MolToSmiles(mol) and \
            r[1].mol.GetNumAtoms() == mol.GetNumAtoms() and r[1].index_id_map == a.index_id_map and sorted(map(str, r[1].props)) == sorted(map(str, a.props))
        direct(st, 'pickle', 'props:mol+index_id_map', ok, 'Mol / index_id_map props lost or changed through %s' % wname, {'a': fpgen.obs_json(oa), 'smiles': smi, 'way': wname,
               'result': (fpgen.obs_json(fpgen.obs(r[1])), str(r[1].index_id_map)[:200]) if r[0] == 'ok' else r[1]}, bool(oa['idx']))


# ------------------------------------------------------------------------------------------------ files: lists, overwriting, foreign writers / readers
def sec_files_x(st):
    import e3fp.fingerprint.fprint as FP
    rng = st.rng
    n = 10000
    for i in range(st.ctx.n(70, 800)):
        n += 1
        ext = EXTS_X[i % len(EXTS_X)]
        path, real, desc = new_path(st, rng, ext, n)
        mode = rng.choice(['multi', 'multi', 'overwrite', 'foreign-writer', 'non-fingerprints', 'long'])
        upd = rng.random() < 0.5
        proto = rng.choice([None, 0, 1, 2, 3, 4, 5])
        kwp = {} if proto is None else {'protocol': proto}
        pl = {'file': desc, 'mode': mode, 'update_structure': upd, 'protocol': proto}
        st.dist['file/ext:' + (ext or '(none)')] = st.dist.get('file/ext:' + (ext or '(none)'), 0) + 1
        if mode in ('multi', 'foreign-writer', 'overwrite'):
            k = rng.choice([1, 2, 3, 7])
            fps = [build_route(st, rng, wide_spec(rng))[0] for _ in range(k)]
            if k >= 2 and rng.random() < 0.4:
                fps[-1] = fps[0]                                         # the same object twice
            if rng.random() < 0.4 and fps[0].bits >= 2 and (fps[0].bits & (fps[0].bits - 1)) == 0:
                fps.append(fps[0].fold(max(1, fps[0].bits // 2)))         # a fingerprint and its fold in one file
            oas = [xobs(a) for a in fps]
            pl['fps'] = [xobs_json(o) for o in oas]
            if mode == 'overwrite':
                other = [build_route(st, rng, wide_spec(rng))[0] for _ in range(rng.choice([1, 5, 12]))]
                r0 = attempt(lambda: FP.savez(path, *other))
                if r0 != ('ok', True):
                    st.prop_fail('file', 'savez returned %r' % (r0,), pl)
                    continue
            if mode == 'foreign-writer':
                with std_open(real, 'wb') as fh:
                    for a in fps:
                        pickle.dump(a, fh, pickle.HIGHEST_PROTOCOL if proto is None else proto)
            else:
                rs = attempt(lambda: FP.savez(path, *fps, **kwp))
                if rs != ('ok', True):
                    st.prop_fail('file', 'savez returned %r' % (rs,), pl)
                    continue
                check_file_bytes(st, real, desc, len(fps), oas, pl)
            r = attempt(lambda: FP.loadz(path, upd) if rng.random() < 0.5 else FP.loadz(path, update_structure=upd))
            objs = r[1] if r[0] == 'ok' else []
            if r[0] == 'ok':
                r = _r(r, lambda l: [xobs(x) for x in l])
                if unobservable(st, 'file', r, pl):
                    continue
            m = 'filez_roundtrip %s %s' % (core.blit(upd), core.listlit([xlit(o) for o in oas]))
            exp = '(Ok %s)' % core.listlit([xlit(o) for o in r[1]]) if r[0] == 'ok' else '(Raises %s)' % r[1]
            st.add('file', 'x-' + mode, 'result_eqb (list_eqb fpx_obs_eqb) (%s) %s' % (m, exp), dict(pl, impl=[xobs_json(o) for o in r[1]] if r[0] == 'ok' else r[1]), m, True)
            if r[0] != 'ok' or len(r[1]) != len(oas) or any(not fpio.same_content(x, y, props=True) for x, y in zip(oas, r[1])):
                st.prop_fail('file', 'savez/loadz did not reproduce the list (%s)' % mode, pl)
            if len(set(id(x) for x in objs)) != len(objs):
                st.prop_fail('file', 'loadz returned the same object at two positions', pl)
            r1 = attempt(lambda: xobs(FP.load(path, update_structure=upd)))
            direct(st, 'file', 'load-of-savez', r[0] == 'ok' and r1 == ('ok', r[1][0]), 'load of a file with several fingerprints is not the first one', dict(pl, load=xobs_json(r1[1]) if r1[0] == 'ok' else r1[1]))
            if [xobs(a) for a in fps] != oas:
                st.prop_fail('file', 'saving changed a fingerprint', pl)
        elif mode == 'non-fingerprints':
            a = build_route(st, rng, wide_spec(rng))[0]
            b = build_route(st, rng, wide_spec(rng))[0]
            others = ['text', 5, None, {'k': (1, 2)}, [1.5], b'raw']
            seq = [a] + rng.sample(others, 2) + [b] + rng.sample(others, 1)
            rs = attempt(lambda: FP.savez(path, *seq, **kwp))
            r = attempt(lambda: FP.loadz(path, update_structure=upd))
            ok = rs == ('ok', True) and r[0] == 'ok' and len(r[1]) == len(seq) and all(
                (xobs(y) == fileobs(x, upd)) if isinstance(x, fpgen.classes()['KBit']) else (type(x) is type(y) and x == y) for x, y in zip(seq, r[1]))
            direct(st, 'file', 'x-non-fingerprints', ok, 'a file holding fingerprints and other pickles is not read back item by item', dict(pl, seq=[str(type(x).__name__) for x in seq],
                   got=[str(type(x).__name__) for x in r[1]] if r[0] == 'ok' else r[1]))
        else:
            # a long stream: many small fingerprints and one large prop (codec block / buffer boundaries)
            k = st.ctx.n(rng.choice([150, 400]), 2000)
            fps = [fpio.build(rand_spec(rng)) for _ in range(k)]
            blob = bytes(bytearray(rng.getrandbits(8) for _ in range(rng.choice([70000, 300000]))))
            fps[rng.randrange(k)].set_prop('blob', blob)
            oas = [xobs(a) for a in fps]
            rs = attempt(lambda: FP.savez(path, *fps, **kwp))
            r = attempt(lambda: [xobs(x) for x in FP.loadz(path, update_structure=upd)])
            exp = [fileobs(a, upd) for a in fps]
            bad = None if (r[0] == 'ok' and r[1] == exp) else (r[1] if r[0] != 'ok' else 'length %d vs %d, first difference at %s' % (len(r[1]), k, next((j for j, (x, y) in enumerate(zip(r[1], exp)) if x != y), None)))
            direct(st, 'file', 'x-long', rs == ('ok', True) and bad is None, 'a long file (%d fingerprints, one %d-byte prop) is not read back: %s' % (k, len(blob), bad), dict(pl, n=k), key=desc + str(i))
            rstd = attempt(lambda: len(std_read_pickles(real)))
            direct(st, 'file', 'stdlib-reader', rstd == ('ok', k), 'the standard library does not find %d pickles in the long file: %r' % (k, rstd), dict(pl, n=k), key='long' + desc + str(i))
    # an empty file of each extension
    for ext in EXTS_X:
        path = os.path.join(st.ctx.workdir, 'empty%s' % ext)
        rs = attempt(lambda: FP.savez(path))
        r = (attempt(lambda: FP.loadz(path)), attempt(lambda: FP.load(path)), attempt(lambda: len(std_read_pickles(path))))
        direct(st, 'file', 'x-empty', rs == ('ok', True) and r == (('ok', []), ('ok', None), ('ok', 0)), 'empty file %s: %r' % (ext, r), {'ext': ext})


def sec_defaults(st):
    """the default value of every optional argument (the other sections pass them)"""
    import e3fp.fingerprint.fprint as FP
    from scipy.sparse import issparse
    rng, C = st.rng, fpgen.classes()
    for i in range(st.ctx.n(30, 300)):
        # load / loadz without update_structure on a fingerprint for which the flag matters (zero / negative counts: outside the
        # property's domain, inside the model's)
        a = fpio.build_signed(rng)
        oa = xobs(a)
        ext = rng.choice(EXTS_X)
        path = os.path.join(st.ctx.workdir, 'default_%d%s' % (i, ext))
        FP.save(path, a)
        which = rng.choice(['load', 'loadz'])
        r = _r(attempt(lambda: FP.load(path) if which == 'load' else FP.loadz(path)[0]), xobs)
        pl = {'a': xobs_json(oa), 'ext': ext, 'call': which + '(path)'}
        if not unobservable(st, 'file', r, pl):
            m = 'file_roundtrip true %s' % xlit(oa)
            st.add('file', 'default-update_structure', 'result_eqb fpx_obs_eqb (%s) %s' % (m, result_lit(r, xlit)), dict(pl, impl=_jr(r, xobs_json)), m, True)
    for i in range(st.ctx.n(40, 400)):
        spec = rand_spec(rng, maxbits=DENSE_MAX)
        a = fpio.build(spec)
        oa = xobs(a)
        kind = spec['kind']
        pl = {'a': xobs_json(oa)}
        if all(v <= COUNT_MAX for _, v in oa['cnt']):
            r = attempt(lambda: a.to_vector())
            ok = r[0] == 'ok' and issparse(r[1]) and r[1].shape == (1, a.bits) and r[1].dtype == fpio.expected_dtype(kind, None) and csr_obs(r[1]) == (a.bits, oa['cnt'])
            direct(st, 'csr', 'defaults:to_vector()', ok, 'to_vector() without arguments is not the sparse vector of the class dtype', pl, bool(oa['idx']))
        r = attempt(lambda: a.to_bitvector())
        ok = r[0] == 'ok' and issparse(r[1]) and r[1].dtype == np.bool_ and csr_obs(r[1]) == (a.bits, [(k, Fraction(1)) for k in oa['idx']])
        direct(st, 'csr', 'defaults:to_bitvector()', ok, 'to_bitvector() without arguments is not the sparse boolean vector', pl, bool(oa['idx']))
        # from_indices / from_counts / constructors without bits, level: 2^32 positions, level -1, no name
        keys = oa['idx']
        want = dict(oa, bits=2 ** 32, level=-1, name=None, props=[])
        calls = [('from_indices(idx)', lambda: C[kind].from_indices(np.array(keys, dtype=np.int64), **({} if kind == 'KBit' else {'counts': dict(a.counts)}))),
                 ('cls(idx)', lambda: C[kind](np.array(keys, dtype=np.int64), **({} if kind == 'KBit' else {'counts': dict(a.counts)})))]
        if kind != 'KBit':
            calls.append(('from_counts(counts)', lambda: C[kind].from_counts(dict(a.counts))))
        for nm, f in calls:
            r = _r(attempt(f), xobs)
            direct(st, 'indices', 'defaults:' + nm, r == ('ok', want), '%s without bits / level is not the 2^32-bit, level -1, unnamed fingerprint of these indices' % nm, dict(pl, result=_jr(r, xobs_json)), bool(keys))


def fileobs(a, upd):
    """what save -> load(update_structure=upd) must observe for a well-formed fingerprint: itself"""
    return xobs(a)


# ------------------------------------------------------------------------------------------------ setters between conversions
def sec_setters(st):
    from props import c10 as base
    rng, C = st.rng, fpgen.classes()
    for i in range(st.ctx.n(60, 700)):
        kind = rng.choice(['KCount', 'KFloat', 'KBit'])
        spec = rand_spec(rng, kind=kind, maxbits=DENSE_MAX if rng.random() < 0.7 else 2 ** 32)
        spec.setdefault('props', {})
        a = fpio.build(spec)
        ops = base._history_ops(rng, C, kind, spec['bits'])
        ops = [o for o in ops if 'database' not in o[0] and 'get_count' not in o[0] and not o[0].startswith('fold(')]   # the fold cache is C07's subject
        import e3fp.fingerprint.fprint as FP

        def file_op(fp, i=i):
            ext = rng.choice(['.fp.gz', '.fp.pkl', '.fp.bz2', '.fp.xz'])
            path = os.path.join(st.ctx.workdir, 'setters_%d%s' % (i, ext))
            FP.save(path, fp)
            o = xobs(FP.load(path, update_structure=False))
            return xobs_json(o), (lambda l, o=o: ('fp_obs_eqb (xfp (pickle_roundtrip (mkfpx %s []))) %s' % (l, lit(o)), 'pickle_roundtrip (mkfpx %s [])' % l))
        ops.append(('save/load', file_op))
        ops.append(('save/load', file_op))
        done = []
        for step in range(rng.choice([3, 4, 6])):
            if rng.random() < 0.45:
                what = rng.choice(['level', 'name', 'prop', 'update_props', 'prop-overwrite'])
                if what == 'level':
                    spec['level'] = rng.choice([l for l in fpio.LEVELS if l != spec['level']])
                    a.level = spec['level']
                elif what == 'name':
                    spec['name'] = rng.choice(['renamed', 'x y z', 'é'])
                    a.name = spec['name']
                elif what == 'prop':
                    k, v = rng.choice(['p', 'new', 'a b']), rng.choice(fpio.PROP_VALUES)
                    spec['props'][k] = v
                    a.set_prop(k, v)
                elif what == 'update_props':
                    d = {rng.choice(['q', 'Zed']): rng.choice(fpio.PROP_VALUES), 'u': step}
                    spec['props'].update(d)
                    a.update_props(d)
                else:
                    if not spec['props']:
                        continue
                    k = rng.choice(sorted(spec['props']))
                    spec['props'][k] = ('changed', step)
                    a.set_prop(k, ('changed', step))
                done.append('set ' + what)
                continue
            name, act = rng.choice(ops)
            done.append(name)
            oa = xobs(a)
            fresh = fpio.build(spec)
            pl = {'a_now': xobs_json(oa), 'sequence_on_one_object': list(done)}
            if xobs(fresh) != oa:
                st.prop_fail('history', 'after the setter calls the object does not observe like a fresh one with the same values', dict(pl, fresh=xobs_json(xobs(fresh))))
                break
            r_hist = attempt(lambda: act(a))
            r_fresh = attempt(lambda: act(fresh))
            h = r_hist[1][0] if r_hist[0] == 'ok' else r_hist[1]
            f = r_fresh[1][0] if r_fresh[0] == 'ok' else r_fresh[1]
            direct(st, 'history', 'setters:' + name.split('(')[0], r_hist[0] == r_fresh[0] and h == f,
                   '%s after %s differs from the same call on a fresh fingerprint with the current values' % (name, done[:-1]), dict(pl, on_used=h, on_fresh=f), bool(oa['idx']), key=(str(oa), tuple(done)))
            if r_hist[0] == 'ok' and r_hist[1][1] is not None:
                expr, mout = r_hist[1][1](lit(oa))
                st.add('history', 'setters-model:' + name.split('(')[0], expr, dict(pl, impl=h if not isinstance(h, str) else h[:200]), mout, bool(oa['idx']), dkey=(str(oa), tuple(done)))
            # name, level and props travel with a pickle made NOW
            rp = _r(attempt(lambda: pickle.loads(pickle.dumps(a, rng.choice([0, 2, 5])))), xobs)
            st.check_rt('history', oa, rp, dict(pl, via='pickle after the setter calls'), props=True)
            if xobs(a) != oa:
                st.prop_fail('history', '%s changed the fingerprint' % name, pl)
                break


# ------------------------------------------------------------------------------------------------ aliasing
def sec_alias(st):
    import e3fp.fingerprint.fprint as FP
    rng, C = st.rng, fpgen.classes()
    for i in range(st.ctx.n(200, 2000)):
        spec = rand_spec(rng, maxbits=DENSE_MAX if rng.random() < 0.7 else 2 ** 32)
        spec.setdefault('props', {})['lst'] = [1, [2]]
        a = fpio.build(spec)
        oa = xobs(a)
        if any(v > COUNT_MAX for _, v in oa['cnt']):
            continue
        cls = C[spec['kind']]
        kw = {'level': a.level}
        if a.name:
            kw['name'] = a.name
        mode = rng.choice(['dense-out', 'csr-out', 'dense-in', 'csr-in', 'indices-in', 'dense-in', 'csr-in', 'indices-in', 'rdkit-out', 'rdkit-in', 'pickle', 'deepcopy', 'file-twice', 'counts-out'])
        if mode in ('dense-out', 'dense-in') and a.bits > DENSE_MAX:
            mode = 'csr' + mode[5:]
        pl = {'a': xobs_json(oa), 'mode': mode}
        ok, why = True, ''
        if mode == 'dense-out':
            v = a.to_vector(sparse=False)
            ref = dense_obs(v)
            v[...] = 1 if v.dtype == np.bool_ else 7
            ok = xobs(a) == oa and dense_obs(a.to_vector(sparse=False)) == ref
            why = 'writing into the vector returned by to_vector(sparse=False) changed the fingerprint or its next vector'
        elif mode == 'csr-out':
            m = a.to_vector(sparse=True)
            ref = csr_obs(m)
            m.data[...] = 1 if m.dtype == np.bool_ else 7
            m.indices[...] = 0
            ok = xobs(a) == oa and csr_obs(a.to_vector(sparse=True)) == ref
            why = 'writing into the matrix returned by to_vector(sparse=True) changed the fingerprint or its next vector'
        elif mode == 'dense-in':
            v = a.to_vector(sparse=False)
            keep = v.copy()
            b = cls.from_vector(v, **kw)
            b2 = cls.from_vector(v, **kw)
            same_in = np.array_equal(v, keep) and v.dtype == keep.dtype
            v[...] = 0
            ok = same_in and fpio.same_content(oa, xobs(b)) and fpio.same_content(oa, xobs(b2)) and b is not b2
            why = 'from_vector changed its input vector, or clearing the input afterwards changed the fingerprint made from it (or two calls gave one object)'
        elif mode == 'csr-in':
            m = a.to_vector(sparse=True)
            if m.nnz >= 2:                                    # as another producer may hand it over: columns in any order
                perm = list(range(m.nnz))
                rng.shuffle(perm)
                m = type(m)((m.data[perm], m.indices[perm], m.indptr), shape=m.shape)
            keep = (m.data.copy(), m.indices.copy(), m.indptr.copy(), m.shape, m.dtype)
            b = cls.from_vector(m, **kw)
            b2 = cls.from_vector(m, **kw)
            same_in = np.array_equal(m.data, keep[0]) and np.array_equal(m.indices, keep[1]) and np.array_equal(m.indptr, keep[2]) and m.shape == keep[3] and m.dtype == keep[4]
            m.data[...] = 0
            m.indices[...] = 0
            ok = same_in and fpio.same_content(oa, xobs(b)) and fpio.same_content(oa, xobs(b2)) and b is not b2
            why = 'from_vector changed its input matrix (data / column order / shape), or clearing the input afterwards changed the fingerprint made from it'
        elif mode == 'indices-in':
            idx = np.array(a.indices)[::-1].copy()
            cnt = dict(a.counts)
            keep = (idx.copy(), list(cnt.items()))
            b = cls.from_indices(idx, bits=a.bits, **dict(kw, **({} if spec['kind'] == 'KBit' else {'counts': cnt})))
            same_in = np.array_equal(idx, keep[0]) and list(cnt.items()) == keep[1]
            idx[...] = 0
            for k in list(cnt):
                cnt[k] = 9
            cnt[-5] = 1
            ok = same_in and fpio.same_content(oa, xobs(b)) and xobs(a) == oa
            if ok and spec['kind'] != 'KBit':
                b2 = cls.from_indices(a.indices, counts=a.counts, bits=a.bits, **kw)
                b2.counts[0] = 3                     # the copy's own dict
                b2.indices[...] = 0
                ok = xobs(a) == oa
            why = 'from_indices changes or keeps a reference to the caller\'s index array / counts dict'
        elif mode == 'rdkit-out':
            r = a.to_rdkit()
            ref = rdk_obs(r)
            if r.GetNumBits() > 0:
                r.SetBit(0)
                r.UnSetBitsFromList([j for j in ref[2] if j != 0][:3])
            ok = xobs(a) == oa and rdk_obs(a.to_rdkit()) == ref
            why = 'changing the RDKit vector returned by to_rdkit changed the fingerprint or its next RDKit vector'
        elif mode == 'rdkit-in':
            r = a.to_rdkit()
            keep = rdk_obs(r)
            b = cls.from_rdkit(r, **kw)
            ob = xobs(b)
            same_in = rdk_obs(r) == keep
            r.UnSetBitsFromList(list(r.GetOnBits()))
            ok = same_in and xobs(b) == ob and xobs(a) == oa
            why = 'clearing the RDKit vector after from_rdkit changed the fingerprint made from it'
        elif mode in ('pickle', 'deepcopy', 'file-twice'):
            if mode == 'pickle':
                b = pickle.loads(pickle.dumps(a, rng.choice([0, 2, 4])))
            elif mode == 'deepcopy':
                b = copy.deepcopy(a)
            else:
                path = os.path.join(st.ctx.workdir, 'alias_%d%s' % (i, rng.choice(EXTS_X)))
                FP.save(path, a)
                upd = rng.random() < 0.5
                b = FP.load(path, update_structure=upd)
                b2 = FP.load(path, update_structure=upd)
                ok = b is not b2 and xobs(b) == xobs(b2)
                b2.set_prop('only-b2', 1)
                ok = ok and 'only-b2' not in b.props
            b.level = 77
            b.name = 'changed copy'
            b.set_prop('extra', 1)
            b.get_prop('lst')[1].append(3)
            b.indices[...] = 0
            if spec['kind'] != 'KBit':
                b.counts[0] = 12345
            ok = ok and xobs(a) == oa
            why = 'changing the %s copy changed the original' % mode
        else:
            c = a.counts
            ref = dict(c)
            ok = {int(k): fpgen.fr(v) for k, v in ref.items()} == dict(oa['cnt'])
            why = 'counts is not the dict the observation shows'
        direct(st, 'alias', mode, ok, why, dict(pl, after=xobs_json(xobs(a))), bool(oa['idx']))


# ------------------------------------------------------------------------------------------------ objects outside the class invariant (model error paths)
def sec_drift(st):
    rng, C = st.rng, fpgen.classes()
    for i in range(st.ctx.n(40, 500)):
        kind = rng.choice(fpgen.KINDS)
        bits = rng.choice([1, 4, 8, 64, 1024])
        spec = rand_spec(rng, kind=kind, bits=bits)
        a = fpio.build(spec)
        keys = [int(k) for k in a.indices]
        mode = rng.choice(['beyond', 'negative', 'far-negative', 'missing-count', 'extra-count'])
        if mode == 'beyond':
            new = sorted(set(keys + [bits + rng.choice([0, 1, 5])]))
        elif mode == 'negative':
            new = sorted(set(keys + [-rng.randrange(1, bits + 1)]))
        elif mode == 'far-negative':
            new = sorted(set(keys + [-bits - rng.choice([1, 2])]))
        else:
            new = sorted(set(keys + [rng.randrange(0, bits)])) if mode == 'missing-count' else keys
        a.indices = np.array(new, dtype=np.int64)
        if kind != 'KBit':
            if mode in ('beyond', 'negative', 'far-negative'):
                a.counts = dict(list(a.counts.items()) + [(k, 2) for k in new if k not in a.counts])
            elif mode == 'extra-count':
                a.counts = dict(list(a.counts.items()) + [(rng.randrange(0, bits), 3)])
        oa = xobs(a)
        pl = {'a': xobs_json(oa), 'drift': mode}
        for sparse in (True, False):
            r = attempt(lambda: a.to_vector(sparse=sparse))
            if sparse:
                if r[0] == 'ok' and sorted(r[1].indices.tolist()) != r[1].indices.tolist():
                    continue
                ro = _r(r, csr_obs)
                m = 'to_csr None %s' % lit(oa)
                expr = 'result_eqb csr_eqb (%s) %s' % (m, result_lit(ro, csr_lit))
            else:
                ro = _r(r, dense_obs)
                m = 'to_dense None %s' % lit(oa)
                expr = 'result_eqb dense_c_eqb (result_map dense_compress (%s)) %s' % (m, result_lit(ro, dense_lit))
            st.add('csr' if sparse else 'dense', 'drifted', expr, dict(pl, impl=str(ro[1])[:300]), m, True)
        r = attempt(lambda: a.to_bitstring())
        m = 'to_bitstring %s' % lit(oa)
        st.add('bitstring', 'drifted', 'result_eqb String.eqb (%s) %s' % (m, result_lit(r, strlit)), dict(pl, impl=r[1][:200]), m, True)


# ------------------------------------------------------------------------------------------------ numpy integers as bits
def sec_numpy_bits(st):
    import e3fp.fingerprint.fprint as FP
    rng, C = st.rng, fpgen.classes()
    for i in range(st.ctx.n(24, 200)):
        spec = rand_spec(rng, maxbits=4096, unit=True)
        npt = rng.choice([np.int64, np.int32, np.uint32, np.uint64, np.intp])
        kind = spec['kind']
        keys = spec['idx'] if kind == 'KBit' else sorted(spec['cnt'])
        a = C[kind].from_indices(np.array(keys, dtype=np.int64), bits=npt(spec['bits']), level=spec['level'])
        oa = xobs(a)
        pl = {'a': xobs_json(oa), 'bits_type': npt.__name__}
        kw = {'level': a.level}
        trips = [('csr', lambda: C[kind].from_vector(a.to_vector(sparse=True), **kw)), ('dense', lambda: C[kind].from_vector(a.to_vector(sparse=False), **kw)),
                 ('bitstring', lambda: C[kind].from_bitstring(a.to_bitstring(), **kw)), ('pickle', lambda: pickle.loads(pickle.dumps(a))),
                 ('indices', lambda: C[kind].from_indices(a.indices, bits=a.bits, **kw))]
        trips.append(('rdkit', lambda: C[kind].from_rdkit(a.to_rdkit(), **kw)))
        for rep, f in trips:
            r = _r(attempt(f), xobs)
            st.dist[rep + '/numpy-bits'] = st.dist.get(rep + '/numpy-bits', 0) + 1
            st.ctx.count((rep, 'numpy-bits', str(pl)), bool(oa['idx']))
            if r[0] == 'ok' and fpio.same_content(oa, r[1]):
                continue
            if r[0] == 'err':
                # repaired by fix: 6635928 (bits stored as a Python int): a raise on ANY of the six routes is a failure again
                st.prop_fail(rep, 'the %s round trip raises when `bits` is a numpy integer' % rep, dict(pl, result=r[1]))
            else:
                st.prop_fail(rep, 'round trip of a fingerprint whose bits is a numpy integer gives another fingerprint', dict(pl, result=_jr(r, xobs_json)))


SECTIONS = [sec_wide, sec_kwargs, sec_dtypes, sec_vec_inputs, sec_pickle_x, sec_files_x, sec_setters, sec_alias, sec_drift, sec_numpy_bits, sec_defaults]
