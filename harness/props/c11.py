"""C11 - fingerprint operators implement set algebra and pointwise arithmetic (model M2, Properties/C11.v)."""
import itertools
import json
from fractions import Fraction
import core
import fpgen
from fpgen import obs, lit, attempt, result_lit, build

IMPORTS = ['From Coq Require Import QArith.', 'From E3FP Require Import Base.Prelude Base.ZSet Model.Fprint.']
TOL = '(Qmake 1 1000000000)'
KEY_RDIV = 'C11:reflected-scalar-division'

BIT_OPS = {  # name -> (python action on (a, b), model function)
    'or': (lambda a, b: a | b, 'fp_or'), 'and': (lambda a, b: a & b, 'fp_and'), 'xor': (lambda a, b: a ^ b, 'fp_xor'),
    'add': (lambda a, b: a + b, 'fp_add'), 'sub': (lambda a, b: a - b, 'fp_sub'),
    # reflected forms of the commutative operators, called the way Python would call them: b.__rop__(a) for a op b
    'ror': (lambda a, b: b.__ror__(a), 'fp_or'), 'rand': (lambda a, b: b.__rand__(a), 'fp_and'),
    'rxor': (lambda a, b: b.__rxor__(a), 'fp_xor'), 'radd': (lambda a, b: b.__radd__(a), 'fp_add'),
}


def _iop(sym):
    def f(a, b):
        ns = {'c': a, 'b': b}
        exec('c %s= b' % sym, ns)
        return ns['c']
    return f


def _iscalar(a, sym, x):
    ns = {'c': a, 'x': x}
    exec('c %s= x' % sym, ns)
    return ns['c']


for _n, _s, _m in (('ior', '|', 'fp_or'), ('iand', '&', 'fp_and'), ('ixor', '^', 'fp_xor'), ('iadd', '+', 'fp_add'), ('isub', '-', 'fp_sub')):
    BIT_OPS[_n] = (_iop(_s), _m)

REFLECTED = {'ror', 'rand', 'rxor', 'radd'}
SCALAR_FORMS = ('mul', 'rmul', 'imul', 'div', 'idiv', 'floordiv', 'ifloordiv')


def _obs_result(r, none_ok=False):
    """('ok', obj) -> ('ok', observation); a result that cannot be observed exactly (nan / inf counts) -> ('bad', text)."""
    if r[0] != 'ok':
        return r
    if none_ok and r[1] is None:
        return ('ok', None)
    try:
        return ('ok', obs(r[1]))
    except (ValueError, OverflowError) as e:
        return ('bad', 'result has non-finite counts: %r (%s)' % (dict(r[1].counts), e))


class Runner(object):
    """Builds the cases (implementation run now, model comparison deferred to `compare`).  Every payload carries a
    `replay` entry from which `replay()` re-runs exactly that case."""

    def __init__(self, ctx):
        self.ctx = ctx
        self.cases, self.payloads, self.mexpr = [], {}, {}
        self.found_input = False
        self.dist = {'bit_pairs_exhaustive': 0, 'sampled_pairs': 0, 'scalar': 0, 'scalar_zero': 0, 'reflected_scalar_division': 0,
                     'batch': 0, 'batch_mixed_length': 0, 'batch_bad_weights': 0, 'negative_positions': 0,
                     'errors_expected': 0, 'by_kind': {}}

    def add_case(self, key, expr, payload, model_out):
        self.cases.append((key, expr))
        self.payloads[key] = payload
        self.mexpr[key] = model_out

    def fail(self, what, payload, key):
        self.found_input = True
        self.ctx.fail(what, payload, finding_key=key)

    # -- a op b in one of the 14 forms
    def binop(self, tag, sa, sb, opname):
        ctx, dist = self.ctx, self.dist
        rp = {'type': 'binop', 'tag': tag, 'sa': fpgen.spec_to_json(sa), 'sb': fpgen.spec_to_json(sb), 'opname': opname}
        pyf, mf = BIT_OPS[opname]
        a, b = build(sa), build(sb)
        oa, ob = obs(a), obs(b)
        r = _obs_result(attempt(lambda: pyf(a, b)))
        if r[0] == 'bad':
            return self.fail('operator %s: %s' % (opname, r[1]), {'op': opname, 'a': fpgen.obs_json(obs(a)), 'b': fpgen.obs_json(obs(b)), 'replay': rp}, 'op:' + opname)
        # operands unchanged (part of the property, decided on the implementation directly)
        if obs(a) != oa or obs(b) != ob:
            self.fail('operand changed by operator %s' % opname, {'a': fpgen.obs_json(oa), 'b': fpgen.obs_json(ob), 'op': opname,
                      'a_after': fpgen.obs_json(obs(a)), 'b_after': fpgen.obs_json(obs(b)), 'replay': rp}, 'operand-mutated:' + opname)
        la, lb = lit(oa), lit(ob)
        m = '%s %s %s' % (mf, lb, la) if opname in REFLECTED else '%s %s %s' % (mf, la, lb)
        floaty = r[0] == 'ok' and r[1]['kind'] == 'KFloat'
        cmp_ = 'fp_obs_close %s' % TOL if floaty else 'fp_obs_eqb'
        key = '%s/%s/%d' % (tag, opname, len(self.cases))
        self.add_case(key, 'result_eqb (%s) (%s) %s' % (cmp_, m, result_lit(r)),
                      {'op': opname, 'a': fpgen.obs_json(oa), 'b': fpgen.obs_json(ob),
                       'impl': fpgen.obs_json(r[1]) if r[0] == 'ok' else r[1], 'replay': rp}, m)
        nontriv = bool(oa['idx']) and bool(ob['idx']) and oa['idx'] != ob['idx']
        ctx.count((opname, oa['kind'], ob['kind'], oa['bits'], tuple(oa['idx']), tuple(ob['idx']), str(oa['cnt']), str(ob['cnt'])), nontriv)
        dist['by_kind'][oa['kind'] + '/' + ob['kind']] = dist['by_kind'].get(oa['kind'] + '/' + ob['kind'], 0) + 1
        if r[0] == 'err':
            dist['errors_expected'] += 1
        return r

    # -- a * x, x * a, a / x, a // x and their in-place forms
    def scalar(self, sa, x, form):
        ctx = self.ctx
        rp = {'type': 'scalar', 'sa': fpgen.spec_to_json(sa), 'x': x, 'form': form}
        a = build(sa)
        oa = obs(a)
        act = {'mul': lambda: a * x, 'rmul': lambda: x * a, 'div': lambda: a / x, 'floordiv': lambda: a // x,
               'imul': lambda: _iscalar(a, '*', x), 'idiv': lambda: _iscalar(a, '/', x), 'ifloordiv': lambda: _iscalar(a, '//', x)}[form]
        r = _obs_result(attempt(act))
        if r[0] == 'bad':
            return self.fail('scalar operator %s: %s' % (form, r[1]), {'op': form, 'a': fpgen.obs_json(oa), 'x': x, 'replay': rp}, 'op:' + form)
        if obs(a) != oa:
            self.fail('operand changed by scalar operator %s' % form, {'a': fpgen.obs_json(oa), 'x': x, 'op': form, 'replay': rp},
                      'operand-mutated:' + form)
        mf = 'fp_mul' if 'mul' in form else 'fp_floordiv' if 'floordiv' in form else 'fp_div'
        m = '%s %s (inject_Z %s)' % (mf, lit(oa), core.zlit(x))
        key = 'sc/%s/%d' % (form, len(self.cases))
        self.add_case(key, 'result_eqb (fp_obs_close %s) (%s) %s' % (TOL, m, result_lit(r)),
                      {'op': form, 'a': fpgen.obs_json(oa), 'x': x, 'impl': fpgen.obs_json(r[1]) if r[0] == 'ok' else r[1], 'replay': rp}, m)
        ctx.count((form, x, str(oa)), bool(oa['idx']) and x > 1)
        self.dist['scalar'] += 1
        self.dist['scalar_zero'] += (x == 0)
        if r[0] == 'err':
            self.dist['errors_expected'] += 1

    # -- x / a and x // a: Python calls __rtruediv__ / __rfloordiv__, which the code implements as a / x and a // x.
    #    Decided on the implementation alone: a result is acceptable only if it is the pointwise x / count (x // count)
    #    on a's positions; raising TypeError (no such operation) is acceptable as well.
    def rscalar(self, sa, x, form):
        rp = {'type': 'rscalar', 'sa': fpgen.spec_to_json(sa), 'x': x, 'form': form}
        a = build(sa)
        oa = obs(a)
        r = attempt((lambda: x / a) if form == 'rdiv' else (lambda: x // a))
        self.dist['reflected_scalar_division'] += 1
        cnt = dict(oa['cnt'])
        self.ctx.count((form, x, str(oa)), bool(cnt))
        if obs(a) != oa:
            self.fail('operand changed by reflected scalar operator %s' % form, {'a': fpgen.obs_json(oa), 'x': x, 'op': form, 'replay': rp},
                      'operand-mutated:' + form)
        if r[0] != 'ok':
            return
        got = dict(obs(r[1])['cnt'])
        if form == 'rdiv':
            want = {k: Fraction(x) / c for k, c in cnt.items() if c != 0}
            bad = any(abs(got.get(k, 0) - w) > Fraction(1, 10 ** 9) * max(1, abs(w)) for k, w in want.items())
        else:
            want = {k: Fraction(x) // c for k, c in cnt.items() if c != 0}
            bad = any(got.get(k, 0) != w for k, w in want.items())
        if bad:
            self.fail('%s returned a %s x (every count divided BY the scalar), not the scalar divided by the counts'
                      % ('x / a' if form == 'rdiv' else 'x // a', '/' if form == 'rdiv' else '//'),
                      {'a': fpgen.obs_json(oa), 'x': x, 'op': form, 'impl': fpgen.obs_json(obs(r[1])),
                       'pointwise_x_over_count': [[k, str(v)] for k, v in sorted(want.items())], 'replay': rp}, KEY_RDIV)

    # -- add(fprints, weights) / mean(fprints, weights)
    def batch(self, specs, ws, which):
        import e3fp.fingerprint.fprint as FP
        rp = {'type': 'batch', 'specs': [fpgen.spec_to_json(s) for s in specs], 'ws': None if ws is None else [str(w) for w in ws], 'which': which}
        fps = [build(s) for s in specs]
        obss = [obs(f) for f in fps]
        fws = None if ws is None else [float(w) for w in ws]
        r = _obs_result(attempt(lambda: (FP.add if which == 'add' else FP.mean)(fps, weights=fws)), none_ok=True)
        if r[0] == 'bad':
            return self.fail('batch %s: %s' % (which, r[1]), {'op': 'batch_' + which, 'fps': [fpgen.obs_json(o) for o in obss],
                             'weights': None if ws is None else [str(w) for w in ws], 'replay': rp}, 'op:batch_' + which)
        if [obs(f) for f in fps] != obss:
            self.fail('operand changed by batch %s' % which, {'fps': [fpgen.obs_json(o) for o in obss], 'replay': rp}, 'operand-mutated:batch')
        wl = 'None' if ws is None else '(Some %s)' % core.listlit([core.qlit(w) for w in ws])
        m = 'batch_%s %s %s' % (which, core.listlit([lit(o) for o in obss]), wl)
        exp = '(Raises %s)' % r[1] if r[0] == 'err' else '(Ok None)' if r[1] is None else '(Ok (Some %s))' % lit(r[1])
        key = 'b/%s/%d' % (which, len(self.cases))
        self.add_case(key, 'result_eqb (option_eqb (fp_obs_close %s)) (%s) %s' % (TOL, m, exp),
                      {'op': 'batch_' + which, 'fps': [fpgen.obs_json(o) for o in obss], 'weights': None if ws is None else [str(w) for w in ws],
                       'impl': (fpgen.obs_json(r[1]) if r[1] is not None else None) if r[0] == 'ok' else r[1], 'replay': rp}, m)
        self.ctx.count((which, str(obss), str(ws)), len(specs) > 1 and any(o['idx'] for o in obss))
        self.dist['batch'] += 1
        if r[0] == 'err':
            self.dist['errors_expected'] += 1

    def compare(self):
        nbad = core.compare_cases(self.ctx, self.cases, IMPORTS, 'C11 operators', self.payloads, model_expr=self.mexpr,
                                  finding_key_of=lambda k, pl: 'op:%s' % pl.get('op'))
        self.found_input = self.found_input or nbad > 0
        return nbad


def run(ctx):
    ok, res = core.proof_step(ctx)
    rng = ctx.rng
    R = Runner(ctx)
    dist = R.dist

    # 1. exhaustive: all pairs of subsets for small lengths, every operator form
    for bits in ctx.n([1, 2, 3], [1, 2, 3, 4]):
        subsets = [[i for i in range(bits) if (m >> i) & 1] for m in range(2 ** bits)]
        for sa, sb in itertools.product(subsets, subsets):
            for opname in BIT_OPS:
                R.binop('ex%d' % bits, {'kind': 'KBit', 'bits': bits, 'idx': sa}, {'kind': 'KBit', 'bits': bits, 'idx': sb}, opname)
                dist['bit_pairs_exhaustive'] += 1
    # 2. sampled pairs of every kind up to 2^32 (same kind and count/float mixes; a few length mismatches)
    for i in range(ctx.n(250, 4000)):
        kind = rng.choice(fpgen.KINDS)
        sa = fpgen.rand_spec(rng, kind=kind)
        kb = kind if rng.random() < 0.8 or kind == 'KBit' else rng.choice(['KCount', 'KFloat'])
        bits_b = sa['bits'] if rng.random() < 0.9 else rng.choice([b for b in (8, 16, 1024, 2 ** 32) if b != sa['bits']])
        sb = fpgen.rand_spec(rng, kind=kb, bits=bits_b, like=sa)
        ops = list(BIT_OPS) if kind == 'KBit' else ['add', 'sub', 'iadd', 'isub', 'radd', 'or', 'and', 'xor']
        for opname in rng.sample(ops, 3):
            R.binop('s', sa, sb, opname)
            dist['sampled_pairs'] += 1
    # 3. scalar * / // on count and float fingerprints: positive integer scalars (the property's domain), plus 0 for / and //
    #    (division by zero raises only if there is a count to divide), and the reflected divisions x / a, x // a
    for i in range(ctx.n(190, 3000)):
        kind = rng.choice(['KCount', 'KFloat'])
        sa = fpgen.rand_spec(rng, kind=kind)
        form = rng.choice(SCALAR_FORMS)
        x = rng.choice([1, 2, 3, 4, 7, 10, 250] + ([0, 0] if 'div' in form else [0]))
        R.scalar(sa, x, form)
        if i % 4 == 0:
            R.rscalar(sa, rng.choice([2, 3, 10]), rng.choice(['rdiv', 'rfloordiv']))
    # 4. batch sum and (weighted) mean, including members of different lengths, wrong numbers of weights, zero weight sums
    for i in range(ctx.n(200, 3000)):
        n = rng.choice([1, 2, 2, 3, 4, 6]) if rng.random() < 0.97 else 0
        bits = rng.choice([4, 8, 16, 1024, 2 ** 32])
        kinds = [rng.choice(fpgen.KINDS) for _ in range(n)] if rng.random() < 0.5 else [rng.choice(fpgen.KINDS)] * n
        specs = []
        for k in kinds:
            specs.append(fpgen.rand_spec(rng, kind=k, bits=bits, like=specs[0] if specs else None))
        if n >= 2 and rng.random() < 0.15:
            j = rng.randrange(n)         # one member of another length (position 0 included: it defines the reference length)
            specs[j] = fpgen.rand_spec(rng, kind=kinds[j], bits=rng.choice([b for b in (8, 16, 64, 2 ** 32) if b != bits]))
            dist['batch_mixed_length'] += 1
        weighted = rng.random() < 0.5
        ws = [Fraction(rng.choice([1, 1, 2, 3, 5]), rng.choice([1, 2, 4])) for _ in range(n)] if weighted else None
        if weighted and rng.random() < 0.2:
            mode = rng.choice(['short', 'long', 'zero-sum', 'all-zero'])
            if mode == 'short':
                ws = ws[:-1]
            elif mode == 'long':
                ws = ws + [Fraction(1)]
            elif mode == 'zero-sum' and n >= 2:
                ws = ws[:n - 1] + [-sum(ws[:n - 1])]
            else:
                ws = [Fraction(0)] * n
            dist['batch_bad_weights'] += 1
        R.batch(specs, ws, rng.choice(['add', 'mean']))
    # 5. negative positions: the constructors do not reject them (only positions >= length), so the operators and the
    #    totality theorem (wf_idx bounds positions from above only) must cope with them
    pool = [-9, -3, -1, 0, 2, 7]
    for i in range(ctx.n(40, 400)):
        kind = rng.choice(fpgen.KINDS)
        specs = []
        for _ in range(2):
            idx = sorted(rng.sample(pool, rng.choice([1, 2, 3, 4])))
            sp = {'kind': kind, 'bits': 8, 'level': rng.choice([-1, 2])}
            if kind == 'KBit':
                sp['idx'] = idx
            else:
                sp['cnt'] = {j: rng.choice([1, 2, 5]) for j in idx}
            specs.append(sp)
        ops = list(BIT_OPS) if kind == 'KBit' else ['add', 'sub', 'iadd', 'isub', 'radd']
        for opname in rng.sample(ops, 2):
            R.binop('neg', specs[0], specs[1], opname)
            dist['negative_positions'] += 1

    cases, payloads = R.cases, R.payloads
    for k in cases[:3] + cases[len(cases) // 2:len(cases) // 2 + 2] + cases[-2:]:
        pl = {kk: v for kk, v in payloads[k[0]].items() if kk != 'replay'}
        ctx.sample({'case': k[0], 'input_and_implementation_result': pl, 'model_check': k[1][:400]})
    R.compare()
    ctx.coverage['rule'] = ('every pair of subsets for bits<=%d x %d operator forms (plain, reflected-commutative, in-place), plus seeded random pairs of '
                            'every kind up to 2^32 bits, scalar * / // with positive integers (and 0 for / and //), x / a and x // a on the implementation, '
                            'batch add/mean with and without weights incl. members of different lengths, wrong numbers of weights and zero weight sums; '
                            'a case is non-trivial when both operands are non-empty and differ (scalar: x>1; batch: >=2 members); distinct by full input'
                            % (ctx.n(3, 4), len(BIT_OPS)))
    ctx.coverage['input_distribution'] = dist
    ctx.assumptions += ['NumPy set routines (union1d/intersect1d/setdiff1d/setxor1d/unique) and dict arithmetic behave as modelled; exercised by the correspondence only',
                        '__rsub__ is not exercised: with two fingerprint operands Python never calls it (the plain method never returns NotImplemented)',
                        'x / a and x // a (reflected scalar division) are reachable and implemented as a / x and a // x: checked on the implementation against '
                        'the pointwise reading and reported under the finding key %s; x * a is checked against the model (fp_mul)' % KEY_RDIV]
    if not ok:
        core.report_broken_proof(ctx, res, R.found_input)


def replay(ctx, path):
    """Re-run the recorded case on both sides; exit 1 with a VIOLATION line if it still fails."""
    d = json.load(open(path))
    case = d.get('case', {})
    rp = case.get('replay') if isinstance(case, dict) else None
    print('replaying %s: %s' % (path, d.get('what', '')[:200]))
    if rp is None:
        ok, res = core.proof_step(ctx)
        if not ok:
            core.report_broken_proof(ctx, res, False)
        return fpgen.finish_replay(ctx, path, 'proof obligations of Properties/C11.v re-checked')
    R = Runner(ctx)
    sj = fpgen.spec_from_json
    if rp['type'] == 'binop':
        R.binop(rp['tag'], sj(rp['sa']), sj(rp['sb']), rp['opname'])
    elif rp['type'] == 'scalar':
        R.scalar(sj(rp['sa']), rp['x'], rp['form'])
    elif rp['type'] == 'rscalar':
        R.rscalar(sj(rp['sa']), rp['x'], rp['form'])
    elif rp['type'] == 'batch':
        R.batch([sj(s) for s in rp['specs']], None if rp['ws'] is None else [Fraction(w) for w in rp['ws']], rp['which'])
    else:
        print('unknown replay type %r' % rp['type'])
        return 2
    if R.cases:
        R.compare()
    return fpgen.finish_replay(ctx, path, 'case %s' % rp['type'])
