"""C11 - fingerprint operators implement set algebra and pointwise arithmetic (model M2, Properties/C11.v)."""
import itertools
from fractions import Fraction
import core
import fpgen
from fpgen import obs, lit, attempt, result_lit, build

IMPORTS = ['From Coq Require Import QArith.', 'From E3FP Require Import Base.Prelude Base.ZSet Model.Fprint.']
TOL = '(Qmake 1 1000000000)'

BIT_OPS = {  # name -> (python action on (a, b), model function)
    'or': (lambda a, b: a | b, 'fp_or'), 'and': (lambda a, b: a & b, 'fp_and'), 'xor': (lambda a, b: a ^ b, 'fp_xor'),
    'add': (lambda a, b: a + b, 'fp_add'), 'sub': (lambda a, b: a - b, 'fp_sub'),
    # reflected forms of the commutative operators, called the way Python would call them: b.__rop__(a) for a op b
    'ror': (lambda a, b: b.__ror__(a), 'fp_or'), 'rand': (lambda a, b: b.__rand__(a), 'fp_and'),
    'rxor': (lambda a, b: b.__rxor__(a), 'fp_xor'), 'radd': (lambda a, b: b.__radd__(a), 'fp_add'),
}


def _iop(sym):
    def f(a, b):
        ns = {'c': a, 'b': b}
        exec('c %s= b' % sym, ns)
        return ns['c']
    return f


for _n, _s, _m in (('ior', '|', 'fp_or'), ('iand', '&', 'fp_and'), ('ixor', '^', 'fp_xor'), ('iadd', '+', 'fp_add'), ('isub', '-', 'fp_sub')):
    BIT_OPS[_n] = (_iop(_s), _m)

REFLECTED = {'ror', 'rand', 'rxor', 'radd'}


def run(ctx):
    ok, res = core.proof_step(ctx)
    cases, payloads, mexpr = [], {}, {}
    rng = ctx.rng
    found_input = False
    dist = {'bit_pairs_exhaustive': 0, 'sampled_pairs': 0, 'scalar': 0, 'batch': 0, 'errors_expected': 0, 'by_kind': {}}

    def add_case(key, expr, payload, model_out):
        cases.append((key, expr))
        payloads[key] = payload
        mexpr[key] = model_out

    def binop_case(tag, sa, sb, opname):
        nonlocal found_input
        pyf, mf = BIT_OPS[opname]
        a, b = build(sa), build(sb)
        oa, ob = obs(a), obs(b)
        r = attempt(lambda: pyf(a, b))
        if r[0] == 'ok':
            r = ('ok', obs(r[1]))
        # operands unchanged (part of the property, decided on the implementation directly)
        if obs(a) != oa or obs(b) != ob:
            found_input = True
            ctx.fail('operand changed by operator %s' % opname, {'a': fpgen.obs_json(oa), 'b': fpgen.obs_json(ob), 'op': opname,
                     'a_after': fpgen.obs_json(obs(a)), 'b_after': fpgen.obs_json(obs(b))}, finding_key='operand-mutated:' + opname)
        la, lb = lit(oa), lit(ob)
        m = '%s %s %s' % (mf, lb, la) if opname in REFLECTED else '%s %s %s' % (mf, la, lb)
        floaty = r[0] == 'ok' and r[1]['kind'] == 'KFloat'
        cmp_ = 'fp_obs_close %s' % TOL if floaty else 'fp_obs_eqb'
        key = '%s/%s/%d' % (tag, opname, len(cases))
        add_case(key, 'result_eqb (%s) (%s) %s' % (cmp_, m, result_lit(r)),
                 {'op': opname, 'a': fpgen.obs_json(oa), 'b': fpgen.obs_json(ob),
                  'impl': fpgen.obs_json(r[1]) if r[0] == 'ok' else r[1]}, m)
        nontriv = bool(oa['idx']) and bool(ob['idx']) and oa['idx'] != ob['idx']
        ctx.count((opname, oa['kind'], ob['kind'], oa['bits'], tuple(oa['idx']), tuple(ob['idx']), str(oa['cnt']), str(ob['cnt'])), nontriv)
        dist['by_kind'][oa['kind'] + '/' + ob['kind']] = dist['by_kind'].get(oa['kind'] + '/' + ob['kind'], 0) + 1
        if r[0] == 'err':
            dist['errors_expected'] += 1
        return r

    # 1. exhaustive: all pairs of subsets for small lengths, every operator form
    for bits in ctx.n([1, 2, 3], [1, 2, 3, 4]):
        subsets = [[i for i in range(bits) if (m >> i) & 1] for m in range(2 ** bits)]
        for sa, sb in itertools.product(subsets, subsets):
            for opname in BIT_OPS:
                binop_case('ex%d' % bits, {'kind': 'KBit', 'bits': bits, 'idx': sa}, {'kind': 'KBit', 'bits': bits, 'idx': sb}, opname)
                dist['bit_pairs_exhaustive'] += 1
    # 2. sampled pairs of every kind up to 2^32 (same kind and count/float mixes; a few length mismatches)
    for i in range(ctx.n(250, 4000)):
        kind = rng.choice(fpgen.KINDS)
        sa = fpgen.rand_spec(rng, kind=kind)
        kb = kind if rng.random() < 0.8 or kind == 'KBit' else rng.choice(['KCount', 'KFloat'])
        bits_b = sa['bits'] if rng.random() < 0.9 else rng.choice([b for b in (8, 16, 1024, 2 ** 32) if b != sa['bits']])
        sb = fpgen.rand_spec(rng, kind=kb, bits=bits_b, like=sa)
        ops = list(BIT_OPS) if kind == 'KBit' else ['add', 'sub', 'iadd', 'isub', 'radd', 'or', 'and', 'xor']
        for opname in rng.sample(ops, 3):
            binop_case('s', sa, sb, opname)
            dist['sampled_pairs'] += 1
    # 3. scalar * / // on count and float fingerprints, positive integer scalars
    for i in range(ctx.n(150, 2500)):
        kind = rng.choice(['KCount', 'KFloat'])
        sa = fpgen.rand_spec(rng, kind=kind)
        x = rng.choice([1, 2, 3, 4, 7, 10, 250])
        a = build(sa)
        oa = obs(a)
        form = rng.choice(['mul', 'rmul', 'imul', 'div', 'idiv', 'floordiv', 'ifloordiv'])
        act = {'mul': lambda: a * x, 'rmul': lambda: x * a, 'div': lambda: a / x, 'floordiv': lambda: a // x,
               'imul': lambda: _iscalar(a, '*', x), 'idiv': lambda: _iscalar(a, '/', x), 'ifloordiv': lambda: _iscalar(a, '//', x)}[form]
        r = attempt(act)
        if r[0] == 'ok':
            r = ('ok', obs(r[1]))
        if obs(a) != oa:
            found_input = True
            ctx.fail('operand changed by scalar operator %s' % form, {'a': fpgen.obs_json(oa), 'x': x, 'op': form}, finding_key='operand-mutated:' + form)
        mf = 'fp_mul' if 'mul' in form else 'fp_floordiv' if 'floordiv' in form else 'fp_div'
        m = '%s %s (inject_Z %d)' % (mf, lit(oa), x)
        key = 'sc/%s/%d' % (form, len(cases))
        add_case(key, 'result_eqb (fp_obs_close %s) (%s) %s' % (TOL, m, result_lit(r)),
                 {'op': form, 'a': fpgen.obs_json(oa), 'x': x, 'impl': fpgen.obs_json(r[1]) if r[0] == 'ok' else r[1]}, m)
        ctx.count((form, x, str(oa)), bool(oa['idx']) and x > 1)
        dist['scalar'] += 1
    # 4. batch sum and (weighted) mean
    import e3fp.fingerprint.fprint as FP
    for i in range(ctx.n(150, 2500)):
        n = rng.choice([1, 2, 2, 3, 4, 6])
        bits = rng.choice([4, 8, 16, 1024, 2 ** 32])
        kinds = [rng.choice(fpgen.KINDS) for _ in range(n)] if rng.random() < 0.5 else [rng.choice(fpgen.KINDS)] * n
        specs = []
        for k in kinds:
            specs.append(fpgen.rand_spec(rng, kind=k, bits=bits, like=specs[0] if specs else None))
        fps = [build(s) for s in specs]
        obss = [obs(f) for f in fps]
        weighted = rng.random() < 0.5
        ws = [Fraction(rng.choice([1, 1, 2, 3, 5]), rng.choice([1, 2, 4])) for _ in range(n)] if weighted else None
        which = rng.choice(['add', 'mean'])
        fws = None if ws is None else [float(w) for w in ws]
        r = attempt(lambda: (FP.add if which == 'add' else FP.mean)(fps, weights=fws))
        if r[0] == 'ok':
            r = ('ok', None if r[1] is None else obs(r[1]))
        if [obs(f) for f in fps] != obss:
            found_input = True
            ctx.fail('operand changed by batch %s' % which, {'fps': [fpgen.obs_json(o) for o in obss]}, finding_key='operand-mutated:batch')
        wl = 'None' if ws is None else '(Some %s)' % core.listlit([core.qlit(w) for w in ws])
        m = 'batch_%s %s %s' % (which, core.listlit([lit(o) for o in obss]), wl)
        exp = '(Raises %s)' % r[1] if r[0] == 'err' else '(Ok None)' if r[1] is None else '(Ok (Some %s))' % lit(r[1])
        key = 'b/%s/%d' % (which, len(cases))
        add_case(key, 'result_eqb (option_eqb (fp_obs_close %s)) (%s) %s' % (TOL, m, exp),
                 {'op': 'batch_' + which, 'fps': [fpgen.obs_json(o) for o in obss], 'weights': None if ws is None else [str(w) for w in ws],
                  'impl': (fpgen.obs_json(r[1]) if r[1] is not None else None) if r[0] == 'ok' else r[1]}, m)
        ctx.count((which, str(obss), str(ws)), n > 1 and any(o['idx'] for o in obss))
        dist['batch'] += 1

    # 5. negative positions: the constructors do not reject them (only positions >= length), so the operators and the
    #    totality theorem (wf_idx bounds positions from above only) must cope with them
    pool = [-9, -3, -1, 0, 2, 7]
    dist['negative_positions'] = 0
    for i in range(ctx.n(40, 400)):
        kind = rng.choice(fpgen.KINDS)
        specs = []
        for _ in range(2):
            idx = sorted(rng.sample(pool, rng.choice([1, 2, 3, 4])))
            sp = {'kind': kind, 'bits': 8, 'level': rng.choice([-1, 2])}
            if kind == 'KBit':
                sp['idx'] = idx
            else:
                sp['cnt'] = {j: rng.choice([1, 2, 5]) for j in idx}
            specs.append(sp)
        ops = list(BIT_OPS) if kind == 'KBit' else ['add', 'sub', 'iadd', 'isub', 'radd']
        for opname in rng.sample(ops, 2):
            binop_case('neg', specs[0], specs[1], opname)
            dist['negative_positions'] += 1

    for k in cases[:3] + cases[len(cases) // 2:len(cases) // 2 + 2] + cases[-2:]:
        ctx.sample({'case': k[0], 'input_and_implementation_result': payloads[k[0]], 'model_check': k[1][:400]})
    nbad = core.compare_cases(ctx, cases, IMPORTS, 'C11 operators', payloads, model_expr=mexpr,
                              finding_key_of=lambda k, pl: 'op:%s' % pl.get('op'))
    found_input = found_input or nbad > 0
    ctx.coverage['rule'] = ('every pair of subsets for bits<=%d x %d operator forms (plain, reflected-commutative, in-place), plus seeded random pairs of '
                            'every kind up to 2^32 bits, scalar * / // with positive integers, batch add/mean with and without weights; a case is '
                            'non-trivial when both operands are non-empty and differ (scalar: x>1; batch: >=2 members); distinct by full input' % (ctx.n(3, 4), len(BIT_OPS)))
    ctx.coverage['input_distribution'] = dist
    ctx.assumptions += ['NumPy set routines (union1d/intersect1d/setdiff1d/setxor1d/unique) and dict arithmetic behave as modelled; exercised by the correspondence only',
                        '__rsub__ and reflected scalar division are not exercised: with two fingerprint operands Python never calls them (the plain method never returns NotImplemented)']
    if not ok:
        core.report_broken_proof(ctx, res, found_input)


def _iscalar(a, sym, x):
    ns = {'c': a, 'x': x}
    exec('c %s= x' % sym, ns)
    return ns['c']


def replay(ctx, path):
    import json
    d = json.load(open(path))
    print(json.dumps(d, indent=1)[:4000])
    return 0
