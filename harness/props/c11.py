"""C11 - fingerprint operators implement set algebra and pointwise arithmetic (model M2, Properties/C11.v)."""
import itertools
import json
from fractions import Fraction
import numpy as np
import core
import fpgen
from fpgen import obs, lit, attempt, result_lit
from props import c11_cov

IMPORTS = ['From Coq Require Import QArith.', 'From E3FP Require Import Base.Prelude Base.ZSet Model.Fprint.']
TOL = '(Qmake 1 1000000000)'
KEY_RDIV = 'C11:reflected-scalar-division'

BIT_OPS = {  # name -> (python action on (a, b), model function)
    'or': (lambda a, b: a | b, 'fp_or'), 'and': (lambda a, b: a & b, 'fp_and'), 'xor': (lambda a, b: a ^ b, 'fp_xor'),
    'add': (lambda a, b: a + b, 'fp_add'), 'sub': (lambda a, b: a - b, 'fp_sub'),
    # reflected forms of the commutative operators, called the way Python would call them: b.__rop__(a) for a op b
    'ror': (lambda a, b: b.__ror__(a), 'fp_or'), 'rand': (lambda a, b: b.__rand__(a), 'fp_and'),
    'rxor': (lambda a, b: b.__rxor__(a), 'fp_xor'), 'radd': (lambda a, b: b.__radd__(a), 'fp_add'),
    # __rsub__ is never dispatched by Python for two fingerprints (the plain method never returns NotImplemented); it is coded as
    # self.__sub__(other), and is exercised by the explicit call only, against what the code says: receiver minus argument
    'rsub_explicit': (lambda a, b: a.__rsub__(b), 'fp_sub'),
}


def _iop(sym):
    def f(a, b):
        ns = {'c': a, 'b': b}
        exec('c %s= b' % sym, ns)
        return ns['c']
    return f


def _iscalar(a, sym, x):
    ns = {'c': a, 'x': x}
    exec('c %s= x' % sym, ns)
    return ns['c']


for _n, _s, _m in (('ior', '|', 'fp_or'), ('iand', '&', 'fp_and'), ('ixor', '^', 'fp_xor'), ('iadd', '+', 'fp_add'), ('isub', '-', 'fp_sub')):
    BIT_OPS[_n] = (_iop(_s), _m)

REFLECTED = {'ror', 'rand', 'rxor', 'radd'}
SCALAR_FORMS = ('mul', 'rmul', 'imul', 'div', 'idiv', 'floordiv', 'ifloordiv')
# the Python-2 method names are still defined (and __truediv__ delegates to __div__): explicit calls
SCALAR_ALL = SCALAR_FORMS + ('div_explicit', 'idiv_explicit')


def build(spec):
    """fpgen.build, or an equal-valued object of another provenance (spec['via'], see c11_cov.build_via)."""
    return c11_cov.build_via(spec) if spec.get('via') else fpgen.build(spec)


def scalar_action(a, x, form):
    return {'mul': lambda: a * x, 'rmul': lambda: x * a, 'div': lambda: a / x, 'floordiv': lambda: a // x,
            'imul': lambda: _iscalar(a, '*', x), 'idiv': lambda: _iscalar(a, '/', x), 'ifloordiv': lambda: _iscalar(a, '//', x),
            'div_explicit': lambda: a.__div__(x), 'idiv_explicit': lambda: a.__idiv__(x)}[form]


def _obs_result(r, none_ok=False):
    """('ok', obj) -> ('ok', observation); a result that cannot be observed exactly (nan / inf counts) -> ('bad', text)."""
    if r[0] != 'ok':
        return r
    if none_ok and r[1] is None:
        return ('ok', None)
    if fpgen.kind_of(r[1]) == 'K?':
        return ('bad', 'result is not a fingerprint: %s %.200r' % (type(r[1]).__name__, r[1]))
    try:
        return ('ok', obs(r[1]))
    except (ValueError, OverflowError) as e:
        return ('bad', 'result has non-finite counts: %r (%s)' % (dict(r[1].counts), e))
    except Exception as e:  # noqa
        return ('bad', 'result cannot be observed: %s: %s' % (type(e).__name__, e))


class Runner(object):
    """Builds the cases (implementation run now, model comparison deferred to `compare`).  Every payload carries a
    `replay` entry from which `replay()` re-runs exactly that case."""

    def __init__(self, ctx):
        self.ctx = ctx
        self.cases, self.payloads, self.mexpr = [], {}, {}
        self.found_input = False
        self.dist = {'bit_pairs_exhaustive': 0, 'sampled_pairs': 0, 'scalar': 0, 'scalar_zero': 0, 'reflected_scalar_division': 0,
                     'batch': 0, 'batch_mixed_length': 0, 'batch_bad_weights': 0, 'negative_positions': 0,
                     'errors_expected': 0, 'by_kind': {},
                     # streams of c11_cov.py
                     'length_mismatch_grid': 0, 'mixed_class_pairs': 0, 'value_classes_pairs': 0, 'aliased_pairs': 0, 'edge_pairs': 0,
                     'by_provenance': {}, 'by_flavour': {}, 'scalar_value_classes': 0, 'by_scalar_type': {},
                     'batch_value_classes': 0, 'batch_aliased': 0, 'batch_signed_weights': 0, 'batch_negative_weight_sum': 0,
                     'batch_zero_weight': 0, 'by_weight_type': {}, 'batch_edge_cases': 0, 'sum_counts_dict': 0, 'diff_counts_dict': 0,
                     'chains': 0, 'chain_steps': 0, 'rmul_numpy_scalar_left': 0,
                     'negative_positions_other_functions': 0}
        self.last = None

    def add_case(self, key, expr, payload, model_out):
        self.cases.append((key, expr))
        self.payloads[key] = payload
        self.mexpr[key] = model_out

    def fail(self, what, payload, key):
        self.found_input = True
        self.ctx.fail(what, payload, finding_key=key)

    BIN_FORMS = sorted(BIT_OPS)
    SCALAR_ALL = SCALAR_ALL
    build = staticmethod(build)

    # -- a op b in one of the 15 forms (alias: the same object on both sides)
    def binop(self, tag, sa, sb, opname, alias=False):
        sb = sa if alias else sb
        rp = {'type': 'binop', 'tag': tag, 'sa': fpgen.spec_to_json(sa), 'sb': fpgen.spec_to_json(sb), 'opname': opname, 'alias': alias}
        a = build(sa)
        b = a if alias else build(sb)
        return self.binop_objs(tag, a, b, opname, rp)

    def binop_objs(self, tag, a, b, opname, rp):
        ctx, dist = self.ctx, self.dist
        pyf, mf = BIT_OPS[opname]
        oa, ob = obs(a), obs(b)
        raw = attempt(lambda: pyf(a, b))
        self.last = raw[1] if raw[0] == 'ok' else None
        r = _obs_result(raw)
        if r[0] == 'bad':
            return self.fail('operator %s: %s' % (opname, r[1]), {'op': opname, 'a': fpgen.obs_json(obs(a)), 'b': fpgen.obs_json(obs(b)), 'replay': rp}, 'op:' + opname)
        # operands unchanged (part of the property, decided on the implementation directly)
        if obs(a) != oa or obs(b) != ob:
            self.fail('operand changed by operator %s' % opname, {'a': fpgen.obs_json(oa), 'b': fpgen.obs_json(ob), 'op': opname,
                      'a_after': fpgen.obs_json(obs(a)), 'b_after': fpgen.obs_json(obs(b)), 'replay': rp}, 'operand-mutated:' + opname)
        la, lb = lit(oa), lit(ob)
        m = '%s %s %s' % (mf, lb, la) if opname in REFLECTED else '%s %s %s' % (mf, la, lb)
        floaty = r[0] == 'ok' and r[1]['kind'] == 'KFloat'
        cmp_ = 'fp_obs_close %s' % TOL if floaty else 'fp_obs_eqb'
        key = '%s/%s/%d' % (tag, opname, len(self.cases))
        self.add_case(key, 'result_eqb (%s) (%s) %s' % (cmp_, m, result_lit(r)),
                      {'op': opname, 'a': fpgen.obs_json(oa), 'b': fpgen.obs_json(ob), 'same_object': a is b,
                       'impl': fpgen.obs_json(r[1]) if r[0] == 'ok' else r[1], 'replay': rp}, m)
        nontriv = bool(oa['idx']) and bool(ob['idx']) and (oa['idx'] != ob['idx'] or a is b)
        ctx.count((opname, oa['kind'], ob['kind'], oa['bits'], tuple(oa['idx']), tuple(ob['idx']), str(oa['cnt']), str(ob['cnt']), a is b), nontriv)
        dist['by_kind'][oa['kind'] + '/' + ob['kind']] = dist['by_kind'].get(oa['kind'] + '/' + ob['kind'], 0) + 1
        if r[0] == 'err':
            dist['errors_expected'] += 1
        return r

    # -- a * x, x * a, a / x, a // x, their in-place forms and the explicit __div__ / __idiv__; xt: numeric type of the scalar
    def scalar(self, sa, x, form, xt='int'):
        rp = {'type': 'scalar', 'sa': fpgen.spec_to_json(sa), 'x': x, 'form': form, 'xt': xt}
        return self.scalar_objs(build(sa), x, form, xt, rp)

    def scalar_objs(self, a, x, form, xt, rp):
        ctx = self.ctx
        oa = obs(a)
        xv = c11_cov.XTYPES[xt](x)
        if form == 'rmul' and xt.startswith('np.'):
            # x * a with a NumPy scalar on the left: NumPy first tries to read `a` as a sequence
            raw, walked = c11_cov.count_sequence_walk(a, scalar_action(a, xv, form))
            self.dist['rmul_numpy_scalar_left'] += 1
            if walked >= oa['bits'] > 0:
                self.fail('x * a with a NumPy scalar x examined every position of the declared length before multiplying: %d __getitem__ calls '
                          'for a fingerprint of length %d (time proportional to the length: hours at the default 2^32)' % (walked, oa['bits']),
                          {'a': fpgen.obs_json(oa), 'x': x, 'x_type': xt, 'op': form, 'getitem_calls': walked, 'replay': rp}, c11_cov.KEY_NUMPY_LEFT)
        else:
            raw = attempt(scalar_action(a, xv, form))
        self.last = raw[1] if raw[0] == 'ok' else None
        r = _obs_result(raw)
        if r[0] == 'bad':
            return self.fail('scalar operator %s: %s' % (form, r[1]), {'op': form, 'a': fpgen.obs_json(oa), 'x': x, 'x_type': xt, 'replay': rp}, 'op:' + form)
        if obs(a) != oa:
            self.fail('operand changed by scalar operator %s' % form, {'a': fpgen.obs_json(oa), 'x': x, 'x_type': xt, 'op': form, 'replay': rp},
                      'operand-mutated:' + form)
        mf = 'fp_mul' if 'mul' in form else 'fp_floordiv' if 'floordiv' in form else 'fp_div'
        m = '%s %s (inject_Z %s)' % (mf, lit(oa), core.zlit(x))
        key = 'sc/%s/%d' % (form, len(self.cases))
        self.add_case(key, 'result_eqb (fp_obs_close %s) (%s) %s' % (TOL, m, result_lit(r)),
                      {'op': form, 'a': fpgen.obs_json(oa), 'x': x, 'x_type': xt, 'impl': fpgen.obs_json(r[1]) if r[0] == 'ok' else r[1], 'replay': rp}, m)
        ctx.count((form, x, xt, str(oa)), bool(oa['idx']) and x > 1)
        self.dist['scalar'] += 1
        self.dist['scalar_zero'] += (x == 0)
        if r[0] == 'err':
            self.dist['errors_expected'] += 1

    # -- x / a and x // a: Python calls __rtruediv__ / __rfloordiv__, which the code implements as a / x and a // x.
    #    Decided on the implementation alone: a result is acceptable only if it is the pointwise x / count (x // count)
    #    on a's positions; raising TypeError (no such operation) is acceptable as well.
    def rscalar(self, sa, x, form):
        rp = {'type': 'rscalar', 'sa': fpgen.spec_to_json(sa), 'x': x, 'form': form}
        a = build(sa)
        oa = obs(a)
        r = attempt((lambda: x / a) if form == 'rdiv' else (lambda: x // a))
        self.dist['reflected_scalar_division'] += 1
        cnt = dict(oa['cnt'])
        self.ctx.count((form, x, str(oa)), bool(cnt))
        if obs(a) != oa:
            self.fail('operand changed by reflected scalar operator %s' % form, {'a': fpgen.obs_json(oa), 'x': x, 'op': form, 'replay': rp},
                      'operand-mutated:' + form)
        if r[0] != 'ok':
            if r[1] != 'EType':        # TypeError (no such operation) is the one acceptable refusal
                self.fail('%s raised %s' % ('x / a' if form == 'rdiv' else 'x // a', r[1]), {'a': fpgen.obs_json(oa), 'x': x, 'op': form, 'replay': rp}, 'reflected-division-raises')
            return
        got = dict(obs(r[1])['cnt'])
        if form == 'rdiv':
            want = {k: Fraction(x) / c for k, c in cnt.items() if c != 0}
            bad = any(abs(got.get(k, 0) - w) > Fraction(1, 10 ** 9) * max(1, abs(w)) for k, w in want.items())
        else:
            want = {k: Fraction(x) // c for k, c in cnt.items() if c != 0}
            bad = any(got.get(k, 0) != w for k, w in want.items())
        # the KNOWN outcome is exactly `a / x` (`a // x`): anything else that is wrong is reported without the key
        try:
            swapped = obs(a / x if form == 'rdiv' else a // x)
            is_known_outcome = obs(r[1]) == swapped
        except Exception:  # noqa
            is_known_outcome = False
        if bad and not is_known_outcome:
            self.fail('%s returned neither the scalar divided by the counts nor (the recorded defect) the counts divided by the scalar' % ('x / a' if form == 'rdiv' else 'x // a'),
                      {'a': fpgen.obs_json(oa), 'x': x, 'op': form, 'impl': fpgen.obs_json(obs(r[1])), 'replay': rp}, 'reflected-division-wrong')
        elif bad:
            self.fail('%s returned a %s x (every count divided BY the scalar), not the scalar divided by the counts'
                      % ('x / a' if form == 'rdiv' else 'x // a', '/' if form == 'rdiv' else '//'),
                      {'a': fpgen.obs_json(oa), 'x': x, 'op': form, 'impl': fpgen.obs_json(obs(r[1])),
                       'pointwise_x_over_count': [[k, str(v)] for k, v in sorted(want.items())], 'replay': rp}, KEY_RDIV)

    # -- add(fprints, weights) / mean(fprints, weights); order: positions into the built objects (the same object several times);
    #    container / wtype / style: how the arguments are handed over
    def batch(self, specs, ws, which, order=None, container='list', wtype='floats', style='kw'):
        rp = {'type': 'batch', 'specs': [fpgen.spec_to_json(s) for s in specs], 'ws': None if ws is None else [str(w) for w in ws], 'which': which,
              'order': order, 'container': container, 'wtype': wtype, 'style': style}
        built = [build(s) for s in specs]
        fps = built if order is None else [built[i] for i in order]
        return self.batch_objs(fps, ws, which, rp, container, wtype, style)

    def batch_objs(self, fps, ws, which, rp, container='list', wtype='floats', style='kw'):
        import e3fp.fingerprint.fprint as FP
        obss = [obs(f) for f in fps]
        fws, wq = c11_cov.conv_weights(ws, wtype)
        arg = tuple(fps) if container == 'tuple' else list(fps)
        f = FP.add if which == 'add' else FP.mean
        if style == 'noarg' and ws is None:
            raw = attempt(lambda: f(arg))
        elif style == 'pos':
            raw = attempt(lambda: f(arg, fws))
        else:
            raw = attempt(lambda: f(arg, weights=fws))
        self.last = raw[1] if raw[0] == 'ok' else None
        r = _obs_result(raw, none_ok=True)
        wshow = None if ws is None else [str(w) for w in wq]
        if r[0] == 'bad':
            return self.fail('batch %s: %s' % (which, r[1]), {'op': 'batch_' + which, 'fps': [fpgen.obs_json(o) for o in obss],
                             'weights': wshow, 'replay': rp}, 'op:batch_' + which)
        if [obs(f_) for f_ in fps] != obss:
            self.fail('operand changed by batch %s' % which, {'fps': [fpgen.obs_json(o) for o in obss], 'replay': rp}, 'operand-mutated:batch')
        wl = 'None' if ws is None else '(Some %s)' % core.listlit([core.qlit(w) for w in wq])
        m = 'batch_%s %s %s' % (which, core.listlit([lit(o) for o in obss]), wl)
        exp = '(Raises %s)' % r[1] if r[0] == 'err' else '(Ok None)' if r[1] is None else '(Ok (Some %s))' % lit(r[1])
        key = 'b/%s/%d' % (which, len(self.cases))
        self.add_case(key, 'result_eqb (option_eqb (fp_obs_close %s)) (%s) %s' % (TOL, m, exp),
                      {'op': 'batch_' + which, 'fps': [fpgen.obs_json(o) for o in obss], 'weights': wshow,
                       'same_object_positions': [[i, j] for i in range(len(fps)) for j in range(i) if fps[i] is fps[j]],
                       'container': container, 'weights_type': wtype, 'call': style,
                       'impl': (fpgen.obs_json(r[1]) if r[1] is not None else None) if r[0] == 'ok' else r[1], 'replay': rp}, m)
        self.ctx.count((which, str(obss), str(ws), container, wtype, style, str(rp.get('order'))), len(fps) > 1 and any(o['idx'] for o in obss))
        self.dist['batch'] += 1
        if r[0] == 'err':
            self.dist['errors_expected'] += 1

    def compare(self):
        nbad = core.compare_cases(self.ctx, self.cases, IMPORTS, 'C11 operators', self.payloads, model_expr=self.mexpr,
                                  finding_key_of=lambda k, pl: 'op:%s' % pl.get('op'))
        self.found_input = self.found_input or nbad > 0
        return nbad


def run(ctx):
    ok, res = core.proof_step(ctx)
    rng = ctx.rng
    R = Runner(ctx)
    dist = R.dist

    # 1. exhaustive: all pairs of subsets for small lengths, every operator form
    for bits in ctx.n([1, 2, 3], [1, 2, 3, 4]):
        subsets = [[i for i in range(bits) if (m >> i) & 1] for m in range(2 ** bits)]
        for sa, sb in itertools.product(subsets, subsets):
            for opname in BIT_OPS:
                R.binop('ex%d' % bits, {'kind': 'KBit', 'bits': bits, 'idx': sa}, {'kind': 'KBit', 'bits': bits, 'idx': sb}, opname)
                dist['bit_pairs_exhaustive'] += 1
    # 2. sampled pairs of every kind up to 2^32 (same kind and count/float mixes; a few length mismatches)
    for i in range(ctx.n(250, 4000)):
        kind = rng.choice(fpgen.KINDS)
        sa = fpgen.rand_spec(rng, kind=kind)
        kb = kind if rng.random() < 0.8 or kind == 'KBit' else rng.choice(['KCount', 'KFloat'])
        bits_b = sa['bits'] if rng.random() < 0.9 else rng.choice([b for b in (8, 16, 1024, 2 ** 32) if b != sa['bits']])
        sb = fpgen.rand_spec(rng, kind=kb, bits=bits_b, like=sa)
        ops = list(BIT_OPS) if kind == 'KBit' else ['add', 'sub', 'iadd', 'isub', 'radd', 'or', 'and', 'xor']
        for opname in rng.sample(ops, 3):
            R.binop('s', sa, sb, opname)
            dist['sampled_pairs'] += 1
    # 3. scalar * / // on count and float fingerprints: positive integer scalars (the property's domain), plus 0 for / and //
    #    (division by zero raises only if there is a count to divide), and the reflected divisions x / a, x // a
    for i in range(ctx.n(190, 3000)):
        kind = rng.choice(['KCount', 'KFloat'])
        sa = fpgen.rand_spec(rng, kind=kind)
        form = rng.choice(SCALAR_FORMS)
        x = rng.choice([1, 2, 3, 4, 7, 10, 250] + ([0, 0] if 'div' in form else [0]))
        R.scalar(sa, x, form)
        if i % 4 == 0:
            R.rscalar(sa, rng.choice([2, 3, 10]), rng.choice(['rdiv', 'rfloordiv']))
    # 4. batch sum and (weighted) mean, including members of different lengths, wrong numbers of weights, zero weight sums
    for i in range(ctx.n(200, 3000)):
        n = rng.choice([1, 2, 2, 3, 4, 6]) if rng.random() < 0.97 else 0
        bits = rng.choice([4, 8, 16, 1024, 2 ** 32])
        kinds = [rng.choice(fpgen.KINDS) for _ in range(n)] if rng.random() < 0.5 else [rng.choice(fpgen.KINDS)] * n
        specs = []
        for k in kinds:
            specs.append(fpgen.rand_spec(rng, kind=k, bits=bits, like=specs[0] if specs else None))
        if n >= 2 and rng.random() < 0.15:
            j = rng.randrange(n)         # one member of another length (position 0 included: it defines the reference length)
            specs[j] = fpgen.rand_spec(rng, kind=kinds[j], bits=rng.choice([b for b in (8, 16, 64, 2 ** 32) if b != bits]))
            dist['batch_mixed_length'] += 1
        weighted = rng.random() < 0.5
        ws = [Fraction(rng.choice([1, 1, 2, 3, 5]), rng.choice([1, 2, 4])) for _ in range(n)] if weighted else None
        if weighted and rng.random() < 0.2:
            mode = rng.choice(['short', 'long', 'zero-sum', 'all-zero'])
            if mode == 'short':
                ws = ws[:-1]
            elif mode == 'long':
                ws = ws + [Fraction(1)]
            elif mode == 'zero-sum' and n >= 2:
                ws = ws[:n - 1] + [-sum(ws[:n - 1])]
            else:
                ws = [Fraction(0)] * n
            dist['batch_bad_weights'] += 1
        R.batch(specs, ws, rng.choice(['add', 'mean']))
    # 5. negative positions: the constructors do not reject them (only positions >= length), so the operators and the
    #    totality theorem (wf_idx bounds positions from above only) must cope with them
    pool = [-9, -3, -1, 0, 2, 7]
    for i in range(ctx.n(40, 400)):
        kind = rng.choice(fpgen.KINDS)
        specs = []
        for _ in range(2):
            idx = sorted(rng.sample(pool, rng.choice([1, 2, 3, 4])))
            sp = {'kind': kind, 'bits': 8, 'level': rng.choice([-1, 2])}
            if kind == 'KBit':
                sp['idx'] = idx
            else:
                sp['cnt'] = {j: rng.choice([1, 2, 5]) for j in idx}
            specs.append(sp)
        ops = list(BIT_OPS) if kind == 'KBit' else ['add', 'sub', 'iadd', 'isub', 'radd']
        for opname in rng.sample(ops, 2):
            R.binop('neg', specs[0], specs[1], opname)
            dist['negative_positions'] += 1

    # 6. the input classes and call sequences of the coverage audit (work/coverage_C11.md)
    c11_cov.part(R, ctx)

    cases, payloads = R.cases, R.payloads
    for k in cases[:3] + cases[len(cases) // 2:len(cases) // 2 + 2] + cases[-2:]:
        pl = {kk: v for kk, v in payloads[k[0]].items() if kk != 'replay'}
        ctx.sample({'case': k[0], 'input_and_implementation_result': pl, 'model_check': k[1][:400]})
    R.compare()
    ctx.coverage['rule'] = ('every pair of subsets for bits<=%d x %d operator forms (plain, reflected-commutative, in-place), plus seeded random pairs of '
                            'every kind up to 2^32 bits, scalar * / // with positive integers (and 0 for / and //), x / a and x // a on the implementation, '
                            'batch add/mean with and without weights incl. members of different lengths, wrong numbers of weights and zero weight sums; '
                            'a case is non-trivial when both operands are non-empty and differ or are the same object (scalar: x>1; batch: >=2 members); '
                            'distinct by full input.  Coverage extension (c11_cov.py): a grid of length mismatches for every form, operands of different '
                            'classes, count values 0 / negative / large / non-dyadic, operands of other provenance (constructor, copy, pickle, numpy keys, '
                            'fold cache), the same object on both sides and repeated in a batch, scalars of numpy / float types and up to 2^31, batches as '
                            'tuples with weights as tuples / arrays / integers incl. zero and negative weights with sums of either sign, '
                            'sum_counts_dict / diff_counts_dict against wsum / cmap_pointwise, and chains of operations on one pool of objects'
                            % (ctx.n(3, 4), len(BIT_OPS)))
    ctx.coverage['input_distribution'] = dist
    ctx.assumptions += ['NumPy set routines (union1d/intersect1d/setdiff1d/setxor1d/unique) and dict arithmetic behave as modelled; exercised by the correspondence only',
                        '__rsub__ is never dispatched by Python with two fingerprint operands (the plain method never returns NotImplemented); the explicit '
                        'call a.__rsub__(b) is compared with what the code says (a - b), as are the explicit a.__div__(x) / a.__idiv__(x)',
                        'double rounding: results with float counts are compared within a relative 1e-9; the generators keep |count * weight| small '
                        'enough in weighted sums with weights of mixed sign that the implementation\'s summation error stays below that, and apply // to '
                        'float counts only when they are dyadic (int(v / x) is then decided identically in double and exact arithmetic)',
                        'x / a and x // a (reflected scalar division) are reachable and implemented as a / x and a // x: checked on the implementation against '
                        'the pointwise reading and reported under the finding key %s; x * a is checked against the model (fp_mul)' % KEY_RDIV]
    if not ok:
        core.report_broken_proof(ctx, res, R.found_input)


def replay(ctx, path):
    """Re-run the recorded case on both sides; exit 1 with a VIOLATION line if it still fails."""
    d = json.load(open(path))
    case = d.get('case', {})
    rp = case.get('replay') if isinstance(case, dict) else None
    print('replaying %s: %s' % (path, d.get('what', '')[:200]))
    if rp is None:
        ok, res = core.proof_step(ctx)
        if not ok:
            core.report_broken_proof(ctx, res, False)
        return fpgen.finish_replay(ctx, path, 'proof obligations of Properties/C11.v re-checked')
    R = Runner(ctx)
    sj = fpgen.spec_from_json
    if rp['type'] == 'binop':
        R.binop(rp['tag'], sj(rp['sa']), sj(rp['sb']), rp['opname'], alias=rp.get('alias', False))
    elif rp['type'] == 'scalar':
        R.scalar(sj(rp['sa']), rp['x'], rp['form'], xt=rp.get('xt', 'int'))
    elif rp['type'] == 'rscalar':
        R.rscalar(sj(rp['sa']), rp['x'], rp['form'])
    elif rp['type'] == 'batch':
        R.batch([sj(s) for s in rp['specs']], None if rp['ws'] is None else [Fraction(w) for w in rp['ws']], rp['which'], order=rp.get('order'),
                container=rp.get('container', 'list'), wtype=rp.get('wtype', 'floats'), style=rp.get('style', 'kw'))
    elif c11_cov.replay_case(R, rp):
        pass
    else:
        print('unknown replay type %r' % rp['type'])
        return 2
    if R.cases:
        R.compare()
    return fpgen.finish_replay(ctx, path, 'case %s' % rp['type'])
